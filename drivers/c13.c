/* C13: Thrift metadata round trip and conformance.
 * usage:
 *   c13 gen <seed> <count> <outdir>   random FileMetaData / PageHeader structures: write -> parse -> compare (in C);
 *                                     also stores bytes (<n>.fm.bin / <n>.ph.bin) and canonical dumps (<n>.fm.txt / <n>.ph.txt)
 *   c13 parse <outdir> <file>...      parse *.fm.bin / *.ph.bin produced by the reference encoder, write <file>.out.txt
 * Canonical dump: one line per present field: "<path> <TYPE> <value>", paths use parquet.thrift field ids. */
#include "vdrv.h"
#include <carquet/carquet.h>
#include "thrift/parquet_types.h"
#include "core/arena.h"
#include "core/buffer.h"

static vrng_t R;
typedef struct { char* p; size_t n, cap; } sb_t;
static void sb_add(sb_t* b, const char* fmt, ...) { char tmp[8300]; va_list ap; va_start(ap, fmt); int L = vsnprintf(tmp, sizeof tmp, fmt, ap); va_end(ap); if (L < 0) return; if ((size_t)L >= sizeof tmp) L = sizeof tmp - 1;
    if (b->n + (size_t)L + 2 > b->cap) { b->cap = b->cap ? b->cap * 2 + (size_t)L : 8192; b->p = realloc(b->p, b->cap); } memcpy(b->p + b->n, tmp, (size_t)L); b->n += (size_t)L; b->p[b->n++] = '\n'; b->p[b->n] = 0; }
static void d_bin(sb_t* b, const char* path, const void* p, size_t n) { size_t need = strlen(path) + 5 + n * 2 + 2; if (b->n + need + 2 > b->cap) { b->cap = (b->cap + need) * 2 + 64; b->p = realloc(b->p, b->cap); }
    b->n += (size_t)sprintf(b->p + b->n, "%s BIN ", path); static const char* hx = "0123456789abcdef"; const uint8_t* q = (const uint8_t*)p; for (size_t i = 0; i < n; i++) { b->p[b->n++] = hx[q[i] >> 4]; b->p[b->n++] = hx[q[i] & 15]; } b->p[b->n++] = '\n'; b->p[b->n] = 0; }
static void d_str(sb_t* b, const char* path, const char* s) { d_bin(b, path, s, strlen(s)); }

static void dump_stats(sb_t* b, const char* p, const parquet_statistics_t* s) { char q[256]; sb_add(b, "%s STRUCT", p);
    if (s->max_deprecated && s->max_deprecated_len > 0) { snprintf(q, sizeof q, "%s.1", p); d_bin(b, q, s->max_deprecated, (size_t)s->max_deprecated_len); }
    if (s->min_deprecated && s->min_deprecated_len > 0) { snprintf(q, sizeof q, "%s.2", p); d_bin(b, q, s->min_deprecated, (size_t)s->min_deprecated_len); }
    if (s->has_null_count) sb_add(b, "%s.3 I64 %lld", p, (long long)s->null_count); if (s->has_distinct_count) sb_add(b, "%s.4 I64 %lld", p, (long long)s->distinct_count);
    if (s->max_value && s->max_value_len > 0) { snprintf(q, sizeof q, "%s.5", p); d_bin(b, q, s->max_value, (size_t)s->max_value_len); }
    if (s->min_value && s->min_value_len > 0) { snprintf(q, sizeof q, "%s.6", p); d_bin(b, q, s->min_value, (size_t)s->min_value_len); } }
static void dump_logical(sb_t* b, const char* p, const carquet_logical_type_t* lt) { sb_add(b, "%s STRUCT", p);
    static const int fid[] = {0, 1, 2, 3, 4, 5, 6, 7, 8, 10, 11, 12, 13, 14, 15}; int f = fid[lt->id]; sb_add(b, "%s.%d STRUCT", p, f);
    if (lt->id == CARQUET_LOGICAL_DECIMAL) { sb_add(b, "%s.%d.1 I32 %d", p, f, lt->params.decimal.scale); sb_add(b, "%s.%d.2 I32 %d", p, f, lt->params.decimal.precision); }
    else if (lt->id == CARQUET_LOGICAL_TIME || lt->id == CARQUET_LOGICAL_TIMESTAMP) { int utc = lt->id == CARQUET_LOGICAL_TIME ? lt->params.time.is_adjusted_to_utc : lt->params.timestamp.is_adjusted_to_utc; int unit = lt->id == CARQUET_LOGICAL_TIME ? (int)lt->params.time.unit : (int)lt->params.timestamp.unit;
        sb_add(b, "%s.%d.1 BOOL %d", p, f, utc ? 1 : 0); sb_add(b, "%s.%d.2 STRUCT", p, f); sb_add(b, "%s.%d.2.%d STRUCT", p, f, unit + 1); }
    else if (lt->id == CARQUET_LOGICAL_INTEGER) { sb_add(b, "%s.%d.1 I8 %d", p, f, lt->params.integer.bit_width); sb_add(b, "%s.%d.2 BOOL %d", p, f, lt->params.integer.is_signed ? 1 : 0); } }
static void dump_fm(sb_t* b, const parquet_file_metadata_t* m) { char p[256], q[300];
    sb_add(b, "1 I32 %d", m->version); sb_add(b, "2 LIST STRUCT %d", m->num_schema_elements);
    for (int i = 0; i < m->num_schema_elements; i++) { const parquet_schema_element_t* e = &m->schema[i]; snprintf(p, sizeof p, "2[%d]", i); sb_add(b, "%s STRUCT", p);
        if (e->has_type) sb_add(b, "%s.1 I32 %d", p, (int)e->type); if (e->type_length > 0) sb_add(b, "%s.2 I32 %d", p, e->type_length); if (e->has_repetition) sb_add(b, "%s.3 I32 %d", p, (int)e->repetition_type);
        if (e->name) { snprintf(q, sizeof q, "%s.4", p); d_str(b, q, e->name); } if (e->num_children > 0) sb_add(b, "%s.5 I32 %d", p, e->num_children); if (e->has_converted_type) sb_add(b, "%s.6 I32 %d", p, (int)e->converted_type);
        if (e->scale != 0) sb_add(b, "%s.7 I32 %d", p, e->scale); if (e->precision != 0) sb_add(b, "%s.8 I32 %d", p, e->precision); if (e->has_field_id) sb_add(b, "%s.9 I32 %d", p, e->field_id);
        if (e->has_logical_type && e->logical_type.id != CARQUET_LOGICAL_UNKNOWN) { snprintf(q, sizeof q, "%s.10", p); dump_logical(b, q, &e->logical_type); } }
    sb_add(b, "3 I64 %lld", (long long)m->num_rows); sb_add(b, "4 LIST STRUCT %d", m->num_row_groups);
    for (int g = 0; g < m->num_row_groups; g++) { const parquet_row_group_t* rg = &m->row_groups[g]; snprintf(p, sizeof p, "4[%d]", g); sb_add(b, "%s STRUCT", p); sb_add(b, "%s.1 LIST STRUCT %d", p, rg->num_columns);
        for (int c = 0; c < rg->num_columns; c++) { const parquet_column_chunk_t* cc = &rg->columns[c]; char cp[256]; snprintf(cp, sizeof cp, "%s.1[%d]", p, c); sb_add(b, "%s STRUCT", cp);
            if (cc->file_path) { snprintf(q, sizeof q, "%s.1", cp); d_str(b, q, cc->file_path); } sb_add(b, "%s.2 I64 %lld", cp, (long long)cc->file_offset);
            if (cc->has_metadata) { const parquet_column_metadata_t* md = &cc->metadata; char mp[280]; snprintf(mp, sizeof mp, "%s.3", cp); sb_add(b, "%s STRUCT", mp); sb_add(b, "%s.1 I32 %d", mp, (int)md->type);
                sb_add(b, "%s.2 LIST I32 %d", mp, md->num_encodings); for (int i = 0; i < md->num_encodings; i++) sb_add(b, "%s.2[%d] I32 %d", mp, i, (int)md->encodings[i]);
                sb_add(b, "%s.3 LIST BIN %d", mp, md->path_len); for (int i = 0; i < md->path_len; i++) { snprintf(q, sizeof q, "%s.3[%d]", mp, i); d_str(b, q, md->path_in_schema[i] ? md->path_in_schema[i] : ""); }
                sb_add(b, "%s.4 I32 %d", mp, (int)md->codec); sb_add(b, "%s.5 I64 %lld", mp, (long long)md->num_values); sb_add(b, "%s.6 I64 %lld", mp, (long long)md->total_uncompressed_size); sb_add(b, "%s.7 I64 %lld", mp, (long long)md->total_compressed_size);
                sb_add(b, "%s.9 I64 %lld", mp, (long long)md->data_page_offset); if (md->has_index_page_offset) sb_add(b, "%s.10 I64 %lld", mp, (long long)md->index_page_offset); if (md->has_dictionary_page_offset) sb_add(b, "%s.11 I64 %lld", mp, (long long)md->dictionary_page_offset);
                if (md->has_statistics) { snprintf(q, sizeof q, "%s.12", mp); dump_stats(b, q, &md->statistics); }
                if (md->has_bloom_filter_offset) sb_add(b, "%s.14 I64 %lld", mp, (long long)md->bloom_filter_offset); if (md->has_bloom_filter_length) sb_add(b, "%s.15 I32 %d", mp, md->bloom_filter_length); }
            if (cc->has_offset_index_offset) sb_add(b, "%s.4 I64 %lld", cp, (long long)cc->offset_index_offset); if (cc->has_offset_index_length) sb_add(b, "%s.5 I32 %d", cp, cc->offset_index_length);
            if (cc->has_column_index_offset) sb_add(b, "%s.6 I64 %lld", cp, (long long)cc->column_index_offset); if (cc->has_column_index_length) sb_add(b, "%s.7 I32 %d", cp, cc->column_index_length); }
        sb_add(b, "%s.2 I64 %lld", p, (long long)rg->total_byte_size); sb_add(b, "%s.3 I64 %lld", p, (long long)rg->num_rows);
        if (rg->has_file_offset) sb_add(b, "%s.5 I64 %lld", p, (long long)rg->file_offset); if (rg->has_total_compressed_size) sb_add(b, "%s.6 I64 %lld", p, (long long)rg->total_compressed_size); if (rg->has_ordinal) sb_add(b, "%s.7 I16 %d", p, rg->ordinal); }
    if (m->key_value_metadata && m->num_key_value > 0) { sb_add(b, "5 LIST STRUCT %d", m->num_key_value); for (int i = 0; i < m->num_key_value; i++) { snprintf(p, sizeof p, "5[%d]", i); sb_add(b, "%s STRUCT", p); snprintf(q, sizeof q, "%s.1", p); d_str(b, q, m->key_value_metadata[i].key ? m->key_value_metadata[i].key : "");
            if (m->key_value_metadata[i].value) { snprintf(q, sizeof q, "%s.2", p); d_str(b, q, m->key_value_metadata[i].value); } } }
    if (m->created_by) d_str(b, "6", m->created_by);
}
static void dump_ph(sb_t* b, const parquet_page_header_t* h, int with_stats_content) {
    sb_add(b, "1 I32 %d", (int)h->type); sb_add(b, "2 I32 %d", h->uncompressed_page_size); sb_add(b, "3 I32 %d", h->compressed_page_size); if (h->has_crc) sb_add(b, "4 I32 %d", h->crc);
    if (h->type == CARQUET_PAGE_DATA) { sb_add(b, "5 STRUCT"); sb_add(b, "5.1 I32 %d", h->data_page_header.num_values); sb_add(b, "5.2 I32 %d", (int)h->data_page_header.encoding); sb_add(b, "5.3 I32 %d", (int)h->data_page_header.definition_level_encoding); sb_add(b, "5.4 I32 %d", (int)h->data_page_header.repetition_level_encoding);
        if (h->data_page_header.has_statistics) { if (with_stats_content) dump_stats(b, "5.5", &h->data_page_header.statistics); else sb_add(b, "5.5 PRESENT"); } }
    else if (h->type == CARQUET_PAGE_DICTIONARY) { sb_add(b, "7 STRUCT"); sb_add(b, "7.1 I32 %d", h->dictionary_page_header.num_values); sb_add(b, "7.2 I32 %d", (int)h->dictionary_page_header.encoding); sb_add(b, "7.3 BOOL %d", h->dictionary_page_header.is_sorted ? 1 : 0); }
    else if (h->type == CARQUET_PAGE_DATA_V2) { const parquet_data_page_header_v2_t* v = &h->data_page_header_v2; sb_add(b, "8 STRUCT"); sb_add(b, "8.1 I32 %d", v->num_values); sb_add(b, "8.2 I32 %d", v->num_nulls); sb_add(b, "8.3 I32 %d", v->num_rows); sb_add(b, "8.4 I32 %d", (int)v->encoding);
        sb_add(b, "8.5 I32 %d", v->definition_levels_byte_length); sb_add(b, "8.6 I32 %d", v->repetition_levels_byte_length); sb_add(b, "8.7 BOOL %d", v->is_compressed ? 1 : 0); }
}

/* ---- random structures (serialisable domain) --------------------------------------------------------- */
/* values whose zig-zag varint sits on a length boundary (zigzag(n) = 2^(7k), i.e. n = 2^(7k-1)) and their neighbours */
static int64_t varint_edge(int max_k) { int k = 1 + (int)vrng_below(&R, (uint64_t)max_k); int64_t n = (int64_t)1 << (7 * k - 1); if (vrng_chance(&R, 1, 2)) n = -n - 1; return n + (int64_t)vrng_below(&R, 3) - 1; }
static int64_t rnd_i64(void) { int c = (int)vrng_below(&R, 10); if (c >= 8) return varint_edge(9); return c == 0 ? INT64_MIN : c == 1 ? INT64_MAX : c == 2 ? 0 : c == 3 ? -1 : c == 4 ? (int64_t)vrng_below(&R, 300) : (int64_t)vrng_u64(&R); }
static int32_t rnd_i32(void) { int c = (int)vrng_below(&R, 10); if (c >= 8) return (int32_t)varint_edge(4); return c == 0 ? INT32_MIN : c == 1 ? INT32_MAX : c == 2 ? 0 : c == 3 ? -1 : c == 4 ? (int32_t)vrng_below(&R, 300) : (int32_t)vrng_u64(&R); }
static char* rnd_name(carquet_arena_t* a) { static const size_t EDGE[] = {127, 128, 129, 16383, 16384, 16385}; size_t L = vrng_chance(&R, 1, 8) ? 0 : vrng_chance(&R, 1, 25) ? EDGE[vrng_below(&R, 6)] : vrng_chance(&R, 1, 10) ? 200 + vrng_below(&R, 5000) : 1 + vrng_below(&R, 20); char* s = carquet_arena_alloc_aligned(a, L + 1, 1); for (size_t i = 0; i < L; i++) { uint8_t c = (uint8_t)(1 + vrng_below(&R, 255)); s[i] = (char)c; } s[L] = 0; return s; }
static uint8_t* rnd_bin(carquet_arena_t* a, int32_t* len) { if (vrng_chance(&R, 1, 4)) { *len = 0; return NULL; } int32_t L = 1 + (int32_t)vrng_below(&R, vrng_chance(&R, 1, 10) ? 3000 : 16); if (vrng_chance(&R, 1, 40)) { static const int32_t EDGE[] = {127, 128, 16383, 16384, 16385}; L = EDGE[vrng_below(&R, 5)]; } uint8_t* p = carquet_arena_alloc(a, (size_t)L); vrng_bytes(&R, p, (size_t)L); *len = L; return p; }
static void rnd_stats(carquet_arena_t* a, parquet_statistics_t* s) { memset(s, 0, sizeof *s); s->max_deprecated = rnd_bin(a, &s->max_deprecated_len); s->min_deprecated = rnd_bin(a, &s->min_deprecated_len); s->max_value = rnd_bin(a, &s->max_value_len); s->min_value = rnd_bin(a, &s->min_value_len);
    s->has_null_count = vrng_chance(&R, 1, 2); s->null_count = rnd_i64(); s->has_distinct_count = vrng_chance(&R, 1, 2); s->distinct_count = rnd_i64(); }
static void rnd_logical(carquet_logical_type_t* lt) { memset(lt, 0, sizeof *lt); lt->id = (carquet_logical_type_id_t)(1 + vrng_below(&R, 14));
    if (lt->id == CARQUET_LOGICAL_DECIMAL) { lt->params.decimal.scale = rnd_i32(); lt->params.decimal.precision = rnd_i32(); } else if (lt->id == CARQUET_LOGICAL_TIME) { lt->params.time.unit = (carquet_time_unit_t)vrng_below(&R, 3); lt->params.time.is_adjusted_to_utc = vrng_chance(&R, 1, 2); }
    else if (lt->id == CARQUET_LOGICAL_TIMESTAMP) { lt->params.timestamp.unit = (carquet_time_unit_t)vrng_below(&R, 3); lt->params.timestamp.is_adjusted_to_utc = vrng_chance(&R, 1, 2); } else if (lt->id == CARQUET_LOGICAL_INTEGER) { static const int8_t bw[] = {8, 16, 32, 64, -128, 127}; lt->params.integer.bit_width = bw[vrng_below(&R, 6)]; lt->params.integer.is_signed = vrng_chance(&R, 1, 2); } }
static int rnd_count(void) { static const int c[] = {0, 1, 2, 3, 14, 15, 16, 17, 40}; return vrng_chance(&R, 1, 25) ? 300 : c[vrng_below(&R, 9)]; }
static void rnd_fm(carquet_arena_t* a, parquet_file_metadata_t* m) { memset(m, 0, sizeof *m); m->version = rnd_i32(); m->num_rows = rnd_i64(); m->created_by = vrng_chance(&R, 1, 4) ? NULL : rnd_name(a);
    m->num_schema_elements = rnd_count(); m->schema = carquet_arena_calloc(a, (size_t)m->num_schema_elements + 1, sizeof *m->schema);
    for (int i = 0; i < m->num_schema_elements; i++) { parquet_schema_element_t* e = &m->schema[i]; e->has_type = vrng_chance(&R, 2, 3); e->type = (carquet_physical_type_t)vrng_below(&R, 8); e->type_length = vrng_chance(&R, 1, 3) ? 1 + (int32_t)vrng_below(&R, 1000) : 0; e->has_repetition = vrng_chance(&R, 3, 4); e->repetition_type = (carquet_field_repetition_t)vrng_below(&R, 3);
        e->name = rnd_name(a); e->num_children = vrng_chance(&R, 1, 3) ? 1 + (int32_t)vrng_below(&R, 50) : 0; e->has_converted_type = vrng_chance(&R, 1, 3); e->converted_type = (carquet_converted_type_t)vrng_below(&R, 22); e->scale = vrng_chance(&R, 1, 4) ? rnd_i32() : 0; e->precision = vrng_chance(&R, 1, 4) ? rnd_i32() : 0;
        e->has_field_id = vrng_chance(&R, 1, 3); e->field_id = rnd_i32(); e->has_logical_type = vrng_chance(&R, 1, 2); if (e->has_logical_type) rnd_logical(&e->logical_type); }
    m->num_row_groups = vrng_chance(&R, 1, 20) ? 40 : (int32_t)vrng_below(&R, 4); m->row_groups = carquet_arena_calloc(a, (size_t)m->num_row_groups + 1, sizeof *m->row_groups);
    for (int g = 0; g < m->num_row_groups; g++) { parquet_row_group_t* rg = &m->row_groups[g]; rg->num_columns = vrng_chance(&R, 1, 10) ? 20 : (int32_t)vrng_below(&R, 4); rg->columns = carquet_arena_calloc(a, (size_t)rg->num_columns + 1, sizeof *rg->columns); rg->total_byte_size = rnd_i64(); rg->num_rows = rnd_i64();
        rg->has_file_offset = vrng_chance(&R, 1, 2); rg->file_offset = rnd_i64(); rg->has_total_compressed_size = vrng_chance(&R, 1, 2); rg->total_compressed_size = rnd_i64(); rg->has_ordinal = vrng_chance(&R, 1, 2); rg->ordinal = (int16_t)vrng_u64(&R);
        for (int c = 0; c < rg->num_columns; c++) { parquet_column_chunk_t* cc = &rg->columns[c]; cc->file_path = vrng_chance(&R, 1, 5) ? rnd_name(a) : NULL; cc->file_offset = rnd_i64(); cc->has_metadata = vrng_chance(&R, 4, 5);
            cc->has_offset_index_offset = vrng_chance(&R, 1, 3); cc->offset_index_offset = rnd_i64(); cc->has_offset_index_length = vrng_chance(&R, 1, 3); cc->offset_index_length = rnd_i32(); cc->has_column_index_offset = vrng_chance(&R, 1, 3); cc->column_index_offset = rnd_i64(); cc->has_column_index_length = vrng_chance(&R, 1, 3); cc->column_index_length = rnd_i32();
            if (cc->has_metadata) { parquet_column_metadata_t* md = &cc->metadata; md->type = (carquet_physical_type_t)vrng_below(&R, 8); md->num_encodings = rnd_count() % 60; md->encodings = carquet_arena_calloc(a, (size_t)md->num_encodings + 1, sizeof *md->encodings); for (int i = 0; i < md->num_encodings; i++) md->encodings[i] = (carquet_encoding_t)vrng_below(&R, 10);
                md->path_len = rnd_count() % 50; md->path_in_schema = carquet_arena_calloc(a, (size_t)md->path_len + 1, sizeof(char*)); for (int i = 0; i < md->path_len; i++) md->path_in_schema[i] = rnd_name(a);
                md->codec = (carquet_compression_t)vrng_below(&R, 8); md->num_values = rnd_i64(); md->total_uncompressed_size = rnd_i64(); md->total_compressed_size = rnd_i64(); md->data_page_offset = rnd_i64();
                md->has_index_page_offset = vrng_chance(&R, 1, 3); md->index_page_offset = rnd_i64(); md->has_dictionary_page_offset = vrng_chance(&R, 1, 2); md->dictionary_page_offset = rnd_i64(); md->has_statistics = vrng_chance(&R, 1, 2); if (md->has_statistics) rnd_stats(a, &md->statistics);
                md->has_bloom_filter_offset = vrng_chance(&R, 1, 3); md->bloom_filter_offset = rnd_i64(); md->has_bloom_filter_length = vrng_chance(&R, 1, 3); md->bloom_filter_length = rnd_i32(); } } }
    m->num_key_value = vrng_chance(&R, 1, 2) ? rnd_count() : 0; m->key_value_metadata = carquet_arena_calloc(a, (size_t)m->num_key_value + 1, sizeof *m->key_value_metadata); for (int i = 0; i < m->num_key_value; i++) { m->key_value_metadata[i].key = rnd_name(a); m->key_value_metadata[i].value = vrng_chance(&R, 1, 4) ? NULL : rnd_name(a); }
}
static void rnd_ph(carquet_arena_t* a, parquet_page_header_t* h) { memset(h, 0, sizeof *h); static const int ty[] = {CARQUET_PAGE_DATA, CARQUET_PAGE_DICTIONARY, CARQUET_PAGE_DATA_V2}; h->type = (carquet_page_type_t)ty[vrng_below(&R, 3)]; h->uncompressed_page_size = rnd_i32(); h->compressed_page_size = rnd_i32(); h->has_crc = vrng_chance(&R, 1, 2); h->crc = rnd_i32();
    if (h->type == CARQUET_PAGE_DATA) { h->data_page_header.num_values = rnd_i32(); h->data_page_header.encoding = (carquet_encoding_t)vrng_below(&R, 10); h->data_page_header.definition_level_encoding = (carquet_encoding_t)vrng_below(&R, 10); h->data_page_header.repetition_level_encoding = (carquet_encoding_t)vrng_below(&R, 10); h->data_page_header.has_statistics = vrng_chance(&R, 1, 2); if (h->data_page_header.has_statistics) rnd_stats(a, &h->data_page_header.statistics); }
    else if (h->type == CARQUET_PAGE_DICTIONARY) { h->dictionary_page_header.num_values = rnd_i32(); h->dictionary_page_header.encoding = (carquet_encoding_t)vrng_below(&R, 10); h->dictionary_page_header.is_sorted = vrng_chance(&R, 1, 2); }
    else { parquet_data_page_header_v2_t* v = &h->data_page_header_v2; v->num_values = rnd_i32(); v->num_nulls = rnd_i32(); v->num_rows = rnd_i32(); v->encoding = (carquet_encoding_t)vrng_below(&R, 10); v->definition_levels_byte_length = rnd_i32(); v->repetition_levels_byte_length = rnd_i32(); v->is_compressed = vrng_chance(&R, 1, 2); }
}
static void put_file(const char* dir, int64_t n, const char* ext, const void* p, size_t len) { char path[600]; snprintf(path, sizeof path, "%s/%lld.%s", dir, (long long)n, ext); FILE* f = fopen(path, "wb"); if (!f) { perror(path); exit(2); } fwrite(p, 1, len, f); fclose(f); }

int main(int argc, char** argv) {
    if (argc < 4) return 2; (void)carquet_init();
    if (!strcmp(argv[1], "gen")) { uint64_t seed = strtoull(argv[2], 0, 10); int64_t count = atoll(argv[3]); const char* dir = argv[4]; vrng_seed(&R, seed * 7919 + 13);
        for (int64_t n = 0; n < count; n++) { carquet_arena_t a; carquet_arena_init(&a); carquet_error_t err = CARQUET_ERROR_INIT;
            /* FileMetaData */
            parquet_file_metadata_t m; rnd_fm(&a, &m); carquet_buffer_t buf; carquet_buffer_init(&buf); carquet_status_t st = parquet_write_file_metadata(&m, &buf, &err); sb_t d1 = {0}; dump_fm(&d1, &m); v_case(v_hash(d1.p, d1.n, 1));
            if (st != CARQUET_OK) { v_viol("thrift:write-file-metadata-failed", "case=%lld status=%d", (long long)n, st); }
            else { uint8_t* exact = v_exact_copy(buf.data, buf.size); carquet_arena_t a2; carquet_arena_init(&a2); parquet_file_metadata_t m2; memset(&m2, 0, sizeof m2); st = parquet_parse_file_metadata(exact, buf.size, &a2, &m2, &err);
                if (st != CARQUET_OK) v_viol("thrift:own-file-metadata-rejected", "case=%lld status=%d %s", (long long)n, st, err.message);
                else { sb_t d2 = {0}; dump_fm(&d2, &m2); if (d1.n != d2.n || memcmp(d1.p, d2.p, d1.n)) { size_t i = 0; while (i < d1.n && i < d2.n && d1.p[i] == d2.p[i]) i++; while (i > 0 && d1.p[i - 1] != '\n') i--; char la[200], lb[200]; snprintf(la, sizeof la, "%.150s", d1.p + i); snprintf(lb, sizeof lb, "%.150s", i < d2.n ? d2.p + i : ""); if (strchr(la, '\n')) *strchr(la, '\n') = 0; if (strchr(lb, '\n')) *strchr(lb, '\n') = 0; char key[96], fld[64]; sscanf(la, "%63s", fld); for (char* c = fld; *c; c++) if (*c >= '0' && *c <= '9' && c > fld && c[-1] == '[') { char* e = strchr(c, ']'); if (e) { memmove(c, e, strlen(e) + 1); } } snprintf(key, sizeof key, "thrift:file-metadata-roundtrip-differs:%s", fld); v_viol(key, "case=%lld wrote[%s] parsed[%s]", (long long)n, la, lb); } free(d2.p); }
                put_file(dir, n, "fm.bin", buf.data, buf.size); put_file(dir, n, "fm.txt", d1.p ? d1.p : "", d1.n); carquet_arena_destroy(&a2); free(exact); v_count("file_metadata_roundtrips"); }
            carquet_buffer_destroy(&buf); free(d1.p);
            /* PageHeader */
            parquet_page_header_t h; rnd_ph(&a, &h); carquet_buffer_init(&buf); st = parquet_write_page_header(&h, &buf, &err); sb_t p1 = {0}; dump_ph(&p1, &h, 0); v_case(v_hash(p1.p, p1.n, 2));
            if (st != CARQUET_OK) v_viol("thrift:write-page-header-failed", "case=%lld status=%d", (long long)n, st);
            else { size_t extra = vrng_below(&R, 40); uint8_t* exact = v_exact(buf.size + extra); memcpy(exact, buf.data, buf.size); vrng_bytes(&R, exact + buf.size, extra); parquet_page_header_t h2; memset(&h2, 0, sizeof h2); size_t used = 0; st = parquet_parse_page_header(exact, buf.size + extra, &h2, &used, &err);
                if (st != CARQUET_OK) v_viol("thrift:own-page-header-rejected", "case=%lld status=%d %s", (long long)n, st, err.message);
                else { if (used != buf.size) v_viol("thrift:page-header-bytes-read-differs", "case=%lld produced=%zu consumed=%zu type=%d", (long long)n, buf.size, used, (int)h.type); sb_t p2 = {0}; dump_ph(&p2, &h2, 0); if (p1.n != p2.n || memcmp(p1.p, p2.p, p1.n)) v_viol("thrift:page-header-roundtrip-differs", "case=%lld type=%d", (long long)n, (int)h.type);
                    else { /* everything else equal: does the content of DataPageHeader.statistics (which carquet serialises) come back too? */ sb_t f1 = {0}, f2 = {0}; dump_ph(&f1, &h, 1); dump_ph(&f2, &h2, 1); if (f1.n != f2.n || memcmp(f1.p, f2.p, f1.n)) v_viol("thrift:page-header-roundtrip-loses-statistics-content", "case=%lld type=%d: written [%.200s] parsed back [%.200s]", (long long)n, (int)h.type, f1.p ? f1.p : "", f2.p ? f2.p : ""); else v_count("page_header_roundtrips_with_full_statistics_equal"); free(f1.p); free(f2.p); }
                    free(p2.p); }
                /* the dump handed to the reference decoder also lists the statistics content carquet serialised */
                { sb_t pf = {0}; dump_ph(&pf, &h, 1); put_file(dir, n, "ph.txt", pf.p ? pf.p : "", pf.n); free(pf.p); }
                put_file(dir, n, "ph.bin", buf.data, buf.size); free(exact); v_count("page_header_roundtrips"); }
            carquet_buffer_destroy(&buf); free(p1.p); carquet_arena_destroy(&a); }
        v_sample("c13 gen: %lld random FileMetaData (0..300 schema elements, 0..40 row groups x 0..20 chunks, all logical types, extreme integers, names of 0..5000 non-NUL bytes, lists of 0/1/14/15/16/17/40/300 entries, key/values, binary statistics) and PageHeader (v1/dictionary/v2) structures", (long long)count);
    } else if (!strcmp(argv[1], "parse")) { const char* dir = argv[2];
        for (int i = 3; i < argc; i++) { size_t n = 0; FILE* f = fopen(argv[i], "rb"); if (!f) { perror(argv[i]); return 2; } fseek(f, 0, SEEK_END); n = (size_t)ftell(f); fseek(f, 0, SEEK_SET); uint8_t* b = v_exact(n); if (n && fread(b, 1, n, f) != n) return 2; fclose(f);
            carquet_error_t err = CARQUET_ERROR_INIT; sb_t d = {0}; const char* base = strrchr(argv[i], '/') ? strrchr(argv[i], '/') + 1 : argv[i]; char out[700]; snprintf(out, sizeof out, "%s/%s.out.txt", dir, base); v_case(v_hash(b, n, 9));
            if (strstr(base, ".fm.")) { carquet_arena_t a; carquet_arena_init(&a); parquet_file_metadata_t m; memset(&m, 0, sizeof m); carquet_status_t st = parquet_parse_file_metadata(b, n, &a, &m, &err); if (st != CARQUET_OK) sb_add(&d, "ERROR %d %s", st, err.message); else { sb_add(&d, "OK"); dump_fm(&d, &m); } carquet_arena_destroy(&a); v_count("reference_file_metadata_parsed"); }
            else { parquet_page_header_t h; memset(&h, 0, sizeof h); size_t used = 0; carquet_status_t st = parquet_parse_page_header(b, n, &h, &used, &err); if (st != CARQUET_OK) sb_add(&d, "ERROR %d %s", st, err.message); else { sb_add(&d, "OK bytes_read=%zu", used); dump_ph(&d, &h, 0); } v_count("reference_page_headers_parsed"); }
            FILE* o = fopen(out, "wb"); if (!o) { perror(out); return 2; } fwrite(d.p, 1, d.n, o); fclose(o); free(d.p); free(b); }
    } else return 2;
    v_finish(); return 0;
}
