/* C08: component decoders are safe on arbitrary bytes and respect capacities.
 * In-process loops, exact-size heap blocks for every input and output (ASan red zones), LSan checks.
 * usage: c08 <family> <seed> <scale>    family: thrift rle bitpack plain delta dstr bss dict snappy lz4 gzip zstd */
#include "vdrv.h"
#include <carquet/carquet.h>
#include "thrift/parquet_types.h"
#include "encoding/rle.h"
#include "encoding/plain.h"
#include "core/bitpack.h"
#include "core/buffer.h"
#include "core/arena.h"

carquet_status_t carquet_delta_decode_int32(const uint8_t*, size_t, int32_t*, int32_t, size_t*);
carquet_status_t carquet_delta_decode_int64(const uint8_t*, size_t, int64_t*, int32_t, size_t*);
carquet_status_t carquet_delta_encode_int32(const int32_t*, int32_t, uint8_t*, size_t, size_t*);
carquet_status_t carquet_delta_encode_int64(const int64_t*, int32_t, uint8_t*, size_t, size_t*);
carquet_status_t carquet_delta_length_decode(const uint8_t*, size_t, carquet_byte_array_t*, int32_t, size_t*);
carquet_status_t carquet_delta_length_encode(const carquet_byte_array_t*, int32_t, carquet_buffer_t*);
carquet_status_t carquet_delta_strings_decode(const uint8_t*, size_t, carquet_byte_array_t*, int32_t, uint8_t*, size_t, size_t*);
carquet_status_t carquet_delta_strings_encode(const carquet_byte_array_t*, int32_t, carquet_buffer_t*);
carquet_status_t carquet_byte_stream_split_decode_float(const uint8_t*, size_t, float*, int64_t);
carquet_status_t carquet_byte_stream_split_decode_double(const uint8_t*, size_t, double*, int64_t);
carquet_status_t carquet_byte_stream_split_decode(const uint8_t*, size_t, int32_t, uint8_t*, int64_t);
carquet_status_t carquet_dictionary_encode_int32(const int32_t*, int64_t, carquet_buffer_t*, carquet_buffer_t*);
carquet_status_t carquet_dictionary_decode_int32(const uint8_t*, size_t, int32_t, const uint8_t*, size_t, int32_t*, int64_t);
carquet_status_t carquet_dictionary_decode_int64(const uint8_t*, size_t, int32_t, const uint8_t*, size_t, int64_t*, int64_t);
carquet_status_t carquet_dictionary_decode_float(const uint8_t*, size_t, int32_t, const uint8_t*, size_t, float*, int64_t);
carquet_status_t carquet_dictionary_decode_double(const uint8_t*, size_t, int32_t, const uint8_t*, size_t, double*, int64_t);
carquet_status_t carquet_snappy_compress(const uint8_t*, size_t, uint8_t*, size_t, size_t*); carquet_status_t carquet_snappy_decompress(const uint8_t*, size_t, uint8_t*, size_t, size_t*); size_t carquet_snappy_compress_bound(size_t);
carquet_status_t carquet_lz4_compress(const uint8_t*, size_t, uint8_t*, size_t, size_t*); carquet_status_t carquet_lz4_decompress(const uint8_t*, size_t, uint8_t*, size_t, size_t*); size_t carquet_lz4_compress_bound(size_t);
int carquet_gzip_compress(const uint8_t*, size_t, uint8_t*, size_t, size_t*, int); int carquet_gzip_decompress(const uint8_t*, size_t, uint8_t*, size_t, size_t*); size_t carquet_gzip_compress_bound(size_t);
int carquet_zstd_compress(const uint8_t*, size_t, uint8_t*, size_t, size_t*, int); int carquet_zstd_decompress(const uint8_t*, size_t, uint8_t*, size_t, size_t*); size_t carquet_zstd_compress_bound(size_t);

static vrng_t R; static const char* FAM = "?"; static const char* CUR = "?";
/* libFuzzer stage (drivers/fz_decoders.c): FZ_ON makes every input source return the fuzzer's payload; SEED_DIR (mode "seeds")
 * dumps the valid encodings the families build, prefixed with the 4 bytes [family, 24-bit parameter seed] the fuzz target expects */
static int FZ_ON = 0; static const uint8_t* FZD = NULL; static size_t FZN = 0; static const char* SEED_DIR = NULL; static int CUR_FAMID = 0; static uint32_t CUR_PS = 0; static uint32_t PS_CTR = 1; static long SEEDS_DUMPED = 0;
static void iter_begin(void) { if (SEED_DIR) { CUR_PS = (PS_CTR++ * 2654435761u) & 0xFFFFFFu; vrng_seed(&R, CUR_PS); } }
static void over(const char* what, const char* fmt, ...) { char key[128], d[512]; va_list ap; va_start(ap, fmt); vsnprintf(d, sizeof d, fmt, ap); va_end(ap); snprintf(key, sizeof key, "decoder:%s:%s", what, CUR); v_viol(key, "%s", d);
#ifdef FZ_MODE
    fprintf(stderr, "API-CONTRACT %s %s\n", key, d); abort();
#endif
}

/* ---- mutation of a seed buffer; returns exact-size heap block ---------------------------------------------- */
static uint8_t* mutate(const uint8_t* seed, size_t n, size_t* out_n) {
    if (FZ_ON) { uint8_t* fb = v_exact(FZN); if (FZN) memcpy(fb, FZD, FZN); *out_n = FZN; return fb; }
    if (SEED_DIR && n <= 60000 && SEEDS_DUMPED < 4000) { char pth[600]; snprintf(pth, sizeof pth, "%s/f%02d_%06x_%ld", SEED_DIR, CUR_FAMID, CUR_PS, SEEDS_DUMPED++); FILE* sf = fopen(pth, "wb"); if (sf) { uint8_t pre[4] = {(uint8_t)CUR_FAMID, (uint8_t)CUR_PS, (uint8_t)(CUR_PS >> 8), (uint8_t)(CUR_PS >> 16)}; fwrite(pre, 1, 4, sf); if (n) fwrite(seed, 1, n, sf); fclose(sf); } }
    int kind = (int)vrng_below(&R, 9); size_t m = n; uint8_t* b;
    if (kind == 0 && n) { m = vrng_below(&R, n); }                                   /* truncate */
    else if (kind == 1) { m = n + 1 + vrng_below(&R, 16); }                           /* extend */
    b = v_exact(m); memcpy(b, seed, m < n ? m : n); if (m > n) vrng_bytes(&R, b + n, m - n);
    if (m == 0) { *out_n = 0; return b; }
    switch (kind) {
    case 2: { int k = 1 + (int)vrng_below(&R, 4); for (int i = 0; i < k; i++) b[vrng_below(&R, m)] ^= (uint8_t)(1u << vrng_below(&R, 8)); break; }
    case 3: { int k = 1 + (int)vrng_below(&R, 3); for (int i = 0; i < k; i++) b[vrng_below(&R, m)] = (uint8_t)vrng_u64(&R); break; }
    case 4: { static const uint8_t hot[] = {0x00, 0xFF, 0x7F, 0x80, 0x01, 0xFE}; b[vrng_below(&R, m)] = hot[vrng_below(&R, 6)]; break; }
    case 5: { size_t p = vrng_below(&R, m); size_t l = 1 + vrng_below(&R, 5); for (size_t i = p; i < p + l && i < m; i++) b[i] = 0xFF; break; }     /* huge varint / length */
    case 6: { size_t p = vrng_below(&R, m), q = vrng_below(&R, m), l = 1 + vrng_below(&R, 8); for (size_t i = 0; i < l && p + i < m && q + i < m; i++) b[p + i] = seed[(q + i) % (n ? n : 1)]; break; }   /* splice */
    case 7: { if (m >= 4) { uint32_t v = (uint32_t)vrng_u64(&R) | 0xFFFFFF00u; memcpy(b + vrng_below(&R, m - 3), &v, 4); } break; }                      /* 32-bit length near 2^32 */
    default: break; }
    *out_n = m; return b;
}
static uint8_t* random_bytes(size_t* out_n) { if (FZ_ON) { uint8_t* fb = v_exact(FZN); if (FZN) memcpy(fb, FZD, FZN); *out_n = FZN; return fb; } size_t n = vrng_chance(&R, 1, 10) ? vrng_below(&R, 4000) : vrng_below(&R, 64); uint8_t* b = v_exact(n); vrng_bytes(&R, b, n); if (n && vrng_chance(&R, 1, 3)) for (size_t i = 0; i < n; i++) b[i] &= (uint8_t)(vrng_chance(&R, 1, 2) ? 0x0F : 0x8F); *out_n = n; return b; }
static int rnd_width(void) { int c = (int)vrng_below(&R, 10); return c < 6 ? (int)vrng_below(&R, 33) : c < 8 ? 33 + (int)vrng_below(&R, 32) : (int)vrng_below(&R, 256); }
static int64_t rnd_count(void) { static const int64_t cs[] = {0, 1, 7, 8, 9, 15, 16, 17, 63, 64, 65, 127, 128, 129, 1000}; return vrng_chance(&R, 1, 50) ? (int64_t)vrng_below(&R, 200000) : cs[vrng_below(&R, 15)]; }
static void leak_check(int64_t i) { if (FZ_ON) return; if (i % 20000 == 19999) { if (__lsan_do_recoverable_leak_check()) over("leak-after-failure", "recoverable leak check fired at iteration %lld", (long long)i); } }

/* ---- families ------------------------------------------------------------------------------------------------ */
/* unknown field (id 200) holding containers nested until the buffer is full; every level is a struct, list, set or map drawn
 * from the subset `mask` (bit0 struct, bit1 list, bit2 set, bit3 map), so lists-only, maps-only, sets-only and every mixture occur */
static void gen_nest(uint8_t* out, size_t n, unsigned mask) {
    static const uint8_t TY[4] = {0xC, 0x9, 0xA, 0xB}; size_t k = 0; int in_struct = 1; int cur = 0; int first = 1; if (!(mask & 15)) mask = 15;
    while (k + 4 < n) { int t; do t = (int)vrng_below(&R, 4); while (!(mask & (1u << t)));
        if (in_struct) { if (first) { out[k++] = TY[t]; out[k++] = 0x90; out[k++] = 0x03; first = 0; } else out[k++] = (uint8_t)(0x10 | TY[t]); cur = t; in_struct = 0; }
        else if (cur == 0) { in_struct = 1; }
        else if (cur == 1 || cur == 2) { out[k++] = (uint8_t)(0x10 | TY[t]); cur = t; }
        else { out[k++] = 0x01; out[k++] = (uint8_t)(0x50 | TY[t]); out[k++] = 0x02; cur = t; } }
    while (k < n) out[k++] = 0x00; }

static void fam_thrift(int64_t iters) {
    /* seeds: metadata and page headers written by carquet itself */
    carquet_buffer_t fm; carquet_buffer_init(&fm); { parquet_file_metadata_t m; memset(&m, 0, sizeof m); parquet_schema_element_t se[3]; memset(se, 0, sizeof se); se[0].name = "schema"; se[0].num_children = 2; se[1].name = "a"; se[1].has_type = 1; se[1].type = CARQUET_PHYSICAL_INT32; se[1].has_repetition = 1; se[2].name = "b"; se[2].has_type = 1; se[2].type = CARQUET_PHYSICAL_BYTE_ARRAY; se[2].has_repetition = 1; se[2].repetition_type = CARQUET_REPETITION_OPTIONAL; se[2].has_logical_type = 1; se[2].logical_type.id = CARQUET_LOGICAL_STRING;
        parquet_column_chunk_t cc[2]; memset(cc, 0, sizeof cc); carquet_encoding_t encs[2] = {CARQUET_ENCODING_PLAIN, CARQUET_ENCODING_RLE}; char* path0[1] = {"a"}; char* path1[1] = {"b"}; for (int i = 0; i < 2; i++) { cc[i].has_metadata = 1; cc[i].metadata.type = se[i + 1].type; cc[i].metadata.encodings = encs; cc[i].metadata.num_encodings = 2; cc[i].metadata.path_in_schema = i ? path1 : path0; cc[i].metadata.path_len = 1; cc[i].metadata.num_values = 10; cc[i].metadata.data_page_offset = 4 + 100 * i; cc[i].metadata.total_compressed_size = 100; cc[i].metadata.has_statistics = 1; cc[i].metadata.statistics.has_null_count = 1; cc[i].metadata.statistics.min_value = (uint8_t*)"ab"; cc[i].metadata.statistics.min_value_len = 2; cc[i].metadata.statistics.max_value = (uint8_t*)"zz"; cc[i].metadata.statistics.max_value_len = 2; }
        parquet_row_group_t rg; memset(&rg, 0, sizeof rg); rg.columns = cc; rg.num_columns = 2; rg.num_rows = 10; parquet_key_value_t kv = {"k", "v"}; m.version = 2; m.schema = se; m.num_schema_elements = 3; m.num_rows = 10; m.row_groups = &rg; m.num_row_groups = 1; m.key_value_metadata = &kv; m.num_key_value = 1; m.created_by = "c08"; (void)parquet_write_file_metadata(&m, &fm, NULL); }
    carquet_buffer_t ph; carquet_buffer_init(&ph); { parquet_page_header_t h; memset(&h, 0, sizeof h); h.type = CARQUET_PAGE_DATA; h.uncompressed_page_size = 100; h.compressed_page_size = 90; h.has_crc = 1; h.crc = 12345; h.data_page_header.num_values = 10; h.data_page_header.has_statistics = 1; h.data_page_header.statistics.has_null_count = 1; (void)parquet_write_page_header(&h, &ph, NULL); }
    for (int64_t i = 0; i < iters; i++) { iter_begin(); size_t n; uint8_t* in; int src = (int)(i % 3); int which = (int)vrng_below(&R, 2); CUR = which ? "parse_page_header" : "parse_file_metadata";
        if (src == 0) in = mutate(which ? ph.data : fm.data, which ? ph.size : fm.size, &n); else if (src == 1) in = random_bytes(&n);
        else { /* grammar: deep nesting of unknown structs/lists, huge counts */ n = 8 + vrng_below(&R, 3000); if (i % 3000 == 2) { n = 200000 + vrng_below(&R, 3000000); v_count("deep_nesting_inputs"); } int g = (int)vrng_below(&R, 11);
            if (g >= 9) { /* an unknown binary (or list) field whose length varint is hostile: 2^64-k (wraps every 64-bit position sum), 2^63, 2^32+-, 2^31+- ; spliced in front of the final STOP of a valid header/footer */
                const uint8_t* sd = which ? ph.data : fm.data; size_t sn = which ? ph.size : fm.size; static const uint64_t HL[] = {0, 1, 0x7FFFFFFFULL, 0x80000000ULL, 0xFFFFFFFFULL, 0x100000000ULL, 0x7FFFFFFFFFFFFFFFULL, 0x8000000000000000ULL};
                uint64_t len = vrng_chance(&R, 1, 2) ? (uint64_t)0 - (1 + vrng_below(&R, 64)) : HL[vrng_below(&R, 8)] + vrng_below(&R, 3) - 1; size_t fill = vrng_below(&R, 24); n = sn + 12 + fill; in = v_exact(n); size_t k = sn ? sn - 1 : 0; memcpy(in, sd, k);
                in[k++] = g == 9 ? 0x18 : 0x19; if (g == 10) in[k++] = 0xF8; /* list: size in a varint that follows, element type binary */ while (len >= 0x80) { in[k++] = (uint8_t)(len | 0x80); len >>= 7; } in[k++] = (uint8_t)len; vrng_bytes(&R, in + k, fill); k += fill; in[k++] = 0x00; while (k < n) in[k++] = 0x00; v_count("hostile_length_varint_inputs"); }
            else { in = v_exact(n); if (g >= 5) { gen_nest(in, n, g == 5 ? 8u : g == 6 ? 4u : g == 7 ? 10u : (unsigned)vrng_below(&R, 16)); v_count("mixed_container_nesting_inputs"); } else for (size_t k = 0; k < n; k++) in[k] = g == 0 ? 0x1C : g == 1 ? 0x19 : g == 2 ? 0xF9 : g == 3 ? 0x2C : (uint8_t)(0x10 | (k & 0xF)); if (g == 2 && n > 6) { in[0] = 0x19; in[1] = 0xFC; in[2] = 0xFF; in[3] = 0xFF; in[4] = 0xFF; in[5] = 0x0F; } } }
        v_case(v_hash(in, n, (uint64_t)which));
        carquet_error_t err = CARQUET_ERROR_INIT;
        if (which) { parquet_page_header_t h; size_t used = 0; carquet_status_t st = parquet_parse_page_header(in, n, &h, &used, &err); if (st == CARQUET_OK && used > n) over("reported-size-exceeds-input", "bytes_read=%zu input=%zu", used, n); if (st == CARQUET_OK) v_count("ok_returns"); else v_count("error_returns"); }
        else { carquet_arena_t a; if (carquet_arena_init(&a) == CARQUET_OK) { parquet_file_metadata_t m; memset(&m, 0, sizeof m); carquet_status_t st = parquet_parse_file_metadata(in, n, &a, &m, &err);
                if (st == CARQUET_OK) { v_count("ok_returns"); /* everything the parser handed out must be readable */ uint64_t acc = 0; for (int s = 0; s < m.num_schema_elements; s++) if (m.schema[s].name) acc += strlen(m.schema[s].name); for (int g = 0; g < m.num_row_groups; g++) for (int c = 0; c < m.row_groups[g].num_columns; c++) { const parquet_column_metadata_t* md = &m.row_groups[g].columns[c].metadata; for (int e = 0; e < md->num_encodings; e++) acc += (uint64_t)md->encodings[e]; for (int q = 0; q < md->path_len; q++) if (md->path_in_schema[q]) acc += strlen(md->path_in_schema[q]); if (md->has_statistics) { for (int q = 0; q < md->statistics.min_value_len; q++) acc += md->statistics.min_value ? md->statistics.min_value[q] : 0; for (int q = 0; q < md->statistics.max_value_len; q++) acc += md->statistics.max_value ? md->statistics.max_value[q] : 0; } } (void)acc; } else v_count("error_returns");
                carquet_arena_destroy(&a); } }
        free(in); leak_check(i); }
    carquet_buffer_destroy(&fm); carquet_buffer_destroy(&ph);
}

static void fam_rle(int64_t iters) {
    for (int64_t i = 0; i < iters; i++) { iter_begin(); int w = rnd_width(); int64_t count = rnd_count(); size_t n; uint8_t* in; int src = (int)(i % 3);
        if (src == 0) { int vw = w > 32 ? 32 : w; int64_t nv = 1 + (int64_t)vrng_below(&R, 200); uint32_t* v = v_exact((size_t)nv * 4); uint32_t top = vw >= 32 ? 0xFFFFFFFFu : ((1u << vw) - 1); for (int64_t k = 0; k < nv; k++) v[k] = vrng_chance(&R, 1, 3) && k ? v[k - 1] : ((uint32_t)vrng_u64(&R) & top); carquet_buffer_t b; carquet_buffer_init(&b); (void)carquet_rle_encode_all(v, nv, vw, &b); in = mutate(b.data, b.size, &n); if (vrng_chance(&R, 1, 2)) w = vw; carquet_buffer_destroy(&b); free(v); }
        else if (src == 1) in = random_bytes(&n);
        else if (i % 6000 == 2) { /* millions of empty runs: the decoder must step over them without a stack frame per run */ n = 3000000 + vrng_below(&R, 2000000); in = v_exact(n); memset(in, vrng_chance(&R, 1, 2) ? 0x00 : 0x01, n); if (vrng_chance(&R, 1, 2)) w = (int)vrng_below(&R, 9); if (count == 0) count = 8; v_count("long_sequences_of_empty_runs"); }
        else { /* grammar: hostile run headers */ n = 1 + vrng_below(&R, 40); in = v_exact(n); vrng_bytes(&R, in, n); int g = (int)vrng_below(&R, 4); if (g == 0) { for (size_t k = 0; k < n && k < 5; k++) in[k] = 0xFF; } else if (g == 1) { in[0] = 0xFE; if (n > 4) { in[1] = 0xFF; in[2] = 0xFF; in[3] = 0xFF; in[4] = 0x0F; } } else if (g == 2) { in[0] = (uint8_t)((vrng_below(&R, 60) << 1) | 1); } else in[0] = 0; }
        int api = (int)vrng_below(&R, 4); v_case(v_hash(in, n, (uint64_t)w * 7 + (uint64_t)api + (uint64_t)count * 131));
        if (api == 0) { CUR = "rle_decode_all"; uint32_t* out = v_exact((size_t)count * 4); int64_t got = carquet_rle_decode_all(in, n, w, out, count); if (got > count) over("reported-count-exceeds-capacity", "w=%d count=%lld got=%lld", w, (long long)count, (long long)got); free(out); }
        else if (api == 1) { CUR = "rle_decode_levels"; int16_t* out = v_exact((size_t)count * 2); int64_t got = carquet_rle_decode_levels(in, n, w, out, count); if (got > count) over("reported-count-exceeds-capacity", "w=%d count=%lld got=%lld", w, (long long)count, (long long)got); free(out); }
        else if (api == 2) { CUR = "rle_decode_levels_prefixed"; int16_t* out = v_exact((size_t)count * 2); size_t used = 0; int64_t got = carquet_rle_decode_levels_prefixed(in, n, w, out, count, &used); if (got > count) over("reported-count-exceeds-capacity", "w=%d count=%lld got=%lld", w, (long long)count, (long long)got); if (got >= 0 && used > n) over("reported-size-exceeds-input", "used=%zu n=%zu", used, n); free(out); }
        else { CUR = "rle_decoder_stream"; carquet_rle_decoder_t d; carquet_rle_decoder_init(&d, in, n, w); int64_t budget = 5000; while (budget > 0 && carquet_rle_decoder_has_next(&d)) { int op = (int)vrng_below(&R, 3); int64_t k = (int64_t)vrng_below(&R, 40); if (op == 0) { (void)carquet_rle_decoder_get(&d); budget--; } else if (op == 1) { uint32_t* o = v_exact((size_t)k * 4); int64_t g2 = carquet_rle_decoder_get_batch(&d, o, k); if (g2 > k) over("reported-count-exceeds-capacity", "stream get_batch k=%lld got=%lld", (long long)k, (long long)g2); free(o); budget -= k + 1; if (g2 == 0 && k > 0) break; } else { int64_t s2 = carquet_rle_decoder_skip(&d, k); budget -= k + 1; if (s2 == 0 && k > 0) break; } } }
        free(in); leak_check(i); }
}

static void fam_bitpack(int64_t iters) { CUR = "bitunpack_32";
    for (int64_t i = 0; i < iters; i++) { iter_begin(); int w = (int)vrng_below(&R, 33); size_t count = (size_t)vrng_below(&R, 70); size_t n = carquet_packed_size(count, w); uint8_t* in = v_exact(n); vrng_bytes(&R, in, n); uint32_t* out = v_exact(count * 4);
        v_case(v_hash(in, n, (uint64_t)w * 100 + count)); size_t used = carquet_bitunpack_32(in, count, w, out); if (used > n) over("reported-size-exceeds-input", "w=%d count=%zu used=%zu n=%zu", w, count, used, n); free(out); free(in); if (count % 8) v_count("bitunpack_counts_not_multiple_of_8"); }
}

static void fam_plain(int64_t iters) {
    for (int64_t i = 0; i < iters; i++) { iter_begin(); int type = (int)vrng_below(&R, 8); int32_t tl = type == 7 ? (vrng_chance(&R, 1, 10) ? (int32_t)vrng_u64(&R) : 1 + (int32_t)vrng_below(&R, 40)) : 0; int64_t count = rnd_count(); if (count > 5000) count = 5000; size_t n; uint8_t* in;
        if (i % 2) in = random_bytes(&n); else { /* valid-ish: sized for the count, then mutated */ size_t es = type == 0 ? 1 : type == 1 || type == 4 ? 4 : type == 3 ? 12 : type == 7 ? (tl > 0 && tl < 64 ? (size_t)tl : 4) : 8; size_t sz = type == 0 ? (size_t)(count + 7) / 8 : (size_t)count * es; uint8_t* s = v_exact(sz); vrng_bytes(&R, s, sz); if (type == 6) for (size_t k = 0; k + 4 <= sz; k += 4 + (s[k] & 7)) { s[k] &= 7; s[k + 1] = s[k + 2] = s[k + 3] = 0; } in = mutate(s, sz, &n); free(s); }
        size_t oes = type == 0 ? 1 : type == 1 || type == 4 ? 4 : type == 3 ? 12 : type == 6 ? sizeof(carquet_byte_array_t) : type == 7 ? (tl > 0 && tl <= 4096 ? (size_t)tl : 0) : 8; CUR = "decode_plain"; v_case(v_hash(in, n, (uint64_t)type * 1000 + (uint64_t)count));
        if (type == 7 && oes == 0) { /* no caller buffer can exist for this type_length: the call must still be safe with a NULL-sized request */ uint8_t* out = v_exact(1); int64_t used = carquet_decode_plain(in, n, (carquet_physical_type_t)type, tl, out, 0); (void)used; free(out); }
        else { void* out = v_exact((size_t)count * oes); int64_t used = carquet_decode_plain(in, n, (carquet_physical_type_t)type, tl, out, count); if (used > (int64_t)n) over("reported-size-exceeds-input", "type=%d count=%lld used=%lld n=%zu", type, (long long)count, (long long)used, n);
            if (used >= 0 && type == 6) { const carquet_byte_array_t* a = out; uint64_t acc = 0; for (int64_t k = 0; k < count; k++) for (int32_t j = 0; j < a[k].length; j++) acc += a[k].data[j]; (void)acc; } free(out); }
        free(in); leak_check(i); }
}

static void fam_delta(int64_t iters) {
    for (int64_t i = 0; i < iters; i++) { iter_begin(); int is64 = (int)vrng_below(&R, 2); int32_t count = (int32_t)rnd_count(); if (count > 20000) count = 20000; size_t n; uint8_t* in; int src = (int)(i % 3);
        if (src == 0) { int32_t nv = 1 + (int32_t)vrng_below(&R, 300); size_t cap = (size_t)nv * 12 + 2000; uint8_t* e = v_exact(cap); size_t w = 0; if (is64) { int64_t* v = v_exact((size_t)nv * 8); for (int k = 0; k < nv; k++) v[k] = vrng_chance(&R, 1, 2) ? (int64_t)vrng_u64(&R) : k; (void)carquet_delta_encode_int64(v, nv, e, cap, &w); free(v); } else { int32_t* v = v_exact((size_t)nv * 4); for (int k = 0; k < nv; k++) v[k] = vrng_chance(&R, 1, 2) ? (int32_t)vrng_u64(&R) : k * 3; (void)carquet_delta_encode_int32(v, nv, e, cap, &w); free(v); } in = mutate(e, w, &n); free(e); if (vrng_chance(&R, 1, 2)) count = nv; }
        else if (src == 1) in = random_bytes(&n);
        else { /* grammar: header fields with hostile values */ n = 4 + vrng_below(&R, 60); in = v_exact(n); vrng_bytes(&R, in, n); int g = (int)vrng_below(&R, 5); size_t p = 0; static const uint8_t bs128[] = {0x80, 0x01}; if (g < 4 && n > 8) { memcpy(in, bs128, 2); p = 2; in[p++] = (uint8_t)(g == 0 ? 4 : g == 1 ? 0 : g == 2 ? 0x7F : 1); in[p++] = (uint8_t)(g == 3 ? 0xFF : 10); } if (n > 12) { in[8] = (uint8_t)(vrng_chance(&R, 1, 2) ? 255 : 64); in[9] = 65; } }
        CUR = is64 ? "delta_decode_int64" : "delta_decode_int32"; v_case(v_hash(in, n, (uint64_t)count * 2 + (uint64_t)is64)); size_t used = 0; carquet_status_t st;
        if (is64) { int64_t* out = v_exact((size_t)count * 8); st = carquet_delta_decode_int64(in, n, out, count, &used); free(out); } else { int32_t* out = v_exact((size_t)count * 4); st = carquet_delta_decode_int32(in, n, out, count, &used); free(out); }
        if (st == CARQUET_OK && used > n) over("reported-size-exceeds-input", "count=%d used=%zu n=%zu", count, used, n); if (st == CARQUET_OK) v_count("ok_returns"); else v_count("error_returns");
        free(in); leak_check(i); }
}

static void fam_dstr(int64_t iters) {
    for (int64_t i = 0; i < iters; i++) { iter_begin(); int which = (int)vrng_below(&R, 2); int32_t count = (int32_t)rnd_count(); if (count > 5000) count = 5000; size_t n; uint8_t* in; size_t work_n = vrng_chance(&R, 1, 4) ? vrng_below(&R, 64) : 4096;
        if (i % 2 == 0) { int32_t nv = 1 + (int32_t)vrng_below(&R, 60); carquet_byte_array_t* a = v_exact((size_t)nv * sizeof *a); size_t tot = 0; for (int k = 0; k < nv; k++) { a[k].length = (int32_t)vrng_below(&R, 12); a[k].data = v_exact((size_t)a[k].length); for (int j = 0; j < a[k].length; j++) a[k].data[j] = (uint8_t)('a' + vrng_below(&R, 3)); tot += (size_t)a[k].length; } carquet_buffer_t b; carquet_buffer_init(&b); if (which) (void)carquet_delta_strings_encode(a, nv, &b); else (void)carquet_delta_length_encode(a, nv, &b); in = mutate(b.data, b.size, &n); if (vrng_chance(&R, 1, 2)) { count = nv; work_n = tot; } carquet_buffer_destroy(&b); for (int k = 0; k < nv; k++) free(a[k].data); free(a); }
        else if (i % 8 == 3) { /* grammar: individually legal lengths whose sum wraps 32 bits to a small number, followed by just that many data bytes */
            static const int32_t FAM[4][5] = {{0x60000000, 0x60000000, 0x40000000, 0, 0}, {0x7FFFFFFF, 0x7FFFFFFF, 2, 0, 0}, {0x40000000, 0x40000000, 0x40000000, 0x40000000, 0}, {0x7FFFFFF0, 0x7FFFFFF0, 0x10, 0x10, 0}}; int f = (int)vrng_below(&R, 4); int32_t lens[5]; int nl = f == 2 ? 5 : f == 3 ? 5 : 4; int r = (int)vrng_below(&R, 40); for (int q = 0; q < 5; q++) lens[q] = FAM[f][q]; lens[nl - 1] += r;
            uint8_t tmp[256]; size_t w1 = 0, w0 = 0; uint8_t tmp0[64]; int32_t zeros[5] = {0, 0, 0, 0, 0}; carquet_status_t e1 = carquet_delta_encode_int32(lens, nl, tmp, sizeof tmp, &w1); carquet_status_t e0 = carquet_delta_encode_int32(zeros, nl, tmp0, sizeof tmp0, &w0); size_t extra = (size_t)r + vrng_below(&R, 8);
            if (e1 != CARQUET_OK || e0 != CARQUET_OK) { in = random_bytes(&n); } else { n = (which ? w0 : 0) + w1 + extra; in = v_exact(n); size_t k2 = 0; if (which) { memcpy(in, tmp0, w0); k2 = w0; } memcpy(in + k2, tmp, w1); vrng_bytes(&R, in + k2 + w1, extra); count = nl; work_n = 4096; v_count("length_sums_wrapping_32_bits"); } }
        else in = random_bytes(&n);
        CUR = which ? "delta_strings_decode" : "delta_length_decode"; v_case(v_hash(in, n, (uint64_t)count * 2 + (uint64_t)which)); carquet_byte_array_t* out = v_exact((size_t)count * sizeof *out); uint8_t* work = v_exact(work_n); size_t used = 0;
        carquet_status_t st = which ? carquet_delta_strings_decode(in, n, out, count, work, work_n, &used) : carquet_delta_length_decode(in, n, out, count, &used);
        if (st == CARQUET_OK) { v_count("ok_returns"); if (used > n) over("reported-size-exceeds-input", "count=%d used=%zu n=%zu", count, used, n); uint64_t acc = 0; for (int32_t k = 0; k < count; k++) { if (out[k].length < 0) { over("negative-length-returned", "k=%d", k); break; } { const uint8_t* lo = which ? work : in; size_t span = which ? work_n : n; if (out[k].length > 0 && (out[k].data < lo || (size_t)out[k].length > span || (size_t)(out[k].data - lo) > span - (size_t)out[k].length) && !(which && out[k].data >= in && (size_t)(out[k].data - in) + (size_t)out[k].length <= n)) { over("value-outside-input-and-work-buffer", "k=%d length=%d", k, out[k].length); break; } }
            if (out[k].length > 4096) { acc += out[k].data[0]; acc += out[k].data[out[k].length / 2]; acc += out[k].data[out[k].length - 1]; /* a value that large cannot lie inside the input: its ends are enough to show it */ } else for (int32_t j = 0; j < out[k].length; j++) acc += out[k].data[j]; } (void)acc; } else v_count("error_returns");
        free(work); free(out); free(in); leak_check(i); }
}

static void fam_bss(int64_t iters) {
    for (int64_t i = 0; i < iters; i++) { iter_begin(); int which = (int)vrng_below(&R, 3); int64_t count = rnd_count(); if (count > 3000) count = 3000; int32_t tl = which == 2 ? (vrng_chance(&R, 1, 8) ? (int32_t)vrng_u64(&R) : 1 + (int32_t)vrng_below(&R, 40)) : 0; size_t w = which == 0 ? 4 : which == 1 ? 8 : (tl > 0 && tl <= 64 ? (size_t)tl : 1);
        size_t n = vrng_chance(&R, 1, 2) ? (size_t)count * w : vrng_below(&R, (uint64_t)count * w + 9); uint8_t* in = v_exact(n); vrng_bytes(&R, in, n); uint8_t* out = v_exact((size_t)count * w); CUR = which == 0 ? "bss_decode_float" : which == 1 ? "bss_decode_double" : "bss_decode"; v_case(v_hash(in, n < 64 ? n : 64, (uint64_t)count * 3 + (uint64_t)which + (uint64_t)n * 7919));
        carquet_status_t st = which == 0 ? carquet_byte_stream_split_decode_float(in, n, (float*)out, count) : which == 1 ? carquet_byte_stream_split_decode_double(in, n, (double*)out, count) : ((tl > 0 && tl <= 64) || tl <= 0 ? carquet_byte_stream_split_decode(in, n, tl, out, count) : CARQUET_ERROR_DECODE);
        if (st == CARQUET_OK) v_count("ok_returns"); else v_count("error_returns"); free(out); free(in); }
}

static void fam_dict(int64_t iters) {
    for (int64_t i = 0; i < iters; i++) { iter_begin(); int type = (int)vrng_below(&R, 4); size_t vs = type == 0 || type == 2 ? 4 : 8; int32_t dict_count = vrng_chance(&R, 1, 10) ? (int32_t)vrng_u64(&R) : (int32_t)vrng_below(&R, 40); size_t dn = vrng_chance(&R, 1, 3) ? vrng_below(&R, 200) : (dict_count > 0 && dict_count < 1000 ? (size_t)dict_count * vs : 16); uint8_t* dict = v_exact(dn); vrng_bytes(&R, dict, dn);
        int64_t count = rnd_count(); if (count > 5000) count = 5000; size_t n; uint8_t* in;
        if (i % 3 == 0) { int32_t nv = 1 + (int32_t)vrng_below(&R, 100); int32_t* v = v_exact((size_t)nv * 4); for (int k = 0; k < nv; k++) v[k] = (int32_t)vrng_below(&R, 9); carquet_buffer_t d, x; carquet_buffer_init(&d); carquet_buffer_init(&x); (void)carquet_dictionary_encode_int32(v, nv, &d, &x); in = mutate(x.data, x.size, &n); carquet_buffer_destroy(&d); carquet_buffer_destroy(&x); free(v); }
        else if (i % 3 == 1) { /* grammar: width byte 32 with indices near 2^31..2^32 */ n = 1 + 5 + 4 * 8; in = v_exact(n); in[0] = 32; in[1] = (uint8_t)((1 << 1) | 1); for (size_t k = 2; k < n; k++) in[k] = (uint8_t)vrng_u64(&R); for (size_t k = 5; k < n; k += 4) in[k] |= 0x80; if (vrng_chance(&R, 1, 2)) { in[1] = (uint8_t)(8 << 1); } }
        else in = random_bytes(&n);
        CUR = type == 0 ? "dictionary_decode_int32" : type == 1 ? "dictionary_decode_int64" : type == 2 ? "dictionary_decode_float" : "dictionary_decode_double"; v_case(v_hash(in, n, (uint64_t)type + (uint64_t)dict_count * 4 + (uint64_t)count * 1000003)); void* out = v_exact((size_t)count * vs);
        carquet_status_t st = type == 0 ? carquet_dictionary_decode_int32(dict, dn, dict_count, in, n, out, count) : type == 1 ? carquet_dictionary_decode_int64(dict, dn, dict_count, in, n, out, count) : type == 2 ? carquet_dictionary_decode_float(dict, dn, dict_count, in, n, out, count) : carquet_dictionary_decode_double(dict, dn, dict_count, in, n, out, count);
        if (st == CARQUET_OK) v_count("ok_returns"); else v_count("error_returns"); free(out); free(in); free(dict); leak_check(i); }
}

static void fam_codec(int codec, int64_t iters) {
    static const char* nm[] = {"snappy_decompress", "lz4_decompress", "gzip_decompress", "zstd_decompress"}; CUR = nm[codec];
    for (int64_t i = 0; i < iters; i++) { iter_begin(); size_t n; uint8_t* in; size_t cap; int src = (int)(i % 3);
        if (src == 0) { size_t sn = vrng_below(&R, 3000); uint8_t* s = v_exact(sn); for (size_t k = 0; k < sn; k++) s[k] = vrng_chance(&R, 1, 3) ? (uint8_t)vrng_u64(&R) : (uint8_t)('a' + (k % 7)); size_t bound = codec == 0 ? carquet_snappy_compress_bound(sn) : codec == 1 ? carquet_lz4_compress_bound(sn) : codec == 2 ? carquet_gzip_compress_bound(sn) : carquet_zstd_compress_bound(sn); uint8_t* c = v_exact(bound); size_t cn = 0;
            int st = codec == 0 ? carquet_snappy_compress(s, sn, c, bound, &cn) : codec == 1 ? carquet_lz4_compress(s, sn, c, bound, &cn) : codec == 2 ? carquet_gzip_compress(s, sn, c, bound, &cn, 6) : carquet_zstd_compress(s, sn, c, bound, &cn, 3); if (st != 0) cn = 0; in = mutate(c, cn, &n); cap = vrng_chance(&R, 1, 2) ? sn : vrng_below(&R, sn + 20); free(c); free(s); }
        else if (src == 1) { in = random_bytes(&n); cap = vrng_below(&R, 5000); }
        else { /* grammar: hostile lengths / offsets */ n = 2 + vrng_below(&R, 40); in = v_exact(n); vrng_bytes(&R, in, n); cap = vrng_below(&R, 300); if (codec == 0) { int g = (int)vrng_below(&R, 4); in[0] = (uint8_t)(cap & 0x7F); if (g == 0) in[1] = 0x01; else if (g == 1) { in[1] = 0xFC; } else if (g == 2) in[n - 1] = 0x01; else { in[0] = 0xFF; in[1] = 0xFF; } } else if (codec == 1) { int g = (int)vrng_below(&R, 3); if (g == 0) in[0] = 0xFF; else if (g == 1) { in[0] = 0x1F; if (n > 3) { in[2] = 0; in[3] = 0; } } else in[0] = 0xF0; } }
        uint8_t* out = v_exact(cap); size_t got = (size_t)-1; v_case(v_hash(in, n, (uint64_t)cap * 5 + (uint64_t)codec));
        int st = codec == 0 ? carquet_snappy_decompress(in, n, out, cap, &got) : codec == 1 ? carquet_lz4_decompress(in, n, out, cap, &got) : codec == 2 ? carquet_gzip_decompress(in, n, out, cap, &got) : carquet_zstd_decompress(in, n, out, cap, &got);
        if (st == 0) { v_count("ok_returns"); if (got > cap) over("reported-size-exceeds-capacity", "cap=%zu got=%zu", cap, got); } else v_count("error_returns");
        free(out); free(in); leak_check(i); }
}

static const char* FAMS[12] = {"thrift", "rle", "bitpack", "plain", "delta", "dstr", "bss", "dict", "snappy", "lz4", "gzip", "zstd"};
static void run_family(int id, int64_t it) { CUR_FAMID = id; FAM = FAMS[id]; switch (id) { case 0: fam_thrift(it); break; case 1: fam_rle(it); break; case 2: fam_bitpack(it); break; case 3: fam_plain(it); break; case 4: fam_delta(it); break; case 5: fam_dstr(it); break; case 6: fam_bss(it); break; case 7: fam_dict(it); break; default: fam_codec(id - 8, it); } }
int main(int argc, char** argv) {
    if (argc >= 3 && !strcmp(argv[1], "seeds")) { (void)carquet_init(); SEED_DIR = argv[2]; for (int id = 0; id < 12; id++) { SEEDS_DUMPED = 0; run_family(id, 240); } return 0; }
    if (argc < 4) return 2; FAM = argv[1]; uint64_t seed = strtoull(argv[2], 0, 10); int scale = atoi(argv[3]); vrng_seed(&R, seed * 48271 + v_hash(FAM, strlen(FAM), 3)); (void)carquet_init();
    int64_t it = scale >= 3 ? 6000000 : scale >= 2 ? 1500000 : 60000;
    if (!strcmp(FAM, "thrift")) fam_thrift(it / 2); else if (!strcmp(FAM, "rle")) fam_rle(it); else if (!strcmp(FAM, "bitpack")) fam_bitpack(it); else if (!strcmp(FAM, "plain")) fam_plain(it); else if (!strcmp(FAM, "delta")) fam_delta(it);
    else if (!strcmp(FAM, "dstr")) fam_dstr(it / 2); else if (!strcmp(FAM, "bss")) fam_bss(it / 2); else if (!strcmp(FAM, "dict")) fam_dict(it); else if (!strcmp(FAM, "snappy")) fam_codec(0, it); else if (!strcmp(FAM, "lz4")) fam_codec(1, it); else if (!strcmp(FAM, "gzip")) fam_codec(2, it / 4); else if (!strcmp(FAM, "zstd")) fam_codec(3, it / 4); else return 2;
    if (__lsan_do_recoverable_leak_check()) over("leak-after-failure", "leak check at end of family %s", FAM);
    v_sample("c08 %s: inputs in equal parts from mutated valid encodings, hostile grammar-built streams and raw random bytes; bit widths 0..255, counts {0,1,7,8,9,...,1000, up to 2e5}, every input and output in an exact-size heap block", FAM);
    v_finish(); return 0;
}
