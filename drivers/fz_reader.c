/* libFuzzer target for C04 (thorough tier and a short stage of the quick tier): coverage-guided generation of hostile files.
 * It only GENERATES inputs: every corpus entry and artifact it leaves behind is replayed through the ordinary c04 list driver
 * (gcc ASan/UBSan/LSan, three open paths), which is what decides. Built with clang -fsanitize=fuzzer,address,undefined from
 * /repo's working tree, without OpenMP (single-threaded target). The API program run on an opened file is the same function of
 * (seed, content) as in c04.c. */
#define FZ_MODE 1
#define main c04_list_main
#include "c04.c"
#undef main

int LLVMFuzzerTestOneInput(const uint8_t* data, size_t size) {
    static int init = 0; static uint64_t seed = 1; if (!init) { (void)carquet_init(); const char* s = getenv("FZ_SEED"); if (s) seed = strtoull(s, 0, 10); init = 1; }
    if (size < 12 || size > (1u << 20)) return 0;
    uint8_t* fb = malloc(size); if (!fb) return 0; memcpy(fb, data, size);      /* exact-size heap copy: ASan sees any read past the end */
    vrng_seed(&R, seed * 31 + v_hash(fb, size, 7));
    carquet_error_t err; memset(&err, 0, sizeof err); carquet_reader_options_t ro; carquet_reader_options_init(&ro); ro.verify_checksums = (data[size / 2] & 1) != 0;
    carquet_reader_t* rd = carquet_reader_open_buffer(fb, size, &ro, &err);
    if (rd) { exercise(rd, "buffer"); carquet_reader_close(rd); }
    free(fb); return 0;
}
