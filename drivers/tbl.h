/* Table model, generator (G_table), writer through the public carquet API, TDMP dump format,
 * and whole-chunk read-back comparator. Shared by the file-level drivers. */
#ifndef TBL_H
#define TBL_H
#include "vdrv.h"
#include <carquet/carquet.h>

typedef struct {
    int64_t nlevels;        /* rows for flat columns; level entries for nested ones */
    int16_t* def;           /* nlevels entries (always materialised; all == max_def for REQUIRED) */
    int16_t* rep;           /* nlevels entries (zeros for flat) */
    int64_t nvals;          /* entries with def == max_def */
    uint8_t* fixed;         /* dense values, elem_size bytes each (BOOLEAN: 1 byte 0/1) */
    uint32_t* ba_len;       /* BYTE_ARRAY: lengths */
    uint8_t** ba_ptr;       /* BYTE_ARRAY: pointers into ba_heap */
    uint8_t* ba_heap; size_t ba_heap_n;
    /* write history (carquet-written tables only) */
    int nbatches; int64_t* batch_rows; int null_def_levels;   /* OPTIONAL column written with def_levels == NULL */
} tchunk_t;
typedef struct { char name[64]; int type; int32_t type_length; int rep; int16_t max_def, max_rep; } tcol_t;
typedef struct {
    int ncols, nrg; tcol_t* cols; tchunk_t** rg;   /* rg[g][c] */
    int64_t* rg_rows;
    int codec; int64_t page_size; int page_size_default;
} table_t;

static inline size_t t_elem_size(const tcol_t* c) {
    switch (c->type) {
    case CARQUET_PHYSICAL_BOOLEAN: return 1; case CARQUET_PHYSICAL_INT32: case CARQUET_PHYSICAL_FLOAT: return 4;
    case CARQUET_PHYSICAL_INT64: case CARQUET_PHYSICAL_DOUBLE: return 8; case CARQUET_PHYSICAL_INT96: return 12;
    case CARQUET_PHYSICAL_FIXED_LEN_BYTE_ARRAY: return (size_t)c->type_length; default: return 0; }
}
static inline size_t t_api_elem_size(const tcol_t* c) { return c->type == CARQUET_PHYSICAL_BYTE_ARRAY ? sizeof(carquet_byte_array_t) : t_elem_size(c); }

static void tbl_free(table_t* t) {
    if (!t) return;
    for (int g = 0; g < t->nrg; g++) { for (int c = 0; c < t->ncols; c++) { tchunk_t* k = &t->rg[g][c]; free(k->def); free(k->rep); free(k->fixed); free(k->ba_len); free(k->ba_ptr); free(k->ba_heap); free(k->batch_rows); } free(t->rg[g]); }
    free(t->rg); free(t->rg_rows); free(t->cols); free(t);
}

/* ---- value strategies ------------------------------------------------------------------- */
static void t_fill_fixed(vrng_t* r, const tcol_t* c, uint8_t* out, int64_t n, int law) {
    size_t es = t_elem_size(c);
    for (int64_t i = 0; i < n; i++) { uint8_t* p = out + (size_t)i * es;
        switch (c->type) {
        case CARQUET_PHYSICAL_BOOLEAN: p[0] = law == 1 ? 1 : law == 2 ? (uint8_t)(i & 1) : law == 3 ? (uint8_t)((i / 5) & 1) : (uint8_t)(vrng_u64(r) & 1); break;
        case CARQUET_PHYSICAL_INT32: { int32_t x = law == 1 ? (i & 1 ? INT32_MIN : INT32_MAX) : law == 2 ? (int32_t)i : law == 3 ? 7 : (int32_t)vrng_u64(r); memcpy(p, &x, 4); break; }
        case CARQUET_PHYSICAL_INT64: { int64_t x = law == 1 ? (i & 1 ? INT64_MIN : INT64_MAX) : law == 2 ? (int64_t)i * 1000003 : law == 3 ? -1 : (int64_t)vrng_u64(r); memcpy(p, &x, 8); break; }
        case CARQUET_PHYSICAL_FLOAT: { uint32_t u = law == 1 ? (i % 4 == 0 ? 0x7FC00001u : i % 4 == 1 ? 0x80000000u : i % 4 == 2 ? 0xFF800000u : 0x00000001u) : law == 2 ? 0 : (uint32_t)vrng_u64(r); if (law == 2) { float f = (float)i * 0.5f; memcpy(&u, &f, 4); } if (law == 3) { float f = 1.5f; memcpy(&u, &f, 4); } memcpy(p, &u, 4); break; }
        case CARQUET_PHYSICAL_DOUBLE: { uint64_t u = law == 1 ? (i % 4 == 0 ? 0x7FF8000000000001ULL : i % 4 == 1 ? 0x8000000000000000ULL : i % 4 == 2 ? 0x7FF0000000000000ULL : 1ULL) : vrng_u64(r); if (law == 2) { double f = (double)i * 0.25; memcpy(&u, &f, 8); } if (law == 3) { double f = -2.5; memcpy(&u, &f, 8); } memcpy(p, &u, 8); break; }
        default: vrng_bytes(r, p, es); if (law == 3) memset(p, 'x', es); if (law == 2) for (size_t k = 0; k < es; k++) p[k] = (uint8_t)(i + (int64_t)k); break;
        } }
}
static void t_fill_ba(vrng_t* r, tchunk_t* k, int64_t n, int law) {
    static const char* special[] = {"", "a", "PAR1", "\x00\x01\x00\x00\x00PAR1", "hello world", "\xff\xfe\xfd"};
    static const size_t special_len[] = {0, 1, 4, 9, 11, 3};
    k->ba_len = (uint32_t*)v_exact((size_t)n * 4 + 4); k->ba_ptr = (uint8_t**)v_exact((size_t)n * sizeof(uint8_t*) + 8); size_t tot = 0;
    for (int64_t i = 0; i < n; i++) { uint32_t L; if (law == 1) L = 0; else if (law == 2) L = (uint32_t)vrng_below(r, 6) < 3 ? (uint32_t)special_len[vrng_below(r, 6)] : (uint32_t)vrng_below(r, 12); else if (law == 3) L = (uint32_t)vrng_below(r, 2000); else L = (uint32_t)vrng_below(r, 24);
        k->ba_len[i] = L; tot += L; }
    k->ba_heap = (uint8_t*)v_exact(tot + 1); k->ba_heap_n = tot; size_t o = 0;
    for (int64_t i = 0; i < n; i++) { uint32_t L = k->ba_len[i]; k->ba_ptr[i] = k->ba_heap + o; vrng_bytes(r, k->ba_heap + o, L);
        if (law == 2) for (int s = 0; s < 6; s++) if (special_len[s] == L && L) { memcpy(k->ba_heap + o, special[s], L); break; }
        o += L; }
}

/* ---- generator ----------------------------------------------------------------------------- */
typedef struct { int max_cols; int64_t max_rows; int allow_big; int force_type; int force_rep; int force_codec; int64_t force_page; int force_nrg; int force_cols; } tgen_t;
static const int T_TYPES[] = {CARQUET_PHYSICAL_BOOLEAN, CARQUET_PHYSICAL_INT32, CARQUET_PHYSICAL_INT64, CARQUET_PHYSICAL_FLOAT, CARQUET_PHYSICAL_DOUBLE, CARQUET_PHYSICAL_BYTE_ARRAY, CARQUET_PHYSICAL_FIXED_LEN_BYTE_ARRAY};
static const int T_CODECS[] = {CARQUET_COMPRESSION_UNCOMPRESSED, CARQUET_COMPRESSION_SNAPPY, CARQUET_COMPRESSION_GZIP, CARQUET_COMPRESSION_LZ4, CARQUET_COMPRESSION_ZSTD};

static void t_gen_nulls(vrng_t* r, int16_t* def, int64_t n, int pat) {
    for (int64_t i = 0; i < n; i++) def[i] = 1;
    switch (pat) {
    case 0: break;                                                   /* no nulls */
    case 1: for (int64_t i = 0; i < n; i++) def[i] = 0; break;       /* all null */
    case 2: for (int64_t i = 0; i < n; i++) def[i] = (int16_t)(i & 1); break;
    case 3: { int64_t i = 0; int v = (int)vrng_below(r, 2); while (i < n) { int64_t run = 1 + (int64_t)vrng_below(r, 20); for (int64_t k = 0; k < run && i < n; k++) def[i++] = (int16_t)v; v ^= 1; } break; }   /* runs 1..20 around 8 */
    case 4: { int64_t lead = (int64_t)vrng_below(r, 8); for (int64_t i = 0; i < n; i++) def[i] = (int16_t)(i < lead ? (i & 1) : 1); break; }            /* partial group then long run */
    default: { int p = 1 + (int)vrng_below(r, 9); for (int64_t i = 0; i < n; i++) def[i] = (int16_t)(vrng_below(r, 10) < (uint64_t)p); break; }
    }
}
static void t_gen_batches(vrng_t* r, tchunk_t* k, int64_t rows, int mode) {
    int64_t cap = rows + 8; k->batch_rows = (int64_t*)v_exact((size_t)cap * 8 + 64); k->nbatches = 0; int64_t left = rows;
    if (mode == 0 || rows == 0) { k->batch_rows[k->nbatches++] = rows; return; }
    while (left > 0 && k->nbatches < cap - 2) { int64_t b;
        if (mode == 1) b = 1; else if (mode == 2) b = 1 + (int64_t)vrng_below(r, 12); else if (mode == 3) b = (int64_t)vrng_below(r, 4) == 0 ? 0 : 1 + (int64_t)vrng_below(r, (uint64_t)(rows / 2 + 1)); else b = (left + 1) / 2;
        if (mode == 1 && rows > 200) b = 1 + (int64_t)vrng_below(r, 3);
        if (b > left) b = left; k->batch_rows[k->nbatches++] = b; left -= b; }
    if (left > 0) k->batch_rows[k->nbatches++] = left;
}
static table_t* tbl_generate(vrng_t* r, const tgen_t* gp) {
    table_t* t = (table_t*)calloc(1, sizeof *t);
    t->ncols = gp->force_cols > 0 ? gp->force_cols : 1 + (int)vrng_below(r, (uint64_t)gp->max_cols);
    t->cols = (tcol_t*)calloc((size_t)t->ncols, sizeof(tcol_t));
    for (int c = 0; c < t->ncols; c++) { tcol_t* col = &t->cols[c];
        col->type = gp->force_type >= 0 ? gp->force_type : T_TYPES[vrng_below(r, 7)];
        col->type_length = col->type == CARQUET_PHYSICAL_FIXED_LEN_BYTE_ARRAY ? 1 + (int32_t)vrng_below(r, 40) : 0;
        col->rep = gp->force_rep >= 0 ? gp->force_rep : (int)vrng_below(r, 2);
        col->max_def = (int16_t)(col->rep == CARQUET_REPETITION_OPTIONAL ? 1 : 0); col->max_rep = 0;
        static const char* odd[] = {"", "a b", "col.with.dots", "\xc3\xa9t\xc3\xa9", "x"};
        if (vrng_chance(r, 1, 12)) snprintf(col->name, sizeof col->name, "%s_%d", odd[vrng_below(r, 5)], c); else snprintf(col->name, sizeof col->name, "c%d", c); }
    if (t->ncols >= 2 && vrng_chance(r, 1, 8)) { /* an earlier column whose name extends a later column's name (value_raw before value): lookups by name must not stop at a prefix */
        int j = 1 + (int)vrng_below(r, (uint64_t)t->ncols - 1), i = (int)vrng_below(r, (uint64_t)j); char tmp[sizeof t->cols[0].name]; snprintf(tmp, sizeof tmp, "%.*s_raw", (int)sizeof tmp - 8, t->cols[j].name); memcpy(t->cols[i].name, tmp, sizeof tmp); }
    t->nrg = gp->force_nrg > 0 ? gp->force_nrg : (vrng_chance(r, 2, 3) ? 1 : 2 + (int)vrng_below(r, 3));
    t->rg = (tchunk_t**)calloc((size_t)t->nrg, sizeof(tchunk_t*)); t->rg_rows = (int64_t*)calloc((size_t)t->nrg, 8);
    t->codec = gp->force_codec >= 0 ? gp->force_codec : T_CODECS[vrng_below(r, 5)];
    static const int64_t pages[] = {1, 64, 1024, 65536};
    if (gp->force_page > 0) { t->page_size = gp->force_page; } else if (vrng_chance(r, 1, 5)) { t->page_size_default = 1; t->page_size = 1024 * 1024; } else t->page_size = pages[vrng_below(r, 4)];
    for (int g = 0; g < t->nrg; g++) {
        int64_t rows; int c10 = (int)vrng_below(r, 20);
        if (c10 == 0) rows = 0; else if (c10 < 4) rows = 1 + (int64_t)vrng_below(r, 9); else if (c10 < 15) rows = 1 + (int64_t)vrng_below(r, 120); else if (c10 < 19 || !gp->allow_big) rows = 1 + (int64_t)vrng_below(r, (uint64_t)(gp->max_rows < 1 ? 1 : gp->max_rows)); else rows = 1 + (int64_t)vrng_below(r, 60000);
        if (rows > gp->max_rows && !(gp->allow_big && c10 == 19)) rows = gp->max_rows;
        t->rg_rows[g] = rows; t->rg[g] = (tchunk_t*)calloc((size_t)t->ncols, sizeof(tchunk_t));
        for (int c = 0; c < t->ncols; c++) { tcol_t* col = &t->cols[c]; tchunk_t* k = &t->rg[g][c];
            k->nlevels = rows; k->def = (int16_t*)v_exact((size_t)rows * 2 + 2); k->rep = (int16_t*)calloc((size_t)rows + 1, 2);
            if (col->max_def) t_gen_nulls(r, k->def, rows, (int)vrng_below(r, 6)); else for (int64_t i = 0; i < rows; i++) k->def[i] = 0;
            int64_t nv = 0; for (int64_t i = 0; i < rows; i++) if (k->def[i] == col->max_def) nv++; k->nvals = nv;
            int law = (int)vrng_below(r, 4);
            if (col->type == CARQUET_PHYSICAL_BYTE_ARRAY) t_fill_ba(r, k, nv, law); else { k->fixed = (uint8_t*)v_exact((size_t)nv * t_elem_size(col) + 1); t_fill_fixed(r, col, k->fixed, nv, law); }
            t_gen_batches(r, k, rows, (int)vrng_below(r, 5));
            if (col->max_def && nv == rows && vrng_chance(r, 1, 2)) k->null_def_levels = 1; } }
    return t;
}

/* ---- write through the public API ------------------------------------------------------------ */
typedef struct { int all_ok; int first_bad_status; const char* first_bad_call; int64_t calls; int close_called; int close_status; } twrite_result_t;
static int TBL_KEEP_GOING = 0;   /* 1: an application that ignores a failed call, writes on and closes normally (the writer must then either refuse at close or leave a readable file) */
static carquet_schema_t* tbl_make_schema(const table_t* t, carquet_error_t* err) {
    carquet_schema_t* s = carquet_schema_create(err); if (!s) return NULL;
    for (int c = 0; c < t->ncols; c++) { carquet_status_t st = carquet_schema_add_column(s, t->cols[c].name, (carquet_physical_type_t)t->cols[c].type, NULL, (carquet_field_repetition_t)t->cols[c].rep, t->cols[c].type_length);
        if (st != CARQUET_OK) { carquet_schema_free(s); return NULL; } }
    return s;
}
/* writes batches of all columns of a row group in a seeded interleaving; every buffer handed over is an exact-size heap copy */
static void tbl_write_rowgroup(vrng_t* r, carquet_writer_t* w, const table_t* t, int g, twrite_result_t* res) {
    int nc = t->ncols; int* nextb = (int*)calloc((size_t)nc, sizeof(int)); int64_t* rowpos = (int64_t*)calloc((size_t)nc, 8); int64_t* valpos = (int64_t*)calloc((size_t)nc, 8);
    int remaining = 0; for (int c = 0; c < nc; c++) remaining += t->rg[g][c].nbatches;
    int interleave = (int)vrng_below(r, 3);   /* 0: column by column, 1: round robin, 2: random */
    int cur = 0;
    while (remaining > 0 && res->all_ok) {
        int c;
        if (interleave == 0) { while (nextb[cur] >= t->rg[g][cur].nbatches) cur++; c = cur; }
        else if (interleave == 1) { while (nextb[cur % nc] >= t->rg[g][cur % nc].nbatches) cur++; c = cur % nc; cur++; }
        else { do { c = (int)vrng_below(r, (uint64_t)nc); } while (nextb[c] >= t->rg[g][c].nbatches); }
        const tcol_t* col = &t->cols[c]; const tchunk_t* k = &t->rg[g][c]; int64_t b = k->batch_rows[nextb[c]++]; remaining--;
        int64_t nv = 0; for (int64_t i = 0; i < b; i++) if (k->def[rowpos[c] + i] == col->max_def) nv++;
        void* vals; uint8_t** tmp_ptrs = NULL;
        if (col->type == CARQUET_PHYSICAL_BYTE_ARRAY) { carquet_byte_array_t* a = (carquet_byte_array_t*)v_exact((size_t)nv * sizeof *a); tmp_ptrs = (uint8_t**)v_exact((size_t)nv * sizeof(uint8_t*) + 8);
            for (int64_t i = 0; i < nv; i++) { uint32_t L = k->ba_len[valpos[c] + i]; tmp_ptrs[i] = (uint8_t*)v_exact_copy(k->ba_ptr[valpos[c] + i], L); a[i].data = tmp_ptrs[i]; a[i].length = (int32_t)L; } vals = a; }
        else vals = v_exact_copy(k->fixed + (size_t)valpos[c] * t_elem_size(col), (size_t)nv * t_elem_size(col));
        int16_t* defs = NULL; if (col->max_def && !k->null_def_levels) { if (nv == b && b > 0 && vrng_chance(r, 1, 3)) v_count("batches_all_present_written_without_levels"); /* a batch without nulls may omit its levels even when its neighbours carry some */ else defs = (int16_t*)v_exact_copy(k->def + rowpos[c], (size_t)b * 2); }
        carquet_status_t st = carquet_writer_write_batch(w, c, vals, b, defs, NULL); res->calls++;
        if (st != CARQUET_OK) { res->all_ok = 0; res->first_bad_status = st; res->first_bad_call = "write_batch"; }
        if (tmp_ptrs) { for (int64_t i = 0; i < nv; i++) free(tmp_ptrs[i]); free(tmp_ptrs); } free(vals); free(defs);
        rowpos[c] += b; valpos[c] += nv;
    }
    free(nextb); free(rowpos); free(valpos);
}
static void tbl_writer_options(const table_t* t, carquet_writer_options_t* o) {
    carquet_writer_options_init(o); o->compression = (carquet_compression_t)t->codec; if (!t->page_size_default) o->page_size = t->page_size;
    { const char* wo = getenv("CQV_WRITER_OPTS"); if (wo && strstr(wo, "nostats")) o->write_statistics = false; if (wo && strstr(wo, "index")) o->write_page_index = true; if (wo && strstr(wo, "bloom")) o->write_bloom_filters = true; }   /* option fields that do not change what the file must contain (C14 uses them: checksums are independent of these switches) */
}
/* returns 0 when the writer could not even be created (refusal) */
static int tbl_write_path(vrng_t* r, const table_t* t, const char* path, twrite_result_t* res) {
    memset(res, 0, sizeof *res); res->all_ok = 1; carquet_error_t err = CARQUET_ERROR_INIT;
    carquet_schema_t* s = tbl_make_schema(t, &err); if (!s) { res->all_ok = 0; res->first_bad_call = "schema"; return 0; }
    carquet_writer_options_t o; tbl_writer_options(t, &o);
    carquet_writer_t* w = carquet_writer_create(path, s, &o, &err);
    if (!w) { carquet_schema_free(s); res->all_ok = 0; res->first_bad_call = "writer_create"; res->first_bad_status = err.code; return 0; }
    for (int g = 0; g < t->nrg && (res->all_ok || TBL_KEEP_GOING); g++) {
        if (g > 0) { carquet_status_t st = carquet_writer_new_row_group(w); res->calls++; if (st != CARQUET_OK) { if (res->all_ok) { res->first_bad_status = st; res->first_bad_call = "new_row_group"; } res->all_ok = 0; if (!TBL_KEEP_GOING) break; } }
        tbl_write_rowgroup(r, w, t, g, res); }
    if (res->all_ok || TBL_KEEP_GOING) { carquet_status_t st = carquet_writer_close(w); res->calls++; res->close_called = 1; res->close_status = st; if (st != CARQUET_OK) { if (res->all_ok) { res->first_bad_status = st; res->first_bad_call = "close"; } res->all_ok = 0; } }
    else carquet_writer_abort(w);
    carquet_schema_free(s); return 1;
}

/* same as tbl_write_path, but through a stream the caller owns (carquet_writer_create_file); the caller closes the stream */
static int tbl_write_stream(vrng_t* r, const table_t* t, FILE* f, twrite_result_t* res) {
    memset(res, 0, sizeof *res); res->all_ok = 1; carquet_error_t err = CARQUET_ERROR_INIT;
    carquet_schema_t* s = tbl_make_schema(t, &err); if (!s) { res->all_ok = 0; res->first_bad_call = "schema"; return 0; }
    carquet_writer_options_t o; tbl_writer_options(t, &o);
    carquet_writer_t* w = carquet_writer_create_file(f, s, &o, &err);
    if (!w) { carquet_schema_free(s); res->all_ok = 0; res->first_bad_call = "writer_create_file"; res->first_bad_status = err.code; return 0; }
    for (int g = 0; g < t->nrg && res->all_ok; g++) {
        if (g > 0) { carquet_status_t st = carquet_writer_new_row_group(w); res->calls++; if (st != CARQUET_OK) { res->all_ok = 0; res->first_bad_status = st; res->first_bad_call = "new_row_group"; break; } }
        tbl_write_rowgroup(r, w, t, g, res); }
    if (res->all_ok) { carquet_status_t st = carquet_writer_close(w); res->calls++; if (st != CARQUET_OK) { res->all_ok = 0; res->first_bad_status = st; res->first_bad_call = "close"; } }
    else carquet_writer_abort(w);
    carquet_schema_free(s); return 1;
}

/* ---- TDMP dump / load -------------------------------------------------------------------------- */
static void tbl_dump(const table_t* t, const char* path) {
    FILE* f = fopen(path, "wb"); if (!f) { perror("dump"); exit(2); }
    fwrite("TDMP1\n", 1, 6, f); uint32_t nc = (uint32_t)t->ncols, ng = (uint32_t)t->nrg; fwrite(&nc, 4, 1, f); fwrite(&ng, 4, 1, f);
    for (int c = 0; c < t->ncols; c++) { const tcol_t* col = &t->cols[c]; uint8_t ty = (uint8_t)col->type, rp = (uint8_t)col->rep; uint16_t nl = (uint16_t)strlen(col->name);
        fwrite(&ty, 1, 1, f); fwrite(&col->type_length, 4, 1, f); fwrite(&rp, 1, 1, f); fwrite(&col->max_def, 2, 1, f); fwrite(&col->max_rep, 2, 1, f); fwrite(&nl, 2, 1, f); fwrite(col->name, 1, nl, f); }
    for (int g = 0; g < t->nrg; g++) { fwrite(&t->rg_rows[g], 8, 1, f); for (int c = 0; c < t->ncols; c++) { const tchunk_t* k = &t->rg[g][c]; const tcol_t* col = &t->cols[c];
        fwrite(&k->nlevels, 8, 1, f); fwrite(k->def, 2, (size_t)k->nlevels, f); fwrite(k->rep, 2, (size_t)k->nlevels, f); fwrite(&k->nvals, 8, 1, f);
        if (col->type == CARQUET_PHYSICAL_BYTE_ARRAY) for (int64_t i = 0; i < k->nvals; i++) { fwrite(&k->ba_len[i], 4, 1, f); fwrite(k->ba_ptr[i], 1, k->ba_len[i], f); }
        else fwrite(k->fixed, t_elem_size(col), (size_t)k->nvals, f); } }
    fclose(f);
}
#define T_RD(ptr, sz, cnt) do { if (fread((ptr), (sz), (cnt), f) != (size_t)(cnt)) { fprintf(stderr, "driver: short TDMP read\n"); exit(2); } } while (0)
static table_t* tbl_load(const char* path) {
    FILE* f = fopen(path, "rb"); if (!f) { perror(path); exit(2); } char mg[6]; T_RD(mg, 1, 6); if (memcmp(mg, "TDMP1\n", 6)) { fprintf(stderr, "bad TDMP\n"); exit(2); }
    table_t* t = (table_t*)calloc(1, sizeof *t); uint32_t nc, ng; T_RD(&nc, 4, 1); T_RD(&ng, 4, 1); t->ncols = (int)nc; t->nrg = (int)ng; t->cols = (tcol_t*)calloc(nc ? nc : 1, sizeof(tcol_t));
    for (uint32_t c = 0; c < nc; c++) { tcol_t* col = &t->cols[c]; uint8_t ty, rp; uint16_t nl; T_RD(&ty, 1, 1); T_RD(&col->type_length, 4, 1); T_RD(&rp, 1, 1); T_RD(&col->max_def, 2, 1); T_RD(&col->max_rep, 2, 1); T_RD(&nl, 2, 1);
        if (nl >= sizeof col->name) { fprintf(stderr, "name too long\n"); exit(2); } if (nl) T_RD(col->name, 1, nl); col->name[nl] = 0; col->type = ty; col->rep = rp; }
    t->rg = (tchunk_t**)calloc(ng ? ng : 1, sizeof(tchunk_t*)); t->rg_rows = (int64_t*)calloc(ng ? ng : 1, 8);
    for (uint32_t g = 0; g < ng; g++) { T_RD(&t->rg_rows[g], 8, 1); t->rg[g] = (tchunk_t*)calloc(nc ? nc : 1, sizeof(tchunk_t));
        for (uint32_t c = 0; c < nc; c++) { tchunk_t* k = &t->rg[g][c]; const tcol_t* col = &t->cols[c]; T_RD(&k->nlevels, 8, 1);
            k->def = (int16_t*)v_exact((size_t)k->nlevels * 2 + 2); k->rep = (int16_t*)v_exact((size_t)k->nlevels * 2 + 2); if (k->nlevels) { T_RD(k->def, 2, (size_t)k->nlevels); T_RD(k->rep, 2, (size_t)k->nlevels); } T_RD(&k->nvals, 8, 1);
            if (col->type == CARQUET_PHYSICAL_BYTE_ARRAY) { k->ba_len = (uint32_t*)v_exact((size_t)k->nvals * 4 + 4); k->ba_ptr = (uint8_t**)v_exact((size_t)k->nvals * sizeof(uint8_t*) + 8);
                size_t cap = 1024, n = 0; uint8_t* heap = (uint8_t*)malloc(cap); size_t* offs = (size_t*)v_exact((size_t)k->nvals * sizeof(size_t) + 8);
                for (int64_t i = 0; i < k->nvals; i++) { uint32_t L; T_RD(&L, 4, 1); k->ba_len[i] = L; while (n + L + 1 > cap) { cap *= 2; heap = (uint8_t*)realloc(heap, cap); } if (L) T_RD(heap + n, 1, L); offs[i] = n; n += L; }
                for (int64_t i = 0; i < k->nvals; i++) k->ba_ptr[i] = heap + offs[i]; free(offs); k->ba_heap = heap; k->ba_heap_n = n; }
            else { size_t es = t_elem_size(col); k->fixed = (uint8_t*)v_exact((size_t)k->nvals * es + 1); if (k->nvals && es) T_RD(k->fixed, es, (size_t)k->nvals); } } }
    fclose(f); return t;
}

/* ---- comparison helpers --------------------------------------------------------------------------- */
/* compare n dense values starting at model value index v0 against API-layout buffer `got` */
static int tbl_values_equal(const tcol_t* col, const tchunk_t* k, int64_t v0, int64_t n, const void* got) {
    if (col->type == CARQUET_PHYSICAL_BYTE_ARRAY) { const carquet_byte_array_t* a = (const carquet_byte_array_t*)got;
        for (int64_t i = 0; i < n; i++) { if ((uint32_t)a[i].length != k->ba_len[v0 + i]) return 0; if (a[i].length && memcmp(a[i].data, k->ba_ptr[v0 + i], (size_t)a[i].length)) return 0; } return 1; }
    size_t es = t_elem_size(col); return n == 0 || memcmp(got, k->fixed + (size_t)v0 * es, (size_t)n * es) == 0;
}
/* touch every byte a returned byte array points to (ASan decides whether it is still readable) */
static uint64_t tbl_touch(const tcol_t* col, const void* got, int64_t n) {
    uint64_t acc = 0; if (col->type != CARQUET_PHYSICAL_BYTE_ARRAY) return 0; const carquet_byte_array_t* a = (const carquet_byte_array_t*)got;
    for (int64_t i = 0; i < n; i++) for (int32_t j = 0; j < a[i].length; j++) acc += a[i].data[j]; return acc;
}
#endif
