/* C03: fread / mmap / buffer reading are observationally equivalent.
 * usage: c03 gen <seed> <scale> <workdir> | c03 file <seed> <scale> <parquet>... */
#include "rdchk.h"
#include "reader/reader_internal.h"   /* max_def_levels per leaf (anchored observation point) */

static vrng_t R;

static void transcript(tx_t* x, const char* path, int mode, int verify, int* opened, int64_t* zc_seen) {
    carquet_error_t err = CARQUET_ERROR_INIT; ropen_t o; *opened = 0;
    if (!rd_open(&o, path, mode, verify, 1, &err)) { tx_add(x, "open FAILED code=%d", err.code); return; }
    *opened = 1; carquet_reader_t* rd = o.rd;
    int ng = carquet_reader_num_row_groups(rd), nc = carquet_reader_num_columns(rd);
    tx_add(x, "meta rows=%lld groups=%d columns=%d", (long long)carquet_reader_num_rows(rd), ng, nc);
    for (int g = 0; g < ng; g++) { carquet_row_group_metadata_t m; memset(&m, 0, sizeof m); carquet_status_t st = carquet_reader_row_group_metadata(rd, g, &m); tx_add(x, "meta rg=%d st=%d rows=%lld bytes=%lld comp=%lld", g, st, (long long)m.num_rows, (long long)m.total_byte_size, (long long)m.total_compressed_size); }
    { carquet_row_group_metadata_t m; tx_add(x, "meta rg=-1 st=%d rg=%d st=%d", carquet_reader_row_group_metadata(rd, -1, &m), ng, carquet_reader_row_group_metadata(rd, ng, &m)); }
    const carquet_schema_t* s = carquet_reader_schema(rd); int ne = carquet_schema_num_elements(s);
    tx_add(x, "schema elements=%d leaves=%d", ne, carquet_schema_num_columns(s));
    for (int e = 0; e < ne; e++) { const carquet_schema_node_t* n = carquet_schema_get_element(s, e); if (!n) { tx_add(x, "schema e=%d NULL", e); continue; } const carquet_logical_type_t* lt = carquet_schema_node_logical_type(n);
        tx_add(x, "schema e=%d name=%s leaf=%d type=%d rep=%d tl=%d def=%d replv=%d logical=%d find=%d", e, carquet_schema_node_name(n), (int)carquet_schema_node_is_leaf(n), carquet_schema_node_is_leaf(n) ? (int)carquet_schema_node_physical_type(n) : -1, (int)carquet_schema_node_repetition(n),
               carquet_schema_node_type_length(n), carquet_schema_node_max_def_level(n), carquet_schema_node_max_rep_level(n), lt ? (int)lt->id : -1, carquet_schema_find_column(s, carquet_schema_node_name(n))); }
    for (int g = 0; g < ng; g++) for (int c = 0; c < nc; c++) { carquet_column_statistics_t cs; memset(&cs, 0, sizeof cs); carquet_status_t st = carquet_reader_column_statistics(rd, g, c, &cs);
        uint64_t hmin = cs.has_min_max && cs.min_value ? v_hash(cs.min_value, (size_t)(cs.min_value_size > 0 ? cs.min_value_size : 0), 1) : 0, hmax = cs.has_min_max && cs.max_value ? v_hash(cs.max_value, (size_t)(cs.max_value_size > 0 ? cs.max_value_size : 0), 2) : 0;
        tx_add(x, "stats rg=%d col=%d st=%d mm=%d nc=%d dc=%d nulls=%lld distinct=%lld nvals=%lld min=%llx/%d max=%llx/%d", g, c, st, (int)cs.has_min_max, (int)cs.has_null_count, (int)cs.has_distinct_count, cs.has_null_count ? (long long)cs.null_count : 0, cs.has_distinct_count ? (long long)cs.distinct_count : 0, (long long)cs.num_values, (unsigned long long)hmin, cs.has_min_max ? cs.min_value_size : 0, (unsigned long long)hmax, cs.has_min_max ? cs.max_value_size : 0);
        if (carquet_reader_can_zero_copy(rd, g, c)) (*zc_seen)++; }
    /* column readers with a fixed history */
    int types[64]; int32_t tls[64]; int16_t maxdef[64];
    for (int c = 0; c < nc && c < 64; c++) { int e = -1, leaf = -1; for (int q = 0; q < ne; q++) { const carquet_schema_node_t* n = carquet_schema_get_element(s, q); if (n && carquet_schema_node_is_leaf(n)) { leaf++; if (leaf == c) { e = q; break; } } }
        const carquet_schema_node_t* n = e >= 0 ? carquet_schema_get_element(s, e) : NULL; types[c] = n ? (int)carquet_schema_node_physical_type(n) : 0; tls[c] = n ? carquet_schema_node_type_length(n) : 0; maxdef[c] = 0; }
    for (int g = 0; g < ng; g++) for (int c = 0; c < nc && c < 64; c++) { carquet_column_reader_t* cr = carquet_reader_get_column(rd, g, c, &err); if (!cr) { tx_add(x, "col rg=%d col=%d get FAILED code=%d", g, c, err.code); continue; }
        static const int64_t sizes[] = {3, 64, 1, 1000000}; int si = 0; int64_t pos = 0; size_t aes = types[c] == CARQUET_PHYSICAL_BYTE_ARRAY ? sizeof(carquet_byte_array_t) : types[c] == CARQUET_PHYSICAL_BOOLEAN ? 1 : types[c] == CARQUET_PHYSICAL_INT32 || types[c] == CARQUET_PHYSICAL_FLOAT ? 4 : types[c] == CARQUET_PHYSICAL_INT96 ? 12 : types[c] == CARQUET_PHYSICAL_FIXED_LEN_BYTE_ARRAY ? (size_t)tls[c] : 8;
        int16_t md = s->max_def_levels[c];
        while (carquet_column_has_next(cr)) { int64_t k = sizes[si++ % 4]; int64_t rem = carquet_column_remaining(cr); if (k > rem) k = rem; if (k <= 0) break; void* vals = v_exact((size_t)k * aes); int16_t* defs = (int16_t*)v_exact((size_t)k * 2);
            int64_t n = carquet_column_read_batch(cr, vals, k, defs, NULL); if (n <= 0) { tx_add(x, "col rg=%d col=%d read(%lld)=%lld at %lld", g, c, (long long)k, (long long)n, (long long)pos); free(vals); free(defs); break; }
            int64_t nn = 0;
            for (int64_t q = 0; q < n; q++) if (defs[q] == md) nn++;
            tx_add(x, "col rg=%d col=%d read(%lld)=%lld defs=%llx vals=%llx rem=%lld", g, c, (long long)k, (long long)n, (unsigned long long)v_hash(defs, (size_t)n * 2, 3), (unsigned long long)tx_hash_values(types[c], tls[c], vals, md == 0 ? n : nn), (long long)carquet_column_remaining(cr));
            pos += n; free(vals); free(defs); }
        maxdef[c] = md; carquet_column_reader_free(cr); }
    /* batch reader, batches retained until all were fetched */
    int64_t nrows = carquet_reader_num_rows(rd); int bss[] = {1, 7, 64, 100, (int)(nrows > 0 && nrows < 100000 ? nrows : 977), 65536};
    for (int bi = 0; bi < 6; bi++) { int bs = bss[bi]; if ((nrows > 2000 && bs < 64) || (nrows > 500 && bs < 7)) continue; carquet_batch_reader_config_t cfg; carquet_batch_reader_config_init(&cfg); cfg.batch_size = bs; cfg.num_threads = 1;
        carquet_batch_reader_t* br = carquet_batch_reader_create(rd, &cfg, &err); if (!br) { tx_add(x, "batch bs=%d create FAILED %d", bs, err.code); continue; }
        size_t cap = 64, nb = 0; carquet_row_batch_t** held = (carquet_row_batch_t**)malloc(cap * sizeof *held); uint64_t* hh = (uint64_t*)malloc(cap * 8); int* hg = (int*)malloc(cap * sizeof(int));
        int cur_g = 0; int64_t in_g = 0;
        for (;;) { carquet_row_batch_t* b = NULL; carquet_status_t st = carquet_batch_reader_next(br, &b); if (st != CARQUET_OK || !b) { tx_add(x, "batch bs=%d end st=%d batches=%zu", bs, st, nb); break; }
            int64_t nr = carquet_row_batch_num_rows(b); uint64_t acc = 5;
            /* which row group does this batch belong to (needed for can_zero_copy): follow the row counts */
            while (cur_g < ng) { carquet_row_group_metadata_t m; if (carquet_reader_row_group_metadata(rd, cur_g, &m) != CARQUET_OK) break; if (in_g >= m.num_rows && !(nr == 0 && m.num_rows == 0 && in_g == 0)) { cur_g++; in_g = 0; } else break; }
            for (int c = 0; c < carquet_row_batch_num_columns(b) && c < 64; c++) { const void* d = NULL; const uint8_t* bm = NULL; int64_t nv = 0; carquet_status_t cs = carquet_row_batch_column(b, c, &d, &bm, &nv);
                int64_t nulls = 0; if (bm && maxdef[c] > 0) for (int64_t q = 0; q < nv; q++) nulls += (bm[q / 8] >> (q % 8)) & 1; uint64_t hb = 0; if (bm) { for (int64_t q = 0; q < nv; q++) hb = hb * 31 + ((bm[q / 8] >> (q % 8)) & 1); }
                uint64_t hv = cs == CARQUET_OK && d ? tx_hash_values(types[c], tls[c], d, nv - nulls) : 0; acc = acc * 1000003 + hv;
                tx_add(x, "batch bs=%d n=%zu rows=%lld col=%d st=%d nv=%lld nulls=%lld bitmap=%llx vals=%llx", bs, nb, (long long)nr, c, cs, (long long)nv, (long long)nulls, (unsigned long long)hb, (unsigned long long)hv); }
            if (nb == cap) { cap *= 2; held = (carquet_row_batch_t**)realloc(held, cap * sizeof *held); hh = (uint64_t*)realloc(hh, cap * 8); hg = (int*)realloc(hg, cap * sizeof(int)); }
            held[nb] = b; hh[nb] = acc; hg[nb] = cur_g; nb++; in_g += nr; if (nb > 300000) break; }
        /* data handed out for zero-copy-eligible columns must be unchanged now that all later batches were fetched */
        for (size_t i = 0; i < nb; i++) { carquet_row_batch_t* b = held[i];
            for (int c = 0; c < carquet_row_batch_num_columns(b) && c < 64; c++) { if (hg[i] >= ng || !carquet_reader_can_zero_copy(rd, hg[i], c)) continue; const void* d = NULL; const uint8_t* bm = NULL; int64_t nv = 0; if (carquet_row_batch_column(b, c, &d, &bm, &nv) != CARQUET_OK || !d) continue;
                uint64_t hv = tx_hash_values(types[c], tls[c], d, nv); tx_add(x, "retain bs=%d n=%zu col=%d vals=%llx", bs, i, c, (unsigned long long)hv); v_count("retained_zero_copy_columns_rehashed"); }
            carquet_row_batch_free(b); }
        free(held); free(hh); free(hg); carquet_batch_reader_free(br); }
    rd_close(&o);
}

static void compare_modes(const char* path, const char* tag) {
    tx_t base = {0}; int opened0 = 0; int64_t zc = 0; transcript(&base, path, IO_FREAD, 1, &opened0, &zc);
    static const int modes[5][2] = {{IO_MMAP, 1}, {IO_BUFFER, 1}, {IO_FREAD, 0}, {IO_MMAP, 0}, {IO_BUFFER, 0}};
    for (int m = 0; m < 5; m++) { tx_t x = {0}; int op = 0; int64_t z2 = 0; transcript(&x, path, modes[m][0], modes[m][1], &op, &z2); if (z2) v_count_n("can_zero_copy_true", (uint64_t)z2);
        v_case(v_hash(base.p ? base.p : "", base.n, (uint64_t)m + 17));
        /* 'retain' lines exist only where can_zero_copy is true (mmap); compare the other lines, and check retain lines against the batch lines of the same transcript */
        const char* a = base.p ? base.p : ""; const char* b = x.p ? x.p : ""; int line = 0; char la[600], lb[600];
        for (;;) { while (!strncmp(a, "retain ", 7)) { const char* e = strchr(a, '\n'); a = e ? e + 1 : a + strlen(a); } while (!strncmp(b, "retain ", 7)) { const char* e = strchr(b, '\n'); b = e ? e + 1 : b + strlen(b); }
            if (!*a && !*b) break; const char* ea = strchr(a, '\n'); const char* eb = strchr(b, '\n'); size_t na = ea ? (size_t)(ea - a) : strlen(a), nb2 = eb ? (size_t)(eb - b) : strlen(b);
            if (na != nb2 || memcmp(a, b, na)) { snprintf(la, sizeof la, "%.*s", (int)(na < 500 ? na : 500), a); snprintf(lb, sizeof lb, "%.*s", (int)(nb2 < 500 ? nb2 : 500), b); char sec[32]; sscanf(la[0] ? la : lb, "%31s", sec); char key[128]; snprintf(key, sizeof key, "equivalence:%s:%s-vs-fread", sec, IO_NAME[modes[m][0]]);
                v_viol(key, "%s verify=%d line %d: fread[%s] %s[%s]", tag, modes[m][1], line, la, IO_NAME[modes[m][0]], lb); break; }
            a = ea ? ea + 1 : a + na; b = eb ? eb + 1 : b + nb2; line++; }
        /* retention: each retain line must equal the vals hash printed when the batch was first delivered */
        for (const char* r = x.p ? strstr(x.p, "\nretain ") : NULL; r; r = strstr(r + 1, "\nretain ")) { int bs, col; size_t n; unsigned long long hv; if (sscanf(r + 1, "retain bs=%d n=%zu col=%d vals=%llx", &bs, &n, &col, &hv) != 4) continue; char pat[128]; snprintf(pat, sizeof pat, "\nbatch bs=%d n=%zu rows=", bs, n); const char* q = x.p;
            int found = 0; while ((q = strstr(q, pat))) { int c2; const char* cpos = strstr(q, " col="); if (cpos && sscanf(cpos, " col=%d", &c2) == 1 && c2 == col) { const char* vp = strstr(q, " vals="); const char* eol = strchr(q + 1, '\n'); if (vp && (!eol || vp < eol)) { unsigned long long h0; sscanf(vp, " vals=%llx", &h0); found = 1; if (h0 != hv) { char key[128]; snprintf(key, sizeof key, "zero-copy-data-changed-before-close:%s", IO_NAME[modes[m][0]]); v_viol(key, "%s batch_size=%d batch=%zu col=%d", tag, bs, n, col); } } break; } q++; }
            (void)found; }
        free(x.p); }
    if (opened0) v_count("files_compared"); free(base.p);
}

int main(int argc, char** argv) {
    if (argc < 5) return 2; const char* mode = argv[1]; uint64_t seed = strtoull(argv[2], 0, 10); int scale = atoi(argv[3]); vrng_seed(&R, seed * 69069 + 5); (void)carquet_init();
    if (!strcmp(mode, "gen")) { const char* dir = argv[4]; char path[512], tag[128]; snprintf(path, sizeof path, "%s/c.parquet", dir); int64_t cases = scale >= 2 ? 320 : 24;
        for (int64_t ci = 0; ci < cases; ci++) { static const int64_t pgs[] = {64, 1024, 1, 0}; tgen_t gp = {6, ci % 5 == 4 ? 2500 : 200, 0, -1, (ci % 3 == 0) ? CARQUET_REPETITION_REQUIRED : -1, (ci % 2 == 0) ? CARQUET_COMPRESSION_UNCOMPRESSED : -1, pgs[ci % 4], 0};
            table_t* t = tbl_generate(&R, &gp); twrite_result_t wr; unlink(path);
            if (tbl_write_path(&R, t, path, &wr) && wr.all_ok) { snprintf(tag, sizeof tag, "gen seed=%llu case=%lld codec=%d page=%lld", (unsigned long long)seed, (long long)ci, t->codec, (long long)t->page_size); compare_modes(path, tag);
                int elig = 0, non = 0, smallpage = 0; for (int c = 0; c < t->ncols; c++) { int e = t->codec == 0 && t->cols[c].rep == 0 && t->cols[c].type != CARQUET_PHYSICAL_BOOLEAN && t->cols[c].type != CARQUET_PHYSICAL_BYTE_ARRAY; if (e) { elig++; for (int g = 0; g < t->nrg; g++) if (t->rg[g][c].nbatches > 1) smallpage = 1; } else non++; }
                if (elig && non) v_count("files_mixing_eligible_and_non_eligible_columns"); if (smallpage) v_count("files_with_eligible_page_smaller_than_batch"); }
            else v_count("writer_refused"); unlink(path); tbl_free(t); }
        v_sample("c03 gen: %lld carquet-written files (half uncompressed, a third all-REQUIRED, page sizes 64/1024/1/default) each read through {fread,mmap,buffer} x verify_checksums {on,off}: metadata, schema accessors, statistics, column readers (history 3,64,1,rest), batch reader at 6 batch sizes with all batches retained and re-hashed", (long long)cases);
    } else if (!strcmp(mode, "file")) { for (int i = 4; i < argc; i++) { char tag[300]; snprintf(tag, sizeof tag, "file=%s", strrchr(argv[i], '/') ? strrchr(argv[i], '/') + 1 : argv[i]); compare_modes(argv[i], tag); v_count("reference_written_files"); }
    } else return 2;
    v_finish(); return 0;
}
