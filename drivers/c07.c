/* C07: parallel reading is independent of thread count and scheduling.
 * usage: c07 batch <seed> <scale> <workdir>            batch reader: t threads vs 1 thread, three I/O modes
 *        c07 batchfiles <seed> <scale> <listfile>       same comparison on given (reference-written) files
 *        c07 firstuse <seed> <nthreads> <parquet>      N readers used concurrently as the very first carquet calls of the process
 * Built three ways by the check: TSan + gomp_shim (races, seeded schedules), plain + libgomp with --wrap=fseek,fread
 * (delay injection + event log), ASan + libgomp. */
#define _GNU_SOURCE
#include "rdchk.h"
#include "reader/reader_internal.h"
#include <pthread.h>
#include <stdatomic.h>

static vrng_t R;

/* ---- I/O event log + delay injection (active only when linked with --wrap=fseek,--wrap=fread) ------------- */
typedef struct { uint32_t tid; uint8_t op; FILE* f; long arg; } ioev_t;
#define MAXEV (1 << 20)
static ioev_t* EV = NULL; static atomic_long NEV; static int LOG_ON = 0; static int DELAY_PM = 0; static __thread uint64_t t_rng = 0; static atomic_uint TIDC; static __thread uint32_t t_tid = 0;
static uint32_t mytid(void) { if (!t_tid) t_tid = atomic_fetch_add(&TIDC, 1) + 1; return t_tid; }
static void io_delay(void) { if (!DELAY_PM) return; if (!t_rng) t_rng = 0x9E3779B97F4A7C15ULL * (mytid() + 7); t_rng ^= t_rng << 13; t_rng ^= t_rng >> 7; t_rng ^= t_rng << 17; if ((int)(t_rng % 1000) < DELAY_PM) { if (t_rng & 0x10000) sched_yield(); else usleep((useconds_t)(50 + (t_rng >> 20) % 450)); } }
static void io_log(int op, FILE* f, long arg) { if (!LOG_ON) return; long i = atomic_fetch_add(&NEV, 1); if (i < MAXEV) { EV[i].tid = mytid(); EV[i].op = (uint8_t)op; EV[i].f = f; EV[i].arg = arg; } }
int __real_fseek(FILE*, long, int); size_t __real_fread(void*, size_t, size_t, FILE*);
int __wrap_fseek(FILE* f, long off, int wh) { io_log(0, f, off); int r = __real_fseek(f, off, wh); io_delay(); return r; }      /* the delay sits between the seek and the read that depends on it */
size_t __wrap_fread(void* p, size_t a, size_t b, FILE* f) { io_log(1, f, (long)(a * b)); size_t r = __real_fread(p, a, b, f); io_delay(); return r; }

/* offline monitor over the log: between a thread's fseek and its next fread on the same stream no other thread may touch that stream */
static void analyse_log(const char* ctx) { long n = atomic_load(&NEV); if (n > MAXEV) n = MAXEV; long windows = 0, foreign = 0; uint64_t sig = 1469598103934665603ULL; int multi = 0; uint32_t first_tid = n ? EV[0].tid : 0;
    for (long i = 0; i < n; i++) { sig = (sig ^ EV[i].tid) * 1099511628211ULL; if (EV[i].tid != first_tid) multi = 1; if (EV[i].op != 0) continue; /* a seek: find this thread's next op on the same stream */
        for (long j = i + 1; j < n && j < i + 4000; j++) { if (EV[j].f != EV[i].f) continue; if (EV[j].tid == EV[i].tid) { if (EV[j].op == 1) windows++; break; } foreign++; { char key[96]; snprintf(key, sizeof key, "io:foreign-operation-between-seek-and-read:shared-stream"); v_viol(key, "%s: thread %u seeks to %ld, thread %u %s the same FILE* before the read", ctx, EV[i].tid, EV[i].arg, EV[j].tid, EV[j].op ? "reads" : "seeks"); } break; } }
    v_count_n("io_seek_read_windows", (uint64_t)windows); v_count_n("io_windows_with_foreign_operation", (uint64_t)foreign); if (multi) v_count("io_logs_with_several_threads"); v_set_insert(sig ? sig : 1); atomic_store(&NEV, 0);
}

/* ---- batch transcript ----------------------------------------------------------------------------------------- */
static int bt_step(carquet_batch_reader_t* br, carquet_reader_t* rd, const int32_t* proj, tx_t* x, int* nbp);
static void batch_transcript(carquet_reader_t* rd, int threads, int batch_size, const int32_t* proj, int nproj, tx_t* x) {
    carquet_error_t err = CARQUET_ERROR_INIT; carquet_batch_reader_config_t cfg; carquet_batch_reader_config_init(&cfg); cfg.batch_size = batch_size; cfg.num_threads = threads; if (proj) { cfg.column_indices = proj; cfg.num_columns = nproj; }
    carquet_batch_reader_t* br = carquet_batch_reader_create(rd, &cfg, &err); if (!br) { tx_add(x, "create FAILED %d", err.code); return; }
    int nb = 0; while (bt_step(br, rd, proj, x, &nb)) {}
    carquet_batch_reader_free(br);
}
static int bt_step(carquet_batch_reader_t* br, carquet_reader_t* rd, const int32_t* proj, tx_t* x, int* nbp) { const carquet_schema_t* s = carquet_reader_schema(rd); int nb = *nbp;
    { carquet_row_batch_t* b = NULL; carquet_status_t st = carquet_batch_reader_next(br, &b); if (st != CARQUET_OK || !b) { tx_add(x, "end status=%d batches=%d", st, nb); return 0; }
        int64_t nr = carquet_row_batch_num_rows(b); tx_add(x, "batch %d rows=%lld", nb, (long long)nr);
        for (int c = 0; c < carquet_row_batch_num_columns(b); c++) { const void* d = NULL; const uint8_t* bm = NULL; int64_t nv = 0; carquet_status_t cs = carquet_row_batch_column(b, c, &d, &bm, &nv); int fc = proj ? proj[c] : c; int e = s->leaf_indices[fc]; int type = s->elements[e].has_type ? (int)s->elements[e].type : 6; int32_t tl = s->elements[e].type_length;
            int64_t nulls = 0; uint64_t hb = 0; if (bm && s->max_def_levels[fc] > 0) for (int64_t q = 0; q < nv; q++) { int bit = (bm[q / 8] >> (q % 8)) & 1; nulls += bit; hb = hb * 31 + (uint64_t)bit; }
            tx_add(x, " col %d st=%d nv=%lld nulls=%lld bm=%llx vals=%llx", c, cs, (long long)nv, (long long)nulls, (unsigned long long)hb, (unsigned long long)(cs == CARQUET_OK && d ? tx_hash_values(type, tl, d, nv - nulls) : 0)); }
        carquet_row_batch_free(b); *nbp = ++nb; if (nb > 200000) return 0; }
    return 1;
}
static int tx_equal(const tx_t* a, const tx_t* b, char* la, char* lb, size_t cap) { const char* p = a->p ? a->p : ""; const char* q = b->p ? b->p : ""; la[0] = lb[0] = 0;
    while (*p || *q) { const char* ep = strchr(p, '\n'); const char* eq = strchr(q, '\n'); size_t np = ep ? (size_t)(ep - p) : strlen(p), nq = eq ? (size_t)(eq - q) : strlen(q); if (np != nq || memcmp(p, q, np)) { snprintf(la, cap, "%.*s", (int)(np < cap - 1 ? np : cap - 1), p); snprintf(lb, cap, "%.*s", (int)(nq < cap - 1 ? nq : cap - 1), q); return 0; } p = ep ? ep + 1 : p + np; q = eq ? eq + 1 : q + nq; } return 1; }

static void batch_file(const char* path, const char* tag, int codec, int ncols, int64_t ci, int scale) { char ctx[400], la[300], lb[300], key[160];
        for (int mode = 0; mode < 3; mode++) { carquet_error_t err = CARQUET_ERROR_INIT; static const int bss[] = {65536, 100, 7}; int bs = bss[(ci + mode) % 3]; if (ci >= 1000) bs = (mode & 1) ? 65536 : 16384;   /* large-page files: few, large batches (thousands of tiny parallel regions would only burn CPU) */
            ropen_t o; if (!rd_open(&o, path, mode, 1, 1, &err)) { v_viol("open-failed", "%s case=%lld mode=%s %s", tag, (long long)ci, IO_NAME[mode], err.message); continue; }
            tx_t ref = {0}; LOG_ON = 0; int saved_delay = DELAY_PM; DELAY_PM = 0; batch_transcript(o.rd, 1, bs, NULL, 0, &ref); DELAY_PM = saved_delay; rd_close(&o);
            static const int ths[] = {2, 3, 4, 8, 16};
            for (int ti = 0; ti < 5; ti++) for (int rep = 0; rep < (scale >= 2 ? 3 : 2); rep++) { if (!rd_open(&o, path, mode, 1, ths[ti], &err)) continue; tx_t x = {0}; LOG_ON = EV != NULL && mode == IO_FREAD; atomic_store(&NEV, 0);
                batch_transcript(o.rd, ths[ti], bs, NULL, 0, &x); LOG_ON = 0; snprintf(ctx, sizeof ctx, "%s case=%lld codec=%d cols=%d mode=%s threads=%d batch_size=%d", tag, (long long)ci, codec, ncols, IO_NAME[mode], ths[ti], bs);
                v_case(v_hash(ctx, strlen(ctx), (uint64_t)rep + 11)); v_count("parallel_runs"); if (codec != 0) v_count("parallel_runs_with_decompression"); if (strstr(ref.p ? ref.p : "", "end status=0")) v_count("parallel_runs_on_files_the_batch_reader_reads_to_the_end");
                if (!tx_equal(&ref, &x, la, lb, sizeof la)) { snprintf(key, sizeof key, "parallel:output-differs-from-single-thread:%s", IO_NAME[mode]); v_viol(key, "%s: 1 thread[%s] %d threads[%s]", ctx, la, ths[ti], lb); }
                if (EV && mode == IO_FREAD) analyse_log(ctx); free(x.p); rd_close(&o); }
            free(ref.p); } }
/* a table of `ncols` REQUIRED INT64 columns with `rows` incompressible values each, one batch and therefore one page of rows*8 bytes per
 * column: page transfers of several hundred KiB (implementations treat large reads differently from small ones) */
static table_t* big_page_table(int ncols, int64_t rows, int codec) {
    table_t* t = (table_t*)calloc(1, sizeof *t); t->ncols = ncols; t->cols = (tcol_t*)calloc((size_t)ncols, sizeof(tcol_t)); t->nrg = 1; t->rg = (tchunk_t**)calloc(1, sizeof(tchunk_t*)); t->rg_rows = (int64_t*)calloc(1, 8); t->codec = codec; t->page_size = 1 << 23; t->rg_rows[0] = rows; t->rg[0] = (tchunk_t*)calloc((size_t)ncols, sizeof(tchunk_t));
    for (int c = 0; c < ncols; c++) { tcol_t* col = &t->cols[c]; col->type = CARQUET_PHYSICAL_INT64; col->rep = CARQUET_REPETITION_REQUIRED; snprintf(col->name, sizeof col->name, "big%d", c); tchunk_t* k = &t->rg[0][c]; k->nlevels = rows; k->def = (int16_t*)calloc((size_t)rows + 1, 2); k->rep = (int16_t*)calloc((size_t)rows + 1, 2); k->nvals = rows; k->fixed = (uint8_t*)malloc((size_t)rows * 8 + 8); vrng_bytes(&R, k->fixed, (size_t)rows * 8); k->nbatches = 1; k->batch_rows = (int64_t*)malloc(8); k->batch_rows[0] = rows; }
    return t; }

static void batch_section(int scale, const char* dir) {
    char path[600]; snprintf(path, sizeof path, "%s/c.parquet", dir); int64_t cases = scale >= 2 ? 40 : 5;
    for (int64_t ci = 0; ci < cases; ci++) { tgen_t gp = {10, ci % 4 == 3 ? 6000 : 700, 0, -1, -1, T_CODECS[ci % 5], (ci % 3 == 0) ? 64 : 1024, 1 + (int)(ci % 3)}; table_t* t = tbl_generate(&R, &gp); if (t->ncols < 2) { tbl_free(t); gp.max_cols = 12; t = tbl_generate(&R, &gp); } twrite_result_t wr; unlink(path);
        if (!tbl_write_path(&R, t, path, &wr) || !wr.all_ok) { v_count("writer_refused"); tbl_free(t); continue; }
        batch_file(path, "carquet-written", t->codec, t->ncols, ci, scale);
        unlink(path); tbl_free(t); }
    /* large pages: 5 columns x 40 000 (thorough 70 000) INT64 values = 320 (560) KiB per page, uncompressed and SNAPPY */
    for (int q = 0; q < 2; q++) { table_t* t = big_page_table(5, scale >= 2 ? 70000 : 40000, q ? CARQUET_COMPRESSION_SNAPPY : CARQUET_COMPRESSION_UNCOMPRESSED); twrite_result_t wr; unlink(path);
        if (tbl_write_path(&R, t, path, &wr) && wr.all_ok) { batch_file(path, "carquet-written-large-pages", t->codec, t->ncols, 1000 + q, 1); v_count("files_with_pages_over_256KiB"); } else v_count("writer_refused");
        unlink(path); tbl_free(t); }
    v_sample("batch: %lld files (2..12 columns, several pages per chunk, 5 codecs) x {fread,mmap,buffer} x threads {2,3,4,8,16} x repetitions, each compared line by line with the 1-thread transcript of the same file/mode/batch size", (long long)cases);
}

/* ---- concurrent first use ----------------------------------------------------------------------------------------- */
typedef struct { const char* path; int mode; tx_t tx; pthread_barrier_t* bar; int ok; } fu_arg_t;
static void handle_transcript(ropen_t* op, tx_t* x);
static void whole_file_transcript(const char* path, int mode, tx_t* x, int* ok) { carquet_error_t err = CARQUET_ERROR_INIT; ropen_t o; if (!rd_open(&o, path, mode, 1, 1, &err)) { tx_add(x, "open FAILED %d", err.code); *ok = 0; return; } *ok = 1; handle_transcript(&o, x); rd_close(&o); }
static void handle_transcript(ropen_t* op, tx_t* x) { carquet_error_t err = CARQUET_ERROR_INIT; ropen_t o = *op;
    const carquet_schema_t* s = carquet_reader_schema(o.rd); int ng = carquet_reader_num_row_groups(o.rd), nc = carquet_reader_num_columns(o.rd); tx_add(x, "rows=%lld groups=%d cols=%d", (long long)carquet_reader_num_rows(o.rd), ng, nc);
    for (int g = 0; g < ng; g++) for (int c = 0; c < nc; c++) { carquet_column_reader_t* cr = carquet_reader_get_column(o.rd, g, c, &err); if (!cr) { tx_add(x, "get %d %d FAILED", g, c); continue; } int e = s->leaf_indices[c]; int type = s->elements[e].has_type ? (int)s->elements[e].type : 6; int32_t tl = s->elements[e].type_length; int16_t md = s->max_def_levels[c];
        size_t aes = type == CARQUET_PHYSICAL_BYTE_ARRAY ? sizeof(carquet_byte_array_t) : type == 0 ? 1 : type == 1 || type == 4 ? 4 : type == 3 ? 12 : type == 7 ? (size_t)tl : 8;
        while (carquet_column_has_next(cr)) { int64_t k = 257; void* v = malloc((size_t)k * aes + 1); int16_t* d = malloc((size_t)k * 2); int64_t n = carquet_column_read_batch(cr, v, k, d, NULL); if (n <= 0) { tx_add(x, "read %d %d -> %lld", g, c, (long long)n); free(v); free(d); break; } int64_t nn = 0; for (int64_t q = 0; q < n; q++) if (d[q] == md) nn++; tx_add(x, "c %d %d n=%lld d=%llx v=%llx", g, c, (long long)n, (unsigned long long)v_hash(d, (size_t)n * 2, 3), (unsigned long long)tx_hash_values(type, tl, v, nn)); free(v); free(d); }
        carquet_column_reader_free(cr); }
    batch_transcript(o.rd, 1, 333, NULL, 0, x); }
static void* fu_thread(void* p) { fu_arg_t* a = p; pthread_barrier_wait(a->bar); whole_file_transcript(a->path, a->mode, &a->tx, &a->ok); return NULL; }
static void firstuse_section(int nthreads, const char* path) { pthread_barrier_t bar; pthread_barrier_init(&bar, NULL, (unsigned)nthreads); fu_arg_t args[16]; pthread_t th[16]; char la[300], lb[300], key[160];
    /* NOTE: no carquet call has happened in this process yet (main() skips carquet_init for this mode) */
    for (int i = 0; i < nthreads; i++) { memset(&args[i], 0, sizeof args[i]); args[i].path = path; args[i].mode = i % 3; args[i].bar = &bar; pthread_create(&th[i], NULL, fu_thread, &args[i]); }
    for (int i = 0; i < nthreads; i++) pthread_join(th[i], NULL);
    for (int mode = 0; mode < 3; mode++) { tx_t solo = {0}; int ok = 0; whole_file_transcript(path, mode, &solo, &ok);
        for (int i = 0; i < nthreads; i++) if (args[i].mode == mode) { v_case(v_hash(path, strlen(path), (uint64_t)i * 31 + (uint64_t)nthreads)); v_count("concurrent_first_use_readers"); if (!tx_equal(&solo, &args[i].tx, la, lb, sizeof la)) { snprintf(key, sizeof key, "first-use:concurrent-reader-differs-from-solo:%s", IO_NAME[mode]); v_viol(key, "threads=%d reader %d: solo[%s] concurrent[%s]", nthreads, i, la, lb); } }
        free(solo.p); }
    for (int i = 0; i < nthreads; i++) free(args[i].tx.p); }

/* ---- reader pool: one thread opens N handles, N other threads use one each at the same time ------------------------------
 * ("independent reader handles ... used concurrently from different threads ... each return the same content as when used alone").
 * Nothing a handle owns may be shared with another handle through the thread that opened it. */
typedef struct { ropen_t o; tx_t tx; pthread_barrier_t* bar; const char* path; int mode; } pool_arg_t;
static void* pool_thread(void* p) { pool_arg_t* a = p; pthread_barrier_wait(a->bar); handle_transcript(&a->o, &a->tx); return NULL; }
static void pool_section(int nthreads, const char* listfile) { char* paths[64]; int np = 0; FILE* lf = fopen(listfile, "r"); if (!lf) exit(2); char line[700]; while (np < 64 && fgets(line, sizeof line, lf)) { line[strcspn(line, "\n")] = 0; if (line[0]) paths[np++] = strdup(line); } fclose(lf); if (!np) exit(2);
    char la[300], lb[300], key[160]; if (nthreads > 16) nthreads = 16;
    for (int round = 0; round < np; round++) { pthread_barrier_t bar; pthread_barrier_init(&bar, NULL, (unsigned)nthreads); pool_arg_t args[16]; pthread_t th[16]; int opened = 0; int same = (int)vrng_below(&R, 3) == 0;
        for (int i = 0; i < nthreads; i++) { memset(&args[i], 0, sizeof args[i]); args[i].path = paths[(round + (same ? 0 : i)) % np]; args[i].mode = (int)vrng_below(&R, 4) ? IO_FREAD : (int)vrng_below(&R, 3); args[i].bar = &bar; carquet_error_t err = CARQUET_ERROR_INIT; if (!rd_open(&args[i].o, args[i].path, args[i].mode, 1, 1, &err)) { args[i].o.rd = NULL; } else opened++; }
        if (opened != nthreads) { for (int i = 0; i < nthreads; i++) if (args[i].o.rd) rd_close(&args[i].o); v_count("pool_rounds_with_refused_file"); pthread_barrier_destroy(&bar); continue; }
        for (int i = 0; i < nthreads; i++) pthread_create(&th[i], NULL, pool_thread, &args[i]);
        for (int i = 0; i < nthreads; i++) pthread_join(th[i], NULL);
        for (int i = 0; i < nthreads; i++) rd_close(&args[i].o);
        for (int i = 0; i < nthreads; i++) { tx_t solo = {0}; int ok = 0; whole_file_transcript(args[i].path, args[i].mode, &solo, &ok); v_case(v_hash(args[i].path, strlen(args[i].path), (uint64_t)i * 131 + (uint64_t)round)); v_count("pool_handles_used_concurrently");
            if (!tx_equal(&solo, &args[i].tx, la, lb, sizeof la)) { snprintf(key, sizeof key, "pool:handle-opened-elsewhere-differs-from-solo:%s", IO_NAME[args[i].mode]); v_viol(key, "%d handles opened by one thread, used by %d threads (%s files): handle %d on %s: solo[%s] pooled[%s]", nthreads, nthreads, same ? "same" : "different", i, args[i].path, la, lb); }
            free(solo.p); free(args[i].tx.p); }
        /* two handles interleaved on ONE thread: column by column, alternating */
        { ropen_t a, b; carquet_error_t err = CARQUET_ERROR_INIT; const char* pa = paths[round], *pb = paths[(round + 1) % np]; if (rd_open(&a, pa, IO_FREAD, 1, 1, &err)) { if (rd_open(&b, pb, IO_FREAD, 1, 1, &err)) {
            tx_t ta = {0}, tb = {0}, sa = {0}, sb = {0}; carquet_batch_reader_config_t cfg; carquet_batch_reader_config_init(&cfg); cfg.batch_size = 97; carquet_batch_reader_t* ba = carquet_batch_reader_create(a.rd, &cfg, &err); carquet_batch_reader_t* bb = carquet_batch_reader_create(b.rd, &cfg, &err);
            if (ba && bb) { int da = 0, db = 0, na = 0, nb = 0; while (!da || !db) { if (!da && !bt_step(ba, a.rd, NULL, &ta, &na)) da = 1; if (!db && !bt_step(bb, b.rd, NULL, &tb, &nb)) db = 1; } }
            if (ba) carquet_batch_reader_free(ba); if (bb) carquet_batch_reader_free(bb); rd_close(&b); rd_close(&a);
            for (int w = 0; w < 2; w++) { ropen_t o; if (!rd_open(&o, w ? pb : pa, IO_FREAD, 1, 1, &err)) continue; carquet_batch_reader_t* br = carquet_batch_reader_create(o.rd, &cfg, &err); tx_t* t = w ? &sb : &sa; if (br) { int n0 = 0; while (bt_step(br, o.rd, NULL, t, &n0)) {} carquet_batch_reader_free(br); } rd_close(&o); }
            v_count("interleaved_handle_pairs_on_one_thread");
            if (!tx_equal(&sa, &ta, la, lb, sizeof la)) v_viol("pool:interleaved-handles-on-one-thread-differ-from-solo", "%s interleaved with %s: solo[%s] interleaved[%s]", pa, pb, la, lb);
            if (!tx_equal(&sb, &tb, la, lb, sizeof la)) v_viol("pool:interleaved-handles-on-one-thread-differ-from-solo", "%s interleaved with %s: solo[%s] interleaved[%s]", pb, pa, la, lb);
            free(ta.p); free(tb.p); free(sa.p); free(sb.p); } else rd_close(&a); } }
        pthread_barrier_destroy(&bar); }
    for (int i = 0; i < np; i++) free(paths[i]); }

int main(int argc, char** argv) {
    if (argc < 5) return 2; uint64_t seed = strtoull(argv[2], 0, 10); vrng_seed(&R, seed * 2713 + 3);
    const char* dl = getenv("CQV_IO_DELAY_PERMILLE"); DELAY_PM = dl ? atoi(dl) : 0; if (getenv("CQV_IO_LOG")) { EV = calloc(MAXEV, sizeof(ioev_t)); }
    if (!strcmp(argv[1], "batch")) { (void)carquet_init(); batch_section(atoi(argv[3]), argv[4]); }
    else if (!strcmp(argv[1], "firstuse")) firstuse_section(atoi(argv[3]), argv[4]);
    else if (!strcmp(argv[1], "pool")) { (void)carquet_init(); pool_section(atoi(argv[3]), argv[4]); }
    else if (!strcmp(argv[1], "batchfiles")) { (void)carquet_init(); /* argv[4] = list file: one parquet path per line (reference-written: dictionary pages, checksums, nesting, all codecs) */
        FILE* lf = fopen(argv[4], "r"); if (!lf) return 2; char line[700]; int64_t ci = 0; while (fgets(line, sizeof line, lf)) { line[strcspn(line, "\n")] = 0; if (!line[0]) continue; carquet_error_t err = CARQUET_ERROR_INIT; carquet_reader_t* rd = carquet_reader_open(line, NULL, &err); if (!rd) { v_count("reference_files_refused_at_open"); continue; }
            int nc = carquet_reader_num_columns(rd); int codec = 0; { carquet_row_group_metadata_t m; (void)m; const parquet_file_metadata_t* md = &rd->metadata; if (md->num_row_groups > 0 && md->row_groups[0].num_columns > 0 && md->row_groups[0].columns[0].has_metadata) codec = (int)md->row_groups[0].columns[0].metadata.codec; } carquet_reader_close(rd);
            batch_file(line, "reference-written", codec, nc, ci++, atoi(argv[3])); v_count("reference_written_files"); } fclose(lf); }
    else return 2;
    v_finish(); return 0;
}
