/* C15: every SIMD kernel equals its scalar definition at every ISA level; guard pages decide
 * reads/writes outside [0,count). usage: c15 <direct-sse|direct-avx2|direct-avx512|dispatch> <seed> <scale>
 * (dispatch mode: the capability cap is taken from CARQUET_VERIF_CPU_CAP in the environment) */
#define _GNU_SOURCE
#include "vdrv.h"
#include <carquet/carquet.h>
#include <sys/mman.h>
#include <signal.h>
#include <setjmp.h>
#include <unistd.h>

/* ---- kernel prototypes ------------------------------------------------------------------ */
#define DECL_SET(P) \
 void carquet_##P##_prefix_sum_i32(int32_t*, int64_t, int32_t); void carquet_##P##_prefix_sum_i64(int64_t*, int64_t, int64_t); \
 void carquet_##P##_gather_i32(const int32_t*, const uint32_t*, int64_t, int32_t*); void carquet_##P##_gather_i64(const int64_t*, const uint32_t*, int64_t, int64_t*); \
 void carquet_##P##_gather_float(const float*, const uint32_t*, int64_t, float*); void carquet_##P##_gather_double(const double*, const uint32_t*, int64_t, double*); \
 void carquet_##P##_unpack_bools(const uint8_t*, uint8_t*, int64_t); void carquet_##P##_pack_bools(const uint8_t*, uint8_t*, int64_t); \
 int64_t carquet_##P##_find_run_length_i32(const int32_t*, int64_t);
DECL_SET(sse) DECL_SET(avx2) DECL_SET(avx512) DECL_SET(dispatch)
void carquet_sse_byte_stream_split_encode_float(const float*, int64_t, uint8_t*); void carquet_sse_byte_stream_split_decode_float(const uint8_t*, int64_t, float*);
void carquet_sse_byte_stream_split_encode_double(const double*, int64_t, uint8_t*); void carquet_sse_byte_stream_split_decode_double(const uint8_t*, int64_t, double*);
void carquet_avx2_byte_stream_split_encode_float(const float*, int64_t, uint8_t*); void carquet_avx2_byte_stream_split_decode_float(const uint8_t*, int64_t, float*);
void carquet_avx2_byte_stream_split_encode_double(const double*, int64_t, uint8_t*); void carquet_avx2_byte_stream_split_decode_double(const uint8_t*, int64_t, double*);
void carquet_avx512_byte_stream_split_encode_float(const float*, int64_t, uint8_t*); void carquet_avx512_byte_stream_split_decode_float(const uint8_t*, int64_t, float*);
void carquet_dispatch_byte_split_encode_float(const float*, int64_t, uint8_t*); void carquet_dispatch_byte_split_decode_float(const uint8_t*, int64_t, float*);
void carquet_dispatch_byte_split_encode_double(const double*, int64_t, uint8_t*); void carquet_dispatch_byte_split_decode_double(const uint8_t*, int64_t, double*);
uint32_t carquet_sse_crc32c(uint32_t, const uint8_t*, size_t); uint32_t carquet_dispatch_crc32c(uint32_t, const uint8_t*, size_t);
void carquet_sse_match_copy(uint8_t*, const uint8_t*, size_t, size_t); void carquet_dispatch_match_copy(uint8_t*, const uint8_t*, size_t, size_t);
size_t carquet_sse_match_length(const uint8_t*, const uint8_t*, const uint8_t*); size_t carquet_dispatch_match_length(const uint8_t*, const uint8_t*, const uint8_t*);
int64_t carquet_sse_count_non_nulls(const int16_t*, int64_t, int16_t); int64_t carquet_dispatch_count_non_nulls(const int16_t*, int64_t, int16_t);
void carquet_sse_build_null_bitmap(const int16_t*, int64_t, int16_t, uint8_t*); void carquet_dispatch_build_null_bitmap(const int16_t*, int64_t, int16_t, uint8_t*);
void carquet_sse_fill_def_levels(int16_t*, int64_t, int16_t); void carquet_dispatch_fill_def_levels(int16_t*, int64_t, int16_t);
void carquet_sse_memset_small(void*, uint8_t, size_t); void carquet_sse_memcpy_small(void*, const void*, size_t);
void carquet_avx2_memset(void*, uint8_t, size_t); void carquet_avx2_memcpy(void*, const void*, size_t);
void carquet_avx512_memset(void*, uint8_t, size_t); void carquet_avx512_memcpy(void*, const void*, size_t);
void carquet_sse_bitunpack32_1bit(const uint8_t*, uint32_t*); void carquet_sse_bitunpack8_4bit(const uint8_t*, uint32_t*); void carquet_sse_bitunpack8_8bit(const uint8_t*, uint32_t*);
void carquet_avx2_bitunpack64_1bit(const uint8_t*, uint32_t*); void carquet_avx2_bitunpack16_4bit(const uint8_t*, uint32_t*); void carquet_avx2_bitunpack16_8bit(const uint8_t*, uint32_t*); void carquet_avx2_bitunpack8_16bit(const uint8_t*, uint32_t*);
void carquet_avx512_bitunpack32_8bit(const uint8_t*, uint32_t*); void carquet_avx512_bitunpack16_16bit(const uint8_t*, uint32_t*); void carquet_avx512_bitunpack32_4bit(const uint8_t*, uint32_t*);

static vrng_t R;
static const char* ISA = "?";
static int MAXC = 130;
/* after the dense range 0..MAXC a few large counts follow (lane counters of 8/16 bits, 32-bit byte offsets, block loops): only with
 * the two flush placements, so that the pass stays cheap */
static const int64_t BIGC[] = {255, 256, 257, 65536, 65537, 524288, 4095, 4096, 4097, 65535, 524287, 524289, 1048577}; static int NBIG = 6;   /* thorough: all 13 */ static volatile int BIGN = 0;
static int64_t nth_count(int i) { if (i <= MAXC) { BIGN = 0; return i; } i -= MAXC + 1; if (i < NBIG) { BIGN = 1; return BIGC[i]; } BIGN = 0; return -1; }
#define FOR_N(n) for (int64_t n = 0, _ni = 0; (n = nth_count((int)_ni)) >= 0; _ni++)
static const int MIS_Q[] = {1, 3, 15, 16, 31, 63}; static int NMIS = 6; static int MIS_ALL = 0;

/* ---- guard-paged regions ------------------------------------------------------------------ */
static size_t AREA = 24 * 4096;   /* grown when the large-count pass is enabled */
#define WIN 192
typedef struct { uint8_t* base; } region_t;
static region_t RG[4];
static size_t PG;
static void region_init(region_t* r) {
    uint8_t* m = mmap(NULL, AREA + 2 * PG, PROT_READ | PROT_WRITE, MAP_PRIVATE | MAP_ANONYMOUS, -1, 0);
    if (m == MAP_FAILED) { perror("mmap"); exit(2); }
    mprotect(m, PG, PROT_NONE); mprotect(m + PG + AREA, PG, PROT_NONE);
    r->base = m + PG; memset(r->base, 0xC5, AREA);
}
typedef struct { uint8_t* p; size_t n; region_t* r; } gb_t;
/* placement 0: end flush against trailing guard; 1: start flush against leading guard; 2+k: mid-area with misalignment */
static gb_t gplace(int role, size_t n, int placement, int mis) {
    region_t* r = &RG[role]; gb_t g; g.n = n; g.r = r;
    if (n > AREA - 2 * 4096) { fprintf(stderr, "driver: array too large\n"); exit(2); }
    if (placement == 0) g.p = r->base + AREA - n; else if (placement == 1) g.p = r->base; else g.p = r->base + 4096 + (size_t)mis;
    uint8_t* lo = g.p - WIN < r->base ? r->base : g.p - WIN; uint8_t* hi = g.p + n + WIN > r->base + AREA ? r->base + AREA : g.p + n + WIN;
    for (uint8_t* q = lo; q < g.p; q++) *q = (uint8_t)(0xC5 ^ (uintptr_t)q);
    for (uint8_t* q = g.p + n; q < hi; q++) *q = (uint8_t)(0xC5 ^ (uintptr_t)q);
    return g;
}
static int gcheck(gb_t g) {   /* 0 ok, 1 canary damaged */
    region_t* r = g.r; uint8_t* lo = g.p - WIN < r->base ? r->base : g.p - WIN; uint8_t* hi = g.p + g.n + WIN > r->base + AREA ? r->base + AREA : g.p + g.n + WIN;
    for (uint8_t* q = lo; q < g.p; q++) if (*q != (uint8_t)(0xC5 ^ (uintptr_t)q)) return 1;
    for (uint8_t* q = g.p + g.n; q < hi; q++) if (*q != (uint8_t)(0xC5 ^ (uintptr_t)q)) return 1;
    return 0;
}

/* ---- fault capture --------------------------------------------------------------------------- */
static sigjmp_buf JB; static volatile int ARMED = 0; static const char* CUR = "?"; static volatile int64_t CURN = 0; static volatile int CURPL = 0;
static void on_fault(int sig, siginfo_t* si, void* u) { (void)u; if (ARMED) { ARMED = 0; siglongjmp(JB, sig); } signal(sig, SIG_DFL); raise(sig); }
#define GUARDED(call) do { ARMED = 1; int _sg = sigsetjmp(JB, 1); if (_sg == 0) { call; ARMED = 0; } else { char _k[128]; snprintf(_k, sizeof _k, "simd:guard-page-fault:%s:%s", CUR, ISA); \
    v_viol(_k, "signal=%d count=%lld placement=%s", _sg, (long long)CURN, CURPL == 0 ? "end-flush" : CURPL == 1 ? "start-flush" : "mid"); faulted = 1; } } while (0)
static void bad(const char* kind, int64_t n, int pl, int mis) { char k[128]; snprintf(k, sizeof k, "simd:%s:%s:%s", kind, CUR, ISA); v_viol(k, "count=%lld placement=%d misalign=%d", (long long)n, pl, mis); }
#define PLACEMENTS(...) for (int pl = 0; pl < (BIGN ? 2 : 2 + (MIS_ALL ? 63 : NMIS)); pl++) { int mis = pl < 2 ? 0 : (MIS_ALL ? pl - 1 : MIS_Q[pl - 2]); int plc = pl < 2 ? pl : 2; CURPL = plc; int faulted = 0; (void)faulted; __VA_ARGS__ }
#define CASEH(ptr, len, salt) v_case((len) >= 2 ? v_hash((ptr), (len), (uint64_t)(salt) * 1000003ULL + (uint64_t)plc * 97 + (uint64_t)mis) : 0)

/* ---- scalar definitions restated ---------------------------------------------------------------- */
static uint32_t ref_crc32c(uint32_t crc, const uint8_t* d, size_t n) { crc = ~crc; for (size_t i = 0; i < n; i++) { crc ^= d[i]; for (int k = 0; k < 8; k++) crc = (crc >> 1) ^ (0x82F63B78u & (0u - (crc & 1))); } return ~crc; }

typedef void (*psum32_fn)(int32_t*, int64_t, int32_t);
static void t_psum32(psum32_fn f) { CUR = "prefix_sum_i32";
    FOR_N(n) for (int law = 0; law < 3; law++) PLACEMENTS({ CURN = n;
        gb_t g = gplace(0, (size_t)n * 4, plc, mis); int32_t* v = (int32_t*)g.p; uint32_t* ref = malloc((size_t)n * 4 + 4);
        int32_t init = law == 1 ? INT32_MAX : (int32_t)vrng_u64(&R); uint32_t s = (uint32_t)init;
        for (int64_t i = 0; i < n; i++) { int32_t x = law == 0 ? (int32_t)vrng_u64(&R) : law == 1 ? INT32_MAX : (int32_t)vrng_range(&R, -3, 3); memcpy(&v[i], &x, 4); s += (uint32_t)x; ref[i] = s; }
        CASEH(ref, (size_t)n * 4, 1);
        GUARDED(f(v, n, init));
        if (!faulted) { if (n && memcmp(v, ref, (size_t)n * 4)) bad("result-differs", n, plc, mis); if (gcheck(g)) bad("write-outside", n, plc, mis); }
        free(ref); }) }
typedef void (*psum64_fn)(int64_t*, int64_t, int64_t);
static void t_psum64(psum64_fn f) { CUR = "prefix_sum_i64";
    FOR_N(n) for (int law = 0; law < 3; law++) PLACEMENTS({ CURN = n;
        gb_t g = gplace(0, (size_t)n * 8, plc, mis); int64_t* v = (int64_t*)g.p; uint64_t* ref = malloc((size_t)n * 8 + 8);
        int64_t init = law == 1 ? INT64_MAX : (int64_t)vrng_u64(&R); uint64_t s = (uint64_t)init;
        for (int64_t i = 0; i < n; i++) { int64_t x = law == 0 ? (int64_t)vrng_u64(&R) : law == 1 ? INT64_MAX : vrng_range(&R, -3, 3); memcpy(&v[i], &x, 8); s += (uint64_t)x; ref[i] = s; }
        CASEH(ref, (size_t)n * 8, 2);
        GUARDED(f(v, n, init));
        if (!faulted) { if (n && memcmp(v, ref, (size_t)n * 8)) bad("result-differs", n, plc, mis); if (gcheck(g)) bad("write-outside", n, plc, mis); }
        free(ref); }) }

#define T_GATHER(NAME, T, FNT, SALT) typedef void (*FNT)(const T*, const uint32_t*, int64_t, T*); \
static void NAME(FNT f, const char* nm) { CUR = nm; \
    FOR_N(n) for (int law = 0; law < 3; law++) PLACEMENTS({ CURN = n; \
        size_t D = law == 0 ? 1 + vrng_below(&R, 300) : law == 1 ? 1 : 1 + vrng_below(&R, 5); \
        gb_t gd = gplace(0, D * sizeof(T), (pl & 1) ? 1 : 0, 0); gb_t gi = gplace(1, (size_t)n * 4, plc, mis); gb_t go = gplace(2, (size_t)n * sizeof(T), plc, mis); \
        vrng_bytes(&R, gd.p, D * sizeof(T)); uint32_t* idx = (uint32_t*)gi.p; T* ref = malloc((size_t)n * sizeof(T) + 8); \
        for (int64_t i = 0; i < n; i++) { uint32_t k = law == 2 ? (uint32_t)(D - 1) : (uint32_t)vrng_below(&R, D); memcpy(&idx[i], &k, 4); memcpy(&ref[i], gd.p + (size_t)k * sizeof(T), sizeof(T)); } \
        CASEH(gi.p, (size_t)n * 4, SALT + D); \
        GUARDED(f((const T*)gd.p, idx, n, (T*)go.p)); \
        if (!faulted) { if (n && memcmp(go.p, ref, (size_t)n * sizeof(T))) bad("result-differs", n, plc, mis); if (gcheck(go)) bad("write-outside", n, plc, mis); } \
        free(ref); }) }
T_GATHER(t_gather32, int32_t, g32_fn, 3) T_GATHER(t_gather64, int64_t, g64_fn, 4) T_GATHER(t_gatherf, float, gf_fn, 5) T_GATHER(t_gatherd, double, gd_fn, 6)

#define T_BSS(NAME, T, W, ENCT, DECT) typedef void (*ENCT)(const T*, int64_t, uint8_t*); typedef void (*DECT)(const uint8_t*, int64_t, T*); \
static void NAME##_enc(ENCT f, const char* nm) { CUR = nm; \
    FOR_N(n) for (int law = 0; law < 2; law++) PLACEMENTS({ CURN = n; size_t sz = (size_t)n * W; \
        gb_t gi = gplace(0, sz, plc, mis); gb_t go = gplace(1, sz, plc, mis); vrng_bytes(&R, gi.p, sz); if (law) for (size_t i = 0; i < sz; i++) gi.p[i] = (uint8_t)(i * 37 + 1); \
        uint8_t* ref = malloc(sz + 8); for (int64_t i = 0; i < n; i++) for (int b = 0; b < W; b++) ref[(size_t)b * (size_t)n + (size_t)i] = gi.p[(size_t)i * W + (size_t)b]; \
        CASEH(gi.p, sz, 7 + W); GUARDED(f((const T*)gi.p, n, go.p)); \
        if (!faulted) { if (sz && memcmp(go.p, ref, sz)) bad("result-differs", n, plc, mis); if (gcheck(go)) bad("write-outside", n, plc, mis); } free(ref); }) } \
static void NAME##_dec(DECT f, const char* nm) { CUR = nm; \
    FOR_N(n) for (int law = 0; law < 2; law++) PLACEMENTS({ CURN = n; size_t sz = (size_t)n * W; \
        gb_t gi = gplace(0, sz, plc, mis); gb_t go = gplace(1, sz, plc, mis); vrng_bytes(&R, gi.p, sz); if (law) for (size_t i = 0; i < sz; i++) gi.p[i] = (uint8_t)(i * 41 + 3); \
        uint8_t* ref = malloc(sz + 8); for (int64_t i = 0; i < n; i++) for (int b = 0; b < W; b++) ref[(size_t)i * W + (size_t)b] = gi.p[(size_t)b * (size_t)n + (size_t)i]; \
        CASEH(gi.p, sz, 9 + W); GUARDED(f(gi.p, n, (T*)go.p)); \
        if (!faulted) { if (sz && memcmp(go.p, ref, sz)) bad("result-differs", n, plc, mis); if (gcheck(go)) bad("write-outside", n, plc, mis); } free(ref); }) }
T_BSS(t_bssf, float, 4, bef_fn, bdf_fn) T_BSS(t_bssd, double, 8, bed_fn, bdd_fn)

typedef void (*bools_fn)(const uint8_t*, uint8_t*, int64_t);
static void t_unpack_bools(bools_fn f) { CUR = "unpack_bools";
    FOR_N(n) for (int law = 0; law < 2; law++) PLACEMENTS({ CURN = n; size_t ib = (size_t)(n + 7) / 8;
        gb_t gi = gplace(0, ib, plc, mis); gb_t go = gplace(1, (size_t)n, plc, mis); vrng_bytes(&R, gi.p, ib); if (law) memset(gi.p, 0xFF, ib);
        uint8_t* ref = malloc((size_t)n + 8); for (int64_t i = 0; i < n; i++) ref[i] = (gi.p[i / 8] >> (i % 8)) & 1;
        CASEH(gi.p, ib, 11 + n); GUARDED(f(gi.p, go.p, n));
        if (!faulted) { if (n && memcmp(go.p, ref, (size_t)n)) bad("result-differs", n, plc, mis); if (gcheck(go)) bad("write-outside", n, plc, mis); } free(ref); }) }
static void t_pack_bools(bools_fn f) { CUR = "pack_bools";
    FOR_N(n) for (int law = 0; law < 2; law++) PLACEMENTS({ CURN = n; size_t ob = (size_t)(n + 7) / 8;
        gb_t gi = gplace(0, (size_t)n, plc, mis); gb_t go = gplace(1, ob, plc, mis); for (int64_t i = 0; i < n; i++) gi.p[i] = law ? 1 : (uint8_t)(vrng_u64(&R) & 1);
        uint8_t* ref = calloc(ob + 8, 1); for (int64_t i = 0; i < n; i++) if (gi.p[i]) ref[i / 8] |= (uint8_t)(1u << (i % 8));
        memset(go.p, 0xEE, ob); CASEH(gi.p, (size_t)n, 12); GUARDED(f(gi.p, go.p, n));
        if (!faulted) { if (ob && memcmp(go.p, ref, ob)) bad("result-differs", n, plc, mis); if (gcheck(go)) bad("write-outside", n, plc, mis); } free(ref); }) }
typedef int64_t (*frl_fn)(const int32_t*, int64_t);
static void t_find_run(frl_fn f) { CUR = "find_run_length_i32";
    for (int64_t n = 0; n <= MAXC; n++) for (int64_t brk = 0; brk <= n; brk++) { if (n > 40 && brk != n && (brk * 7 + n) % 5 && brk > 20 && brk < n - 20) continue; PLACEMENTS({ CURN = n;
        gb_t g = gplace(0, (size_t)n * 4, plc, mis); int32_t* v = (int32_t*)g.p; int32_t first = (int32_t)vrng_u64(&R);
        for (int64_t i = 0; i < n; i++) { int32_t x = i < brk || i == 0 ? first : (i == brk ? first ^ (1 << (int)vrng_below(&R, 32)) : (int32_t)vrng_u64(&R)); memcpy(&v[i], &x, 4); }
        int64_t want = n == 0 ? 0 : (brk == 0 ? (n > 0 ? 1 : 0) : brk); if (n > 0 && brk == 0) { want = 1; while (want < n && v[want] == v[0]) want++; }
        int64_t got = -1; v_case(n >= 2 ? v_hash(&brk, 8, (uint64_t)n * 131 + (uint64_t)plc * 7 + (uint64_t)mis) : 0); GUARDED(got = f(v, n));
        if (!faulted && got != want) bad("result-differs", n, plc, mis); }) } }
typedef uint32_t (*crc_fn)(uint32_t, const uint8_t*, size_t);
static void t_crc32c(crc_fn f) { CUR = "crc32c";
    FOR_N(n) for (int law = 0; law < 3; law++) PLACEMENTS({ CURN = n;
        gb_t g = gplace(0, (size_t)n, plc, mis); vrng_bytes(&R, g.p, (size_t)n); if (law == 1) memset(g.p, 0, (size_t)n);
        uint32_t init = law == 2 ? (uint32_t)vrng_u64(&R) : 0; uint32_t want = ref_crc32c(init, g.p, (size_t)n), got = 0; CASEH(g.p, (size_t)n, 14 + init); GUARDED(got = f(init, g.p, (size_t)n));
        if (!faulted && got != want) bad("result-differs", n, plc, mis); }) }
typedef void (*mcopy_fn)(uint8_t*, const uint8_t*, size_t, size_t);
static void t_match_copy(mcopy_fn f) { CUR = "match_copy";
    static const size_t offs[] = {1, 2, 3, 4, 5, 7, 8, 9, 15, 16, 17, 31, 32, 33, 40, 64, 100};
    FOR_N(n) for (size_t oi = 0; oi < sizeof offs / sizeof *offs; oi++) PLACEMENTS({ CURN = n; size_t off = offs[oi];
        gb_t g = gplace(0, off + (size_t)n, plc, mis); vrng_bytes(&R, g.p, off); memset(g.p + off, 0xAB, (size_t)n);
        uint8_t* ref = malloc(off + (size_t)n + 8); memcpy(ref, g.p, off); for (int64_t i = 0; i < n; i++) ref[off + (size_t)i] = ref[(size_t)i];
        CASEH(g.p, off, 15 + n); GUARDED(f(g.p + off, g.p, (size_t)n, off));
        if (!faulted) { if (memcmp(g.p, ref, off + (size_t)n)) bad("result-differs", n, plc, mis); if (gcheck(g)) bad("write-outside", n, plc, mis); } free(ref); }) }
typedef size_t (*mlen_fn)(const uint8_t*, const uint8_t*, const uint8_t*);
static void t_match_length(mlen_fn f) { CUR = "match_length";
    for (int64_t n = 0; n <= MAXC; n++) for (int64_t brk = 0; brk <= n; brk++) { if (n > 40 && brk != n && brk > 20 && brk < n - 20 && (brk + n) % 4) continue; PLACEMENTS({ CURN = n;
        /* region: [match .. match+n) then [p .. p+n); limit = p+n flush with the end */
        size_t gap = 1 + vrng_below(&R, 24); gb_t g = gplace(0, gap + 2 * (size_t)n, plc, mis); uint8_t* match = g.p; uint8_t* p = g.p + gap + (size_t)n; (void)match;
        vrng_bytes(&R, g.p, gap + (size_t)n); match = p - (gap + (size_t)n) ; /* match = g.p */
        for (int64_t i = 0; i < n; i++) p[i] = (i == brk) ? (uint8_t)(g.p[i] ^ 0x40) : g.p[i];
        /* self-overlap may extend equality; compute the definition directly */
        size_t want = 0; while (want < (size_t)n && p[want] == g.p[want]) want++;
        size_t got = (size_t)-1; v_case(n >= 2 ? v_hash(&brk, 8, (uint64_t)n * 17 + (uint64_t)plc + (uint64_t)mis * 3) : 0); GUARDED(got = f(p, g.p, p + n));
        if (!faulted && got != want) bad("result-differs", n, plc, mis); }) } }
typedef int64_t (*cnn_fn)(const int16_t*, int64_t, int16_t);
static void t_count_non_nulls(cnn_fn f) { CUR = "count_non_nulls";
    FOR_N(n) for (int law = 0; law < 3; law++) PLACEMENTS({ CURN = n; int16_t mx = law == 2 ? 3 : 1;
        gb_t g = gplace(0, (size_t)n * 2, plc, mis); int16_t* v = (int16_t*)g.p; int64_t want = 0;
        for (int64_t i = 0; i < n; i++) { int16_t x = law == 1 ? mx : (int16_t)vrng_below(&R, (uint64_t)mx + 1); memcpy(&v[i], &x, 2); if (x == mx) want++; }
        int64_t got = -1; CASEH(g.p, (size_t)n * 2, 17 + mx); GUARDED(got = f(v, n, mx)); if (!faulted && got != want) bad("result-differs", n, plc, mis); }) }
typedef void (*bnb_fn)(const int16_t*, int64_t, int16_t, uint8_t*);
static void t_build_null_bitmap(bnb_fn f) { CUR = "build_null_bitmap";
    FOR_N(n) for (int law = 0; law < 3; law++) PLACEMENTS({ CURN = n; int16_t mx = law == 2 ? 3 : 1; size_t ob = (size_t)(n + 7) / 8;
        gb_t g = gplace(0, (size_t)n * 2, plc, mis); gb_t go = gplace(1, ob, plc, mis); int16_t* v = (int16_t*)g.p; uint8_t* ref = calloc(ob + 8, 1); memset(go.p, 0, ob);
        for (int64_t i = 0; i < n; i++) { int16_t x = law == 1 ? 0 : (int16_t)vrng_below(&R, (uint64_t)mx + 1); memcpy(&v[i], &x, 2); if (x < mx) ref[i / 8] |= (uint8_t)(1u << (i % 8)); }
        CASEH(g.p, (size_t)n * 2, 19 + mx); GUARDED(f(v, n, mx, go.p));
        if (!faulted) { if (ob && memcmp(go.p, ref, ob)) bad("result-differs", n, plc, mis); if (gcheck(go)) bad("write-outside", n, plc, mis); } free(ref); }) }
typedef void (*fill_fn)(int16_t*, int64_t, int16_t);
static void t_fill(fill_fn f) { CUR = "fill_def_levels";
    FOR_N(n) PLACEMENTS({ CURN = n; int16_t val = (int16_t)vrng_u64(&R); gb_t g = gplace(0, (size_t)n * 2, plc, mis); memset(g.p, 0x11, (size_t)n * 2);
        v_case(n >= 2 ? v_hash(&val, 2, (uint64_t)n * 3 + (uint64_t)plc + (uint64_t)mis * 5) : 0); GUARDED(f((int16_t*)g.p, n, val)); int ok = 1; for (int64_t i = 0; i < n; i++) { int16_t x; memcpy(&x, g.p + 2 * i, 2); if (x != val) ok = 0; }
        if (!faulted) { if (!ok) bad("result-differs", n, plc, mis); if (gcheck(g)) bad("write-outside", n, plc, mis); } }) }
typedef void (*mset_fn)(void*, uint8_t, size_t); typedef void (*mcpy_fn)(void*, const void*, size_t);
static void t_memset(mset_fn f, const char* nm) { CUR = nm;
    for (int64_t n = 0; n <= MAXC * 3; n++) PLACEMENTS({ CURN = n; uint8_t val = (uint8_t)vrng_u64(&R); gb_t g = gplace(0, (size_t)n, plc, mis); memset(g.p, (uint8_t)~val, (size_t)n);
        v_case(n >= 2 ? v_hash(&val, 1, (uint64_t)n * 3 + (uint64_t)plc + (uint64_t)mis * 5) : 0); GUARDED(f(g.p, val, (size_t)n)); int ok = 1; for (int64_t i = 0; i < n; i++) if (g.p[i] != val) ok = 0;
        if (!faulted) { if (!ok) bad("result-differs", n, plc, mis); if (gcheck(g)) bad("write-outside", n, plc, mis); } }) }
static void t_memcpy(mcpy_fn f, const char* nm) { CUR = nm;
    for (int64_t n = 0; n <= MAXC * 3; n++) PLACEMENTS({ CURN = n; gb_t gi = gplace(0, (size_t)n, plc, mis); gb_t go = gplace(1, (size_t)n, plc, (mis * 7) % 64); vrng_bytes(&R, gi.p, (size_t)n); memset(go.p, 0, (size_t)n);
        CASEH(gi.p, (size_t)n, 23); GUARDED(f(go.p, gi.p, (size_t)n));
        if (!faulted) { if (n && memcmp(go.p, gi.p, (size_t)n)) bad("result-differs", n, plc, mis); if (gcheck(go)) bad("write-outside", n, plc, mis); } }) }
typedef void (*unp_fn)(const uint8_t*, uint32_t*);
static void t_unpack_fixed(unp_fn f, const char* nm, int nvals, int width) { CUR = nm;
    for (int rep = 0; rep < 400; rep++) PLACEMENTS({ CURN = nvals; size_t ib = (size_t)nvals * (size_t)width / 8;
        gb_t gi = gplace(0, ib, plc, mis); gb_t go = gplace(1, (size_t)nvals * 4, plc, mis); vrng_bytes(&R, gi.p, ib); if (rep == 0) memset(gi.p, 0xFF, ib);
        uint32_t ref[64]; for (int i = 0; i < nvals; i++) { uint32_t x = 0; for (int b = 0; b < width; b++) { size_t bit = (size_t)i * (size_t)width + (size_t)b; x |= (uint32_t)((gi.p[bit / 8] >> (bit % 8)) & 1) << b; } ref[i] = x; }
        CASEH(gi.p, ib, 29 + width); GUARDED(f(gi.p, (uint32_t*)go.p));
        if (!faulted) { if (memcmp(go.p, ref, (size_t)nvals * 4)) bad("result-differs", nvals, plc, mis); if (gcheck(go)) bad("write-outside", nvals, plc, mis); } }) }

int main(int argc, char** argv) {
    if (argc < 4) return 2; const char* mode = argv[1]; uint64_t seed = strtoull(argv[2], 0, 10); int scale = atoi(argv[3]);
    PG = (size_t)sysconf(_SC_PAGESIZE); vrng_seed(&R, seed * 31337 + v_hash(mode, strlen(mode), 3));
    if (scale >= 2) { MAXC = 320; MIS_ALL = 1; NBIG = 13; }
    AREA = (size_t)12 * 1024 * 1024;   /* 1048577 elements of 8 bytes + window */
    for (int i = 0; i < 4; i++) region_init(&RG[i]);
    struct sigaction sa; memset(&sa, 0, sizeof sa); sa.sa_sigaction = on_fault; sa.sa_flags = SA_SIGINFO | SA_NODEFER; sigaction(SIGSEGV, &sa, NULL); sigaction(SIGBUS, &sa, NULL); sigaction(SIGILL, &sa, NULL);
    (void)carquet_init(); const carquet_cpu_info_t* ci = carquet_get_cpu_info();
    printf("COUNT cpu_sse42 %d\nCOUNT cpu_avx2 %d\nCOUNT cpu_avx512f %d\nCOUNT cpu_avx512bw %d\n", ci->has_sse42, ci->has_avx2, ci->has_avx512f, ci->has_avx512bw);
    if (!strcmp(mode, "direct-sse")) { ISA = "sse42";
        t_psum32(carquet_sse_prefix_sum_i32); t_psum64(carquet_sse_prefix_sum_i64); t_gather32(carquet_sse_gather_i32, "gather_i32"); t_gather64(carquet_sse_gather_i64, "gather_i64"); t_gatherf(carquet_sse_gather_float, "gather_float"); t_gatherd(carquet_sse_gather_double, "gather_double");
        t_bssf_enc(carquet_sse_byte_stream_split_encode_float, "bss_encode_float"); t_bssf_dec(carquet_sse_byte_stream_split_decode_float, "bss_decode_float"); t_bssd_enc(carquet_sse_byte_stream_split_encode_double, "bss_encode_double"); t_bssd_dec(carquet_sse_byte_stream_split_decode_double, "bss_decode_double");
        t_unpack_bools(carquet_sse_unpack_bools); t_pack_bools(carquet_sse_pack_bools); t_find_run(carquet_sse_find_run_length_i32); t_crc32c(carquet_sse_crc32c); t_match_copy(carquet_sse_match_copy); t_match_length(carquet_sse_match_length);
        t_count_non_nulls(carquet_sse_count_non_nulls); t_build_null_bitmap(carquet_sse_build_null_bitmap); t_fill(carquet_sse_fill_def_levels); t_memset(carquet_sse_memset_small, "memset"); t_memcpy(carquet_sse_memcpy_small, "memcpy");
        t_unpack_fixed(carquet_sse_bitunpack32_1bit, "bitunpack32_1bit", 32, 1); t_unpack_fixed(carquet_sse_bitunpack8_4bit, "bitunpack8_4bit", 8, 4); t_unpack_fixed(carquet_sse_bitunpack8_8bit, "bitunpack8_8bit", 8, 8); v_count_n("kernels_exercised", 24);
    } else if (!strcmp(mode, "direct-avx2")) { ISA = "avx2";
        t_psum32(carquet_avx2_prefix_sum_i32); t_psum64(carquet_avx2_prefix_sum_i64); t_gather32(carquet_avx2_gather_i32, "gather_i32"); t_gather64(carquet_avx2_gather_i64, "gather_i64"); t_gatherf(carquet_avx2_gather_float, "gather_float"); t_gatherd(carquet_avx2_gather_double, "gather_double");
        t_bssf_enc(carquet_avx2_byte_stream_split_encode_float, "bss_encode_float"); t_bssf_dec(carquet_avx2_byte_stream_split_decode_float, "bss_decode_float"); t_bssd_enc(carquet_avx2_byte_stream_split_encode_double, "bss_encode_double"); t_bssd_dec(carquet_avx2_byte_stream_split_decode_double, "bss_decode_double");
        t_unpack_bools(carquet_avx2_unpack_bools); t_pack_bools(carquet_avx2_pack_bools); t_find_run(carquet_avx2_find_run_length_i32); t_memset(carquet_avx2_memset, "memset"); t_memcpy(carquet_avx2_memcpy, "memcpy");
        t_unpack_fixed(carquet_avx2_bitunpack64_1bit, "bitunpack64_1bit", 64, 1); t_unpack_fixed(carquet_avx2_bitunpack16_4bit, "bitunpack16_4bit", 16, 4); t_unpack_fixed(carquet_avx2_bitunpack16_8bit, "bitunpack16_8bit", 16, 8); t_unpack_fixed(carquet_avx2_bitunpack8_16bit, "bitunpack8_16bit", 8, 16); v_count_n("kernels_exercised", 19);
    } else if (!strcmp(mode, "direct-avx512")) { ISA = "avx512";
        t_psum32(carquet_avx512_prefix_sum_i32); t_psum64(carquet_avx512_prefix_sum_i64); t_gather32(carquet_avx512_gather_i32, "gather_i32"); t_gather64(carquet_avx512_gather_i64, "gather_i64"); t_gatherf(carquet_avx512_gather_float, "gather_float"); t_gatherd(carquet_avx512_gather_double, "gather_double");
        t_bssf_enc(carquet_avx512_byte_stream_split_encode_float, "bss_encode_float"); t_bssf_dec(carquet_avx512_byte_stream_split_decode_float, "bss_decode_float");
        t_unpack_bools(carquet_avx512_unpack_bools); t_pack_bools(carquet_avx512_pack_bools); t_find_run(carquet_avx512_find_run_length_i32); t_memset(carquet_avx512_memset, "memset"); t_memcpy(carquet_avx512_memcpy, "memcpy");
        t_unpack_fixed(carquet_avx512_bitunpack32_8bit, "bitunpack32_8bit", 32, 8); t_unpack_fixed(carquet_avx512_bitunpack16_16bit, "bitunpack16_16bit", 16, 16); t_unpack_fixed(carquet_avx512_bitunpack32_4bit, "bitunpack32_4bit", 32, 4); v_count_n("kernels_exercised", 16);
    } else if (!strcmp(mode, "dispatch")) { const char* cap = getenv("CARQUET_VERIF_CPU_CAP"); static char isa[64]; snprintf(isa, sizeof isa, "dispatch@%s", cap ? cap : "native"); ISA = isa;
        /* the hook must have taken effect, otherwise this run observes nothing new */
        if (cap) { int want_sse = strcmp(cap, "scalar") != 0, want_avx2 = !strcmp(cap, "avx2") || !strncmp(cap, "avx512", 6), want_512 = !strncmp(cap, "avx512", 6), want_bw = !strcmp(cap, "avx512");
            if (ci->has_sse42 != want_sse || ci->has_avx2 != want_avx2 || ci->has_avx512f != want_512 || ci->has_avx512bw != want_bw) { fprintf(stderr, "harness: CPU cap %s not reflected by carquet_get_cpu_info (host lacks a feature or hook inactive)\n", cap); return 2; } }
        t_psum32(carquet_dispatch_prefix_sum_i32); t_psum64(carquet_dispatch_prefix_sum_i64); t_gather32(carquet_dispatch_gather_i32, "gather_i32"); t_gather64(carquet_dispatch_gather_i64, "gather_i64"); t_gatherf(carquet_dispatch_gather_float, "gather_float"); t_gatherd(carquet_dispatch_gather_double, "gather_double");
        t_bssf_enc(carquet_dispatch_byte_split_encode_float, "bss_encode_float"); t_bssf_dec(carquet_dispatch_byte_split_decode_float, "bss_decode_float"); t_bssd_enc(carquet_dispatch_byte_split_encode_double, "bss_encode_double"); t_bssd_dec(carquet_dispatch_byte_split_decode_double, "bss_decode_double");
        t_unpack_bools(carquet_dispatch_unpack_bools); t_pack_bools(carquet_dispatch_pack_bools); t_find_run(carquet_dispatch_find_run_length_i32); t_crc32c(carquet_dispatch_crc32c); t_match_copy(carquet_dispatch_match_copy); t_match_length(carquet_dispatch_match_length);
        t_count_non_nulls(carquet_dispatch_count_non_nulls); t_build_null_bitmap(carquet_dispatch_build_null_bitmap); t_fill(carquet_dispatch_fill_def_levels); v_count_n("kernels_exercised", 19);
    } else if (!strncmp(mode, "dispatch-first", 14)) { /* a fresh process whose very first dispatched call is kernel number k (after carquet_init only): the lazily built table must be there for every entry point */
        int k = argc > 4 ? atoi(argv[4]) : 0; static char isa[64]; snprintf(isa, sizeof isa, "dispatch-first-call"); ISA = isa; MAXC = 24; NBIG = 0;
        switch (k) { case 0: t_psum32(carquet_dispatch_prefix_sum_i32); break; case 1: t_psum64(carquet_dispatch_prefix_sum_i64); break; case 2: t_gather32(carquet_dispatch_gather_i32, "gather_i32"); break; case 3: t_gather64(carquet_dispatch_gather_i64, "gather_i64"); break; case 4: t_gatherf(carquet_dispatch_gather_float, "gather_float"); break; case 5: t_gatherd(carquet_dispatch_gather_double, "gather_double"); break;
            case 6: t_bssf_enc(carquet_dispatch_byte_split_encode_float, "bss_encode_float"); break; case 7: t_bssf_dec(carquet_dispatch_byte_split_decode_float, "bss_decode_float"); break; case 8: t_bssd_enc(carquet_dispatch_byte_split_encode_double, "bss_encode_double"); break; case 9: t_bssd_dec(carquet_dispatch_byte_split_decode_double, "bss_decode_double"); break;
            case 10: t_unpack_bools(carquet_dispatch_unpack_bools); break; case 11: t_pack_bools(carquet_dispatch_pack_bools); break; case 12: t_find_run(carquet_dispatch_find_run_length_i32); break; case 13: t_crc32c(carquet_dispatch_crc32c); break; case 14: t_match_copy(carquet_dispatch_match_copy); break; case 15: t_match_length(carquet_dispatch_match_length); break;
            case 16: t_count_non_nulls(carquet_dispatch_count_non_nulls); break; case 17: t_build_null_bitmap(carquet_dispatch_build_null_bitmap); break; default: t_fill(carquet_dispatch_fill_def_levels); break; }
        v_count("dispatch_entry_points_called_first_in_a_process"); v_count_n("kernels_exercised", 1);
    } else return 2;
    v_sample("c15 %s: counts 0..%d x placements {end-flush, start-flush, mid+misalign %s} x value laws; guard pages (PROT_NONE) on both sides, canary windows of %d bytes", ISA, MAXC, MIS_ALL ? "1..63" : "{1,3,15,16,31,63}", WIN);
    v_finish(); return 0;
}
