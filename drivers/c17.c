/* C17: schema trees map to the right leaf columns and def/rep levels.
 * usage: c17 pack <container>      container records: u32 len, parquet bytes, u32 explen, expected text
 *        c17 builder <seed> <scale> */
#include "vdrv.h"
#include <carquet/carquet.h>
#include "reader/reader_internal.h"
static vrng_t R;
typedef struct { char* p; size_t n, cap; } sb_t;
static void sb_add(sb_t* b, const char* fmt, ...) { char tmp[12000]; va_list ap; va_start(ap, fmt); int L = vsnprintf(tmp, sizeof tmp, fmt, ap); va_end(ap); if (L < 0) return; if ((size_t)L >= sizeof tmp) L = sizeof tmp - 1;
    if (b->n + (size_t)L + 2 > b->cap) { b->cap = b->cap ? b->cap * 2 + (size_t)L : 8192; b->p = realloc(b->p, b->cap); } memcpy(b->p + b->n, tmp, (size_t)L); b->n += (size_t)L; b->p[b->n++] = '\n'; b->p[b->n] = 0; }
static void hexname(char* out, size_t cap, const char* s) { size_t n = strlen(s); if (n * 2 + 1 > cap) n = (cap - 1) / 2; static const char* hx = "0123456789abcdef"; for (size_t i = 0; i < n; i++) { out[2 * i] = hx[(uint8_t)s[i] >> 4]; out[2 * i + 1] = hx[(uint8_t)s[i] & 15]; } out[2 * n] = 0; }

static void path_probes(sb_t* b, const carquet_schema_t* s);
static void describe(sb_t* b, const carquet_schema_t* s) { char hn[11000];
    int ne = carquet_schema_num_elements(s), nl = carquet_schema_num_columns(s); sb_add(b, "N %d %d", ne, nl);
    for (int e = 0; e < ne; e++) { const carquet_schema_node_t* n = carquet_schema_get_element(s, e); if (!n) { sb_add(b, "E %d NULL", e); continue; } const carquet_logical_type_t* lt = carquet_schema_node_logical_type(n); hexname(hn, sizeof hn, carquet_schema_node_name(n));
        int leaf = carquet_schema_node_is_leaf(n); sb_add(b, "E %d %d %d %d %d %d %s", e, leaf, leaf ? (int)carquet_schema_node_physical_type(n) : -1, e == 0 ? -1 : (int)carquet_schema_node_repetition(n), leaf ? carquet_schema_node_type_length(n) : 0, lt ? (int)lt->id : -1, hn); }
    for (int l = 0; l < nl; l++) { int e = s->leaf_indices[l]; const carquet_schema_node_t* n = carquet_schema_get_element(s, e); hexname(hn, sizeof hn, n ? carquet_schema_node_name(n) : ""); sb_add(b, "L %d %d %d %d %s", l, e, s->max_def_levels[l], s->max_rep_levels[l], hn);
        /* public per-node accessors for the leaf must agree with the path counts as well */
        if (n) sb_add(b, "A %d %d %d", l, carquet_schema_node_max_def_level(n), carquet_schema_node_max_rep_level(n));
        /* lookup by name returns the first column carrying that name */
        if (n) sb_add(b, "F %d %d", l, carquet_schema_find_column(s, carquet_schema_node_name(n))); }
    if (carquet_schema_get_element(s, ne) != NULL || carquet_schema_get_element(s, -1) != NULL) sb_add(b, "X out-of-range element index not NULL");
    if (carquet_schema_find_column(s, "\x01no-such-column\x02") != -1) sb_add(b, "X find_column of unknown name != -1");
    /* derived probes: every leaf name with its last byte removed, with a byte appended and with the case of its first byte flipped.
     * Expected = first leaf whose whole name equals the probe (brute force over the leaf names, which the L lines above pin to the
     * reference), usually -1: catches prefix, suffix-tolerant and case-insensitive matching. */
    for (int l = 0; l < nl && l < 400; l++) { const carquet_schema_node_t* n = carquet_schema_get_element(s, s->leaf_indices[l]); if (!n) continue; const char* nm = carquet_schema_node_name(n); size_t L = strlen(nm); if (L > 10000) continue; char* pr = malloc(L + 3);
        for (int k = 0; k < 3; k++) { if (k == 0) { if (!L) continue; memcpy(pr, nm, L - 1); pr[L - 1] = 0; } else if (k == 1) { memcpy(pr, nm, L); pr[L] = 'x'; pr[L + 1] = 0; } else { if (!L || !((nm[0] | 32) >= 'a' && (nm[0] | 32) <= 'z')) continue; memcpy(pr, nm, L + 1); pr[0] ^= 32; }
            if (strchr(pr, '.')) { v_count("find_column_derived_probes_skipped_dotted"); continue; }   /* could be some leaf's path: the path probes below cover dotted names */
            int exp = -1; for (int q = 0; q < nl; q++) { const carquet_schema_node_t* m = carquet_schema_get_element(s, s->leaf_indices[q]); if (m && !strcmp(carquet_schema_node_name(m), pr)) { exp = q; break; } }
            int got = carquet_schema_find_column(s, pr); v_count("find_column_derived_probes"); if (got != exp) { sb_add(b, "X find_column(%s of leaf %d's name) = %d, first leaf with exactly that name is %d", k == 0 ? "proper prefix" : k == 1 ? "extension" : "case variant", l, got, exp); break; } }
        free(pr); }
    path_probes(b, s);
}
/* lookup by dot-separated path (carquet.h: 'For nested schemas, use dot-separated paths (e.g., "address.street")'): the path of a leaf is the
 * names of its ancestors below the root and its own name joined by '.'. Expected answer = the first leaf whose own name is the probe
 * (a flat column may be called "a.b"), otherwise the first leaf whose path is the probe. Paths are computed here from the element list
 * (names and child counts, pinned to the reference by the E lines) with an explicit stack. */
static void path_probes(sb_t* b, const carquet_schema_t* s) { int ne = carquet_schema_num_elements(s), nl = carquet_schema_num_columns(s); if (ne < 2 || nl < 1 || nl > 400) return;
    char** path = calloc((size_t)nl, sizeof(char*)); int* rem = calloc((size_t)ne + 1, sizeof(int)); char** pre = calloc((size_t)ne + 1, sizeof(char*)); int depth = 0, leaf = 0; rem[0] = s->elements[0].num_children; pre[0] = strdup("");
    for (int e = 1; e < ne; e++) { while (depth > 0 && rem[depth] <= 0) { free(pre[depth]); depth--; } rem[depth]--; const char* nm = s->elements[e].name ? s->elements[e].name : ""; size_t L = strlen(pre[depth]) + strlen(nm) + 2; char* full = malloc(L); snprintf(full, L, "%s%s%s", pre[depth], depth > 0 ? "." : "", nm);
        if (leaf < nl && s->leaf_indices[leaf] == e) { path[leaf++] = full; } else { depth++; rem[depth] = s->elements[e].num_children; pre[depth] = full; } }
    while (depth >= 0) { free(pre[depth]); depth--; }
    int nested = 0; for (int l = 0; l < leaf; l++) { const char* own = s->elements[s->leaf_indices[l]].name ? s->elements[s->leaf_indices[l]].name : ""; if (strcmp(own, path[l])) nested++; }
    for (int l = 0; l < leaf; l++) { int exp = -1; for (int q = 0; q < nl && exp < 0; q++) { const char* own = s->elements[s->leaf_indices[q]].name; if (own && !strcmp(own, path[l])) exp = q; } for (int q = 0; q < leaf && exp < 0; q++) if (!strcmp(path[q], path[l])) exp = q;
        int got = carquet_schema_find_column(s, path[l]); v_count("find_column_path_probes"); if (got != exp) { sb_add(b, "X find_column(path of leaf %d, %zu bytes) = %d, expected %d", l, strlen(path[l]), got, exp); break; } }
    if (nested) v_count("schemas_with_nested_leaves_probed_by_path");
    for (int l = 0; l < leaf; l++) free(path[l]); free(path); free(rem); free(pre); }
static void first_diff(const char* a, const char* b, char* la, char* lb, size_t cap) { la[0] = lb[0] = 0; while (*a || *b) { const char* ea = strchr(a, '\n'); const char* eb = strchr(b, '\n'); size_t na = ea ? (size_t)(ea - a) : strlen(a), nb = eb ? (size_t)(eb - b) : strlen(b);
        if (na != nb || memcmp(a, b, na)) { snprintf(la, cap, "%.*s", (int)(na < cap - 1 ? na : cap - 1), a); snprintf(lb, cap, "%.*s", (int)(nb < cap - 1 ? nb : cap - 1), b); return; } a = ea ? ea + 1 : a + na; b = eb ? eb + 1 : b + nb; } }

int main(int argc, char** argv) {
    if (argc < 3) return 2; (void)carquet_init();
    if (!strcmp(argv[1], "pack")) { FILE* f = fopen(argv[2], "rb"); if (!f) return 2; int64_t n = 0;
        for (;;) { uint32_t len; if (fread(&len, 4, 1, f) != 1) break; uint8_t* pq = v_exact(len); if (fread(pq, 1, len, f) != len) return 2; uint32_t el; if (fread(&el, 4, 1, f) != 1) return 2; char* exp = v_exact((size_t)el + 1); if (el && fread(exp, 1, el, f) != el) return 2; exp[el] = 0;
            carquet_error_t err = CARQUET_ERROR_INIT; carquet_reader_options_t ro; carquet_reader_options_init(&ro); carquet_reader_t* rd = carquet_reader_open_buffer(pq, len, &ro, &err); v_case(v_hash(exp, el, 3)); n++;
            if (!rd) { v_viol("schema:valid-footer-rejected", "case %lld code=%d %s exp=%.80s", (long long)n, err.code, err.message, exp); }
            else { sb_t d = {0}; describe(&d, carquet_reader_schema(rd)); if (carquet_reader_num_columns(rd) != carquet_schema_num_columns(carquet_reader_schema(rd))) sb_add(&d, "X reader_num_columns != schema_num_columns");
                if (strcmp(d.p, exp)) { char la[300], lb[300], key[96]; first_diff(exp, d.p, la, lb, sizeof la); char kind = la[0] ? la[0] : lb[0]; snprintf(key, sizeof key, "schema:%s", kind == 'N' ? "leaf-or-element-count" : kind == 'E' ? "element-accessor" : kind == 'L' ? "leaf-order-or-levels" : kind == 'A' ? "node-level-accessor" : kind == 'F' ? "find-column" : strstr(lb, "find_column(path") ? "find-column-by-path" : strstr(lb, "find_column(") ? "find-column-derived-probe" : "other"); v_viol(key, "case %lld expected[%s] carquet[%s]", (long long)n, la, lb); }
                if (d.p && strstr(d.p, "\nL ")) v_count("schemas_with_leaves"); free(d.p); carquet_reader_close(rd); }
            free(pq); free(exp); }
        fclose(f); v_count_n("footers_checked", (uint64_t)n);
    } else if (!strcmp(argv[1], "builder")) { uint64_t seed = strtoull(argv[2], 0, 10); int scale = atoi(argv[3]); vrng_seed(&R, seed * 977 + 1); int maxn = scale >= 2 ? 1000 : 300;
        for (int variant = 0; variant < 2; variant++) for (int n = 0; n <= maxn; n += (n < 140 ? 1 : 37)) { carquet_error_t err = CARQUET_ERROR_INIT; carquet_schema_t* s = carquet_schema_create(&err); if (!s) { v_viol("builder:create-failed", "n=%d", n); continue; }
            sb_t exp = {0}; sb_add(&exp, "N %d %d", n + 1, n); sb_add(&exp, "E 0 0 -1 -1 0 -1 736368656d61"); char** names = calloc((size_t)n + 1, sizeof(char*)); int* ty = calloc((size_t)n + 1, sizeof(int)); int* rp = calloc((size_t)n + 1, sizeof(int)); int* tl = calloc((size_t)n + 1, sizeof(int)); int ok = 1; char hn[11000];
            for (int i = 0; i < n && ok; i++) { size_t L = vrng_chance(&R, 1, 60) ? 5000 : 1 + vrng_below(&R, 12); names[i] = malloc(L + 16); for (size_t k = 0; k < L; k++) names[i][k] = (char)('a' + vrng_below(&R, 26)); snprintf(names[i] + L, 15, "_%d", i);
                static const int T[] = {0, 1, 2, 3, 4, 5, 6, 7}; ty[i] = T[vrng_below(&R, 8)]; rp[i] = (int)vrng_below(&R, 3); tl[i] = ty[i] == 7 ? 1 + (int)vrng_below(&R, 64) : 0;
                /* some elements are (empty) groups added at the root - the only nesting the builder offers - in particular the elements that land on a capacity boundary */
                int as_group = variant && (vrng_chance(&R, 1, 8) || i == 63 || i == 127 || i == 255 || i == 511); if (as_group) { ty[i] = -1; tl[i] = 0; int32_t gi = carquet_schema_add_group(s, names[i], (carquet_field_repetition_t)rp[i], 0); if (gi != i + 1) { if (gi < 0) { v_count("builder_refused"); ok = 0; } else { v_viol("builder:add_group-index", "n=%d i=%d returned %d", n, i, gi); ok = 0; } } v_count("builder_groups_added"); continue; }
                if (carquet_schema_add_column(s, names[i], (carquet_physical_type_t)ty[i], NULL, (carquet_field_repetition_t)rp[i], tl[i]) != CARQUET_OK) { v_count("builder_refused"); ok = 0; } }
            if (ok) { int nl = 0; for (int i = 0; i < n; i++) if (ty[i] >= 0) nl++; free(exp.p); exp.p = NULL; exp.n = exp.cap = 0; sb_add(&exp, "N %d %d", n + 1, nl); sb_add(&exp, "E 0 0 -1 -1 0 -1 736368656d61");
                for (int i = 0; i < n; i++) { hexname(hn, sizeof hn, names[i]); if (ty[i] >= 0) sb_add(&exp, "E %d 1 %d %d %d -1 %s", i + 1, ty[i], rp[i], tl[i], hn); else sb_add(&exp, "E %d 0 -1 %d 0 -1 %s", i + 1, rp[i], hn); }
                for (int i = 0, l = 0; i < n; i++) { if (ty[i] < 0) continue; hexname(hn, sizeof hn, names[i]); int d = rp[i] != 0, r = rp[i] == 2; sb_add(&exp, "L %d %d %d %d %s", l, i + 1, d, r, hn); sb_add(&exp, "A %d %d %d", l, d, r); sb_add(&exp, "F %d %d", l, l); l++; }
                sb_t got = {0}; describe(&got, s); v_case(v_hash(exp.p, exp.n, 5));
                if (strcmp(got.p, exp.p)) { char la[300], lb[300], key[96]; first_diff(exp.p, got.p, la, lb, sizeof la); char kind = la[0] ? la[0] : lb[0]; snprintf(key, sizeof key, "builder:%s", kind == 'N' ? "counts" : kind == 'E' ? "element-accessor" : kind == 'L' ? "leaf-levels" : kind == 'A' ? "node-level-accessor" : "find-column"); v_viol(key, "n=%d expected[%.200s] carquet[%.200s]", n, la, lb); }
                if (n > 64) v_count("builder_past_initial_capacity"); free(got.p); v_count("builder_schemas"); }
            for (int i = 0; i < n; i++) free(names[i]); free(names); free(ty); free(rp); free(tl); free(exp.p); carquet_schema_free(s); }
        v_sample("builder: flat schemas of 0..%d columns (all 8 types x 3 repetitions, names up to 5000 bytes), counts/names/types/levels/find_column against the textbook definition", maxn);
    } else return 2;
    v_finish(); return 0;
}
