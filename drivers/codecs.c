/* C09 / C10: codec round trips with exact-size buffers, and format conformance of the built-in
 * Snappy / LZ4 against independent decoders (own strict reference + libsnappy / liblz4).
 * usage: codecs c09 <codec> <seed> <scale> | codecs c10enc <codec> <seed> <scale> | codecs c10dec <codec> <seed> <scale>
 */
#include "vdrv.h"
#include "ref_codecs.h"
#include <carquet/carquet.h>
#include <snappy-c.h>
#include <lz4.h>

carquet_status_t carquet_snappy_compress(const uint8_t*, size_t, uint8_t*, size_t, size_t*);
carquet_status_t carquet_snappy_decompress(const uint8_t*, size_t, uint8_t*, size_t, size_t*);
size_t carquet_snappy_compress_bound(size_t);
carquet_status_t carquet_lz4_compress(const uint8_t*, size_t, uint8_t*, size_t, size_t*);
carquet_status_t carquet_lz4_decompress(const uint8_t*, size_t, uint8_t*, size_t, size_t*);
size_t carquet_lz4_compress_bound(size_t);
int carquet_gzip_compress(const uint8_t*, size_t, uint8_t*, size_t, size_t*, int);
int carquet_gzip_decompress(const uint8_t*, size_t, uint8_t*, size_t, size_t*);
size_t carquet_gzip_compress_bound(size_t);
int carquet_zstd_compress(const uint8_t*, size_t, uint8_t*, size_t, size_t*, int);
int carquet_zstd_decompress(const uint8_t*, size_t, uint8_t*, size_t, size_t*);
size_t carquet_zstd_compress_bound(size_t);

static vrng_t R;
enum { SNAPPY, LZ4C, GZIP, ZSTD };
static const char* CN[] = {"snappy", "lz4", "gzip", "zstd"};

static int do_compress(int codec, const uint8_t* s, size_t n, uint8_t* d, size_t cap, size_t* out, int level) {
    switch (codec) {
    case SNAPPY: return carquet_snappy_compress(s, n, d, cap, out);
    case LZ4C: return carquet_lz4_compress(s, n, d, cap, out);
    case GZIP: return carquet_gzip_compress(s, n, d, cap, out, level);
    default: return carquet_zstd_compress(s, n, d, cap, out, level);
    }
}
static int do_decompress(int codec, const uint8_t* s, size_t n, uint8_t* d, size_t cap, size_t* out) {
    switch (codec) {
    case SNAPPY: return carquet_snappy_decompress(s, n, d, cap, out);
    case LZ4C: return carquet_lz4_decompress(s, n, d, cap, out);
    case GZIP: return carquet_gzip_decompress(s, n, d, cap, out);
    default: return carquet_zstd_decompress(s, n, d, cap, out);
    }
}
static size_t do_bound(int codec, size_t n) {
    switch (codec) {
    case SNAPPY: return carquet_snappy_compress_bound(n);
    case LZ4C: return carquet_lz4_compress_bound(n);
    case GZIP: return carquet_gzip_compress_bound(n);
    default: return carquet_zstd_compress_bound(n);
    }
}

/* ---- input generator -------------------------------------------------------------------- */
static const char* PAT[] = {"zeros", "onebyte", "period", "random", "random+tail-repeats", "text", "exact-copies", "alias64k", "ramp", "sparse"};
#define NPAT 10
static void fill_input(uint8_t* p, size_t n, int pat, uint64_t param) {
    switch (pat) {
    case 0: memset(p, 0, n); break;
    case 1: memset(p, (int)(param & 0xFF), n); break;
    case 2: { size_t per = 1 + param % 70; uint8_t base[70]; vrng_bytes(&R, base, per); for (size_t i = 0; i < n; i++) p[i] = base[i % per]; break; }
    case 3: vrng_bytes(&R, p, n); break;
    case 4: { vrng_bytes(&R, p, n); if (n > 40) { size_t k = 4 + param % 30; for (int rep = 0; rep < 6; rep++) { size_t back = 24 + k < n - 1 ? 24 + k : n - 1; size_t dst = n - 1 - vrng_below(&R, back); size_t src = vrng_below(&R, dst > k ? dst - k : 1); size_t len = k; if (dst + len > n) len = n - dst; memmove(p + dst, p + src, len); } } break; }
    case 5: { static const char* words[] = {"parquet ", "column ", "the ", "value ", "null ", "row-group ", "a ", "dictionary ", "0123456789 ", "\n"}; size_t i = 0; while (i < n) { const char* w = words[vrng_below(&R, 10)]; size_t l = strlen(w); if (l > n - i) l = n - i; memcpy(p + i, w, l); i += l; } break; }
    case 6: { /* random literal, then copies of exact lengths at exact offsets */ vrng_bytes(&R, p, n); size_t i = 100 < n ? 100 : n; static const size_t lens[] = {4, 5, 6, 7, 8, 9, 10, 11, 12, 59, 60, 61, 63, 64, 65, 66, 67, 68, 69, 127, 128, 132, 4 + 15, 4 + 14, 4 + 15 + 255, 4 + 15 + 254};
        static const size_t offs[] = {1, 2, 3, 4, 7, 8, 9, 2047, 2048, 2049, 32767, 32768, 32769, 65535};
        while (i < n) { size_t len = lens[vrng_below(&R, sizeof lens / sizeof *lens)], off = offs[vrng_below(&R, sizeof offs / sizeof *offs)]; if (off > i) off = 1 + vrng_below(&R, i ? i : 1); if (len > n - i) len = n - i;
            for (size_t k = 0; k < len; k++) p[i + k] = p[i + k - off]; i += len; size_t lit = 1 + vrng_below(&R, 20); if (lit > n - i) lit = n - i; vrng_bytes(&R, p + i, lit); i += lit; } break; }
    case 7: { static const size_t pers[] = {32767, 32768, 65535, 65536, 65537, 4096, 16384}; size_t per = pers[param % 7]; if (per > n && n) per = n; uint8_t* base = v_exact(per); vrng_bytes(&R, base, per); for (size_t i = 0; i < n; i++) p[i] = base[i % per]; free(base); break; }
    case 8: for (size_t i = 0; i < n; i++) p[i] = (uint8_t)(i + param); break;
    default: memset(p, 0, n); for (size_t i = 0; i < n; i += 1 + vrng_below(&R, 300)) p[i] = (uint8_t)vrng_u64(&R); break;
    }
}
static size_t pick_len(int64_t ci, int scale) {
    static const size_t fixed[] = {255, 256, 257, 4095, 4096, 4097, 65535, 65536, 65537, 131071, 131072, 131073, 70000, 100000, 200000, 262143, 262144, 262145, 524288, (1u << 20) - 1, 1u << 20, (1u << 20) + 1, 2u << 20, 3u << 20};   /* incl. exact MiB multiples: chunked implementations change behaviour there */
    if (ci <= 70) return (size_t)ci;
    if (ci < 70 + (int64_t)(sizeof fixed / sizeof *fixed) * 3) return fixed[(ci - 71) % (sizeof fixed / sizeof *fixed)];
    int c = (int)vrng_below(&R, 100);
    if (c < 50) return vrng_below(&R, 2000);
    if (c < 85) return vrng_below(&R, 70000);
    if (c < 97) return 60000 + vrng_below(&R, 150000);
    return scale >= 2 ? vrng_below(&R, 8u << 20) : vrng_below(&R, 1u << 20);
}

/* ---- C09 --------------------------------------------------------------------------------- */
static void c09(int codec, int scale) {
    int64_t cases = (scale >= 2 ? 12000 : 900);
    if (codec == GZIP || codec == ZSTD) cases = cases * 2 / 3;
    char key[160];
    for (int64_t ci = 0; ci < cases; ci++) {
        size_t n = pick_len(ci, scale); int pat = (int)(ci <= 70 ? ci % NPAT : vrng_below(&R, NPAT)); uint64_t param = vrng_u64(&R);
        if ((pat == 7) && n < 70000 && ci > 70) n = 66000 + vrng_below(&R, 140000);
        int level = codec == GZIP ? 1 + (int)vrng_below(&R, 9) : codec == ZSTD ? 1 + (int)vrng_below(&R, n > 262144 ? 9 : 22) : 0;
        uint8_t* x = v_exact(n); fill_input(x, n, pat, param);
        v_case(n >= 2 ? v_hash(x, n < 4096 ? n : 4096, (uint64_t)n * 31 + (uint64_t)pat + (uint64_t)level * 1000003) : 0);
        if (n > 65536) v_count("inputs_over_64k");
        size_t bound = do_bound(codec, n);
        if (n == 0) { /* the empty string in its other C representation: a NULL pointer with length 0 (what the page writer passes for an empty buffer) */
            uint8_t* d0 = v_exact(bound); size_t c0 = (size_t)-1; int s0 = do_compress(codec, NULL, 0, d0, bound, &c0, level); v_count("empty_input_as_null_pointer");
            if (s0 != CARQUET_OK) { snprintf(key, sizeof key, "%s:empty-input-as-null-pointer-refused", CN[codec]); v_viol(key, "level=%d status=%d (the same empty input behind a non-NULL pointer is accepted)", level, s0); }
            else { uint8_t* c1 = v_exact_copy(d0, c0); uint8_t y0[1]; size_t dl = (size_t)-1; int s1 = do_decompress(codec, c1, c0, y0, 0, &dl); if (c0 > bound || s1 != CARQUET_OK || dl != 0) { snprintf(key, sizeof key, "%s:roundtrip:empty-as-null", CN[codec]); v_viol(key, "clen=%zu status=%d dlen=%zu", c0, s1, dl); } free(c1); }
            free(d0); }
        /* (1) exact bound */
        uint8_t* d = v_exact(bound); size_t clen = (size_t)-1;
        int st = do_compress(codec, x, n, d, bound, &clen, level);
        if (st != CARQUET_OK) { snprintf(key, sizeof key, "%s:compress-into-bound-failed", CN[codec]); v_viol(key, "n=%zu pat=%s level=%d status=%d", n, PAT[pat], level, st); free(d); free(x); continue; }
        if (clen > bound) { snprintf(key, sizeof key, "%s:reported-length>bound", CN[codec]); v_viol(key, "n=%zu clen=%zu bound=%zu", n, clen, bound); free(d); free(x); continue; }
        /* (2) decompress exactly clen bytes into exactly n bytes */
        uint8_t* c = v_exact_copy(d, clen); free(d);
        uint8_t* y = v_exact(n); size_t dlen = (size_t)-1;
        st = do_decompress(codec, c, clen, y, n, &dlen);
        if (st != CARQUET_OK || dlen != n || (n && memcmp(x, y, n))) { snprintf(key, sizeof key, "%s:roundtrip:%s", CN[codec], n > 65536 ? "len>64k" : "len<=64k"); v_viol(key, "n=%zu pat=%s level=%d clen=%zu status=%d dlen=%zu", n, PAT[pat], level, clen, st, dlen); }
        free(y);
        /* (3) destinations smaller than the bound: refused, or a correct result without overflow */
        size_t caps[5] = {bound ? bound - 1 : 0, n, n / 2, 1, 0};
        for (int k = 0; k < 5; k++) { size_t cap = caps[k]; if (cap >= bound) continue;
            uint8_t* dd = v_exact(cap); size_t cl2 = (size_t)-1; st = do_compress(codec, x, n, dd, cap, &cl2, level);
            if (st == CARQUET_OK) { v_count("small_dst_compress_ok");
                if (cl2 > cap) { snprintf(key, sizeof key, "%s:small-dst:reported-length>capacity", CN[codec]); v_viol(key, "n=%zu cap=%zu clen=%zu", n, cap, cl2); }
                else { uint8_t* cc = v_exact_copy(dd, cl2); uint8_t* yy = v_exact(n); size_t dl2 = (size_t)-1; int s2 = do_decompress(codec, cc, cl2, yy, n, &dl2);
                    if (s2 != CARQUET_OK || dl2 != n || (n && memcmp(x, yy, n))) { snprintf(key, sizeof key, "%s:small-dst:ok-but-wrong", CN[codec]); v_viol(key, "n=%zu cap=%zu", n, cap); } free(yy); free(cc); } }
            else v_count("small_dst_compress_refused");
            free(dd); }
        /* (4) decompression into a destination that is too small must not overflow and must not claim success with more than capacity */
        if (n > 0) { size_t dcaps[3] = {n - 1, n / 2, 0};
            for (int k = 0; k < 3; k++) { size_t cap = dcaps[k]; uint8_t* yy = v_exact(cap); size_t dl2 = (size_t)-1; int s2 = do_decompress(codec, c, clen, yy, cap, &dl2);
                if (s2 == CARQUET_OK) { if (dl2 > cap) { snprintf(key, sizeof key, "%s:small-dst-decompress:size>capacity", CN[codec]); v_viol(key, "n=%zu cap=%zu dlen=%zu", n, cap, dl2); } v_count("small_dst_decompress_ok"); } else v_count("small_dst_decompress_refused");
                free(yy); } }
        free(c); free(x);
    }
    v_sample("c09 %s: %lld inputs; lengths 0..70, 255..257, 4095..4097, 65535..65537, 131071..131073, random up to %s; patterns zeros/onebyte/period/random/tail-repeats/text/exact-copies/alias64k/ramp/sparse", CN[codec], (long long)cases, scale >= 2 ? "8MiB" : "1MiB");
}

/* ---- C10 direction 1: carquet compressor output through independent decoders ---------------- */
static void c10enc(int codec, int scale) {
    int64_t cases = scale >= 2 ? 40000 : 2500; char key[160];
    for (int64_t ci = 0; ci < cases; ci++) {
        size_t n = pick_len(ci, scale); int pat = (int)(ci <= 70 ? ci % NPAT : vrng_below(&R, NPAT)); uint64_t param = vrng_u64(&R);
        if ((pat == 7) && n < 70000 && ci > 70) n = 66000 + vrng_below(&R, 140000);
        uint8_t* x = v_exact(n); fill_input(x, n, pat, param);
        v_case(n >= 2 ? v_hash(x, n < 4096 ? n : 4096, (uint64_t)n * 31 + (uint64_t)pat) : 0);
        size_t bound = do_bound(codec, n); uint8_t* d = v_exact(bound); size_t clen = 0;
        if (do_compress(codec, x, n, d, bound, &clen, 0) != CARQUET_OK) { v_count("compress_refused"); free(d); free(x); continue; }
        uint8_t* c = v_exact_copy(d, clen); free(d);
        vbuf_t out; vb_init(&out);
        if (codec == SNAPPY) {
            int rs = ref_snappy_decode(c, clen, &out);
            if (rs != RS_OK || out.n != n || (n && memcmp(out.p, x, n))) { snprintf(key, sizeof key, "snappy:ref-decoder-rejects-or-differs:class%d", rs); v_viol(key, "n=%zu pat=%s clen=%zu", n, PAT[pat], clen); }
            size_t ul = 0; uint8_t* y = v_exact(n); size_t yl = n;
            if (snappy_validate_compressed_buffer((const char*)c, clen) != SNAPPY_OK || snappy_uncompressed_length((const char*)c, clen, &ul) != SNAPPY_OK || ul != n ||
                snappy_uncompress((const char*)c, clen, (char*)y, &yl) != SNAPPY_OK || yl != n || (n && memcmp(y, x, n))) v_viol("snappy:libsnappy-rejects-or-differs", "n=%zu pat=%s clen=%zu", n, PAT[pat], clen);
            free(y);
            if (clen < n) v_count("compressed_smaller");
        } else {
            ref_lz4_info_t info; int rl = ref_lz4_decode(c, clen, &out, &info);
            if (rl != RL_OK || out.n != n || (n && memcmp(out.p, x, n))) { snprintf(key, sizeof key, "lz4:ref-decoder-rejects-or-differs:class%d", rl); v_viol(key, "n=%zu pat=%s clen=%zu", n, PAT[pat], clen); }
            else { const char* why = ref_lz4_end_rules(&info, n); if (why) { snprintf(key, sizeof key, "lz4:end-of-block-rule:%s", why); v_viol(key, "n=%zu pat=%s last_literals=%zu last_match_start=%zu", n, PAT[pat], info.last_literals, info.last_match_start); }
                   if (info.had_match) v_count("lz4_blocks_with_matches"); }
            uint8_t* y = v_exact(n); int got = LZ4_decompress_safe((const char*)c, (char*)y, (int)clen, (int)n);
            if (got != (int)n || (n && memcmp(y, x, n))) v_viol("lz4:liblz4-rejects-or-differs", "n=%zu pat=%s clen=%zu got=%d", n, PAT[pat], clen, got);
            free(y);
            if (clen < n) v_count("compressed_smaller");
        }
        vb_free(&out); free(c); free(x);
    }
    v_sample("c10enc %s: %lld carquet-compressed inputs decoded by the strict reference decoder and by %s", CN[codec], (long long)cases, codec == SNAPPY ? "libsnappy 1.1.9" : "liblz4 1.9.4 (LZ4_decompress_safe) + end-of-block rules");
}

/* ---- C10 direction 2: independent encoders' streams through carquet's decompressors ------------ */
static void feed_carquet(int codec, const uint8_t* st, size_t sn, const uint8_t* expect, size_t en, int must_accept, int must_reject, const char* origin) {
    char key[160];
    uint8_t* s = v_exact_copy(st, sn); uint8_t* y = v_exact(en); size_t yl = (size_t)-1;
    int rc = do_decompress(codec, s, sn, y, en, &yl);
    if (must_accept) {
        v_count("must_accept_streams");
        if (rc != CARQUET_OK) { snprintf(key, sizeof key, "%s:valid-stream-rejected:%s", CN[codec], origin); v_viol(key, "stream_len=%zu out_len=%zu status=%d", sn, en, rc); }
        else if (yl != en || (en && memcmp(y, expect, en))) { snprintf(key, sizeof key, "%s:valid-stream-decoded-differently:%s", CN[codec], origin); v_viol(key, "stream_len=%zu out_len=%zu got_len=%zu", sn, en, yl); }
    } else if (must_reject) {
        v_count("must_reject_streams");
        if (rc == CARQUET_OK) { snprintf(key, sizeof key, "%s:invalid-stream-accepted:%s", CN[codec], origin); v_viol(key, "stream_len=%zu cap=%zu got_len=%zu", sn, en, yl); }
    }
    free(y); free(s);
}

static void c10dec_snappy(int scale) {
    int64_t cases = scale >= 2 ? 60000 : 4000; snappy_gen_stats_t gs; memset(&gs, 0, sizeof gs);
    vbuf_t st, out, tmp; vb_init(&st); vb_init(&out); vb_init(&tmp);
    for (int64_t ci = 0; ci < cases; ci++) {
        size_t target = ci < 40 ? (size_t)ci : vrng_chance(&R, 1, 25) ? vrng_below(&R, 300000) : vrng_below(&R, 3000);
        int nonmin = (ci & 1);
        ref_snappy_build(&R, target, &st, &out, &gs, nonmin);
        v_case(st.n >= 2 ? v_hash(st.p, st.n < 4096 ? st.n : 4096, st.n) : 0);
        /* both oracles must call it valid and agree on the content, otherwise the harness is wrong */
        int rs = ref_snappy_decode(st.p, st.n, &tmp); size_t ul = 0; uint8_t* y = v_exact(out.n); size_t yl = out.n;
        int lib_ok = snappy_uncompressed_length((const char*)st.p, st.n, &ul) == SNAPPY_OK && ul == out.n && snappy_uncompress((const char*)st.p, st.n, (char*)y, &yl) == SNAPPY_OK && yl == out.n && (!out.n || !memcmp(y, out.p, out.n));
        int ref_ok = rs == RS_OK && tmp.n == out.n && (!out.n || !memcmp(tmp.p, out.p, out.n));
        free(y);
        if (ref_ok && lib_ok) feed_carquet(SNAPPY, st.p, st.n, out.p, out.n, 1, 0, nonmin ? "built(non-minimal-lengths-allowed)" : "built(minimal-lengths)");
        else if (ref_ok != lib_ok) v_count("oracles_disagree_on_built_stream"); else { fprintf(stderr, "harness: both oracles reject a built snappy stream\n"); exit(2); }
        /* mutants of the valid stream, classified by both oracles */
        for (int m = 0; m < 6 && st.n > 1; m++) {
            vbuf_t mu; vb_init(&mu); vb_append(&mu, st.p, st.n);
            int kind = (int)vrng_below(&R, 4);
            if (kind == 0) mu.n = 1 + vrng_below(&R, mu.n - 1);                                    /* truncate */
            else if (kind == 1) mu.p[vrng_below(&R, mu.n)] ^= (uint8_t)(1u << vrng_below(&R, 8));     /* bit flip */
            else if (kind == 2) mu.p[vrng_below(&R, mu.n)] = (uint8_t)vrng_u64(&R);                   /* byte */
            else { size_t pos = vrng_below(&R, mu.n); mu.p[pos] = 0; if (pos + 1 < mu.n) mu.p[pos + 1] = 0; }   /* zero pair (offset 0) */
            int r2 = ref_snappy_decode(mu.p, mu.n, &tmp); size_t ul2 = 0;
            int have_len = snappy_uncompressed_length((const char*)mu.p, mu.n, &ul2) == SNAPPY_OK;
            int libvalid = snappy_validate_compressed_buffer((const char*)mu.p, mu.n) == SNAPPY_OK;
            if (r2 == RS_OK && libvalid && have_len && ul2 == tmp.n) feed_carquet(SNAPPY, mu.p, mu.n, tmp.p, tmp.n, 1, 0, "mutant-still-valid");
            else if (r2 != RS_OK && r2 != RS_TRAILING && !libvalid) {
                /* capacity a caller would use: the declared length when readable (bounded), else the original size */
                size_t cap = have_len && ul2 <= (64u << 20) ? ul2 : out.n;
                static const char* cls[] = {"", "bad-preamble", "truncated-element", "offset-zero", "offset-beyond-output", "length-mismatch", "trailing"};
                feed_carquet(SNAPPY, mu.p, mu.n, NULL, cap, 0, 1, cls[-r2]);
            } else v_count("mutants_unclassified");
            vb_free(&mu);
        }
    }
    /* hand-built minimal invalid streams */
    { static const uint8_t off0_c1[] = {8, 0x0C, 'a', 'b', 'c', 'd', 0x01, 0x00};             /* literal 4, copy1 len4 offset 0 */
      static const uint8_t off0_c2[] = {8, 0x0C, 'a', 'b', 'c', 'd', 0x0E, 0x00, 0x00};       /* copy2 len4 offset 0 */
      static const uint8_t off0_c4[] = {8, 0x0C, 'a', 'b', 'c', 'd', 0x0F, 0, 0, 0, 0};       /* copy4 len4 offset 0 */
      static const uint8_t beyond[] = {8, 0x0C, 'a', 'b', 'c', 'd', 0x0E, 0x05, 0x00};        /* offset 5 > 4 produced */
      static const uint8_t trunc_c1[] = {8, 0x0C, 'a', 'b', 'c', 'd', 0x01};                  /* copy-1 tag is the last byte */
      static const uint8_t trunc_c2[] = {8, 0x0C, 'a', 'b', 'c', 'd', 0x0E, 0x01};
      static const uint8_t trunc_lit[] = {8, 0x1C, 'a', 'b', 'c'};
      static const uint8_t short_out[] = {9, 0x0C, 'a', 'b', 'c', 'd', 0x01, 0x04};           /* declares 9, produces 8 */
      static const uint8_t long_out[] = {5, 0x0C, 'a', 'b', 'c', 'd', 0x01, 0x04};            /* declares 5, produces 8 */
      static const uint8_t bad_pre[] = {0xFF, 0xFF, 0xFF, 0xFF, 0xFF, 0x01};
      static const uint8_t pre_over1[] = {0x85, 0x80, 0x80, 0x80, 0x70, 0x10, 'a', 'b', 'c', 'd', 'e'};   /* preamble 5 + 7<<32: does not fit 32 bits */
      static const uint8_t pre_over2[] = {0x80, 0x80, 0x80, 0x80, 0x10};                                    /* 2^32, no elements */
      static const uint8_t extra_lit[] = {4, 0x0C, 'a', 'b', 'c', 'd', 0x00, 'x'};                           /* a further literal after the declared length is complete */
      static const uint8_t extra_tag[] = {4, 0x0C, 'a', 'b', 'c', 'd', 0x01};                                /* a stray copy tag after the end */
      static const uint8_t extra_empty[] = {0, 0x00, 'x'};                                                   /* declared length 0 followed by an element */
      struct { const uint8_t* p; size_t n; size_t cap; const char* why; } H[] = {
        {off0_c1, sizeof off0_c1, 8, "hand:offset-zero-copy1"}, {off0_c2, sizeof off0_c2, 8, "hand:offset-zero-copy2"}, {off0_c4, sizeof off0_c4, 8, "hand:offset-zero-copy4"},
        {beyond, sizeof beyond, 8, "hand:offset-beyond-output"}, {trunc_c1, sizeof trunc_c1, 8, "hand:copy1-tag-last-byte"}, {trunc_c2, sizeof trunc_c2, 8, "hand:copy2-truncated"},
        {trunc_lit, sizeof trunc_lit, 8, "hand:literal-truncated"}, {short_out, sizeof short_out, 9, "hand:declared>produced"}, {long_out, sizeof long_out, 5, "hand:declared<produced"}, {bad_pre, sizeof bad_pre, 16, "hand:bad-preamble"},
        {pre_over1, sizeof pre_over1, 16, "hand:preamble-exceeds-32-bits"}, {pre_over2, sizeof pre_over2, 16, "hand:preamble-exceeds-32-bits"}, {extra_lit, sizeof extra_lit, 16, "hand:elements-after-declared-length"}, {extra_tag, sizeof extra_tag, 16, "hand:elements-after-declared-length"}, {extra_empty, sizeof extra_empty, 16, "hand:elements-after-declared-length"} };
      for (size_t i = 0; i < sizeof H / sizeof *H; i++) { if (snappy_validate_compressed_buffer((const char*)H[i].p, H[i].n) == SNAPPY_OK || ref_snappy_decode(H[i].p, H[i].n, &tmp) == RS_OK) { fprintf(stderr, "harness: oracle accepts hand-built invalid stream %s\n", H[i].why); exit(2); }
          v_case(v_hash(H[i].p, H[i].n, 5)); feed_carquet(SNAPPY, H[i].p, H[i].n, NULL, H[i].cap, 0, 1, H[i].why); } }
    v_count_n("gen_literal_form0", gs.lit_forms[0]); v_count_n("gen_literal_form1", gs.lit_forms[1]); v_count_n("gen_literal_form2", gs.lit_forms[2]); v_count_n("gen_literal_form3", gs.lit_forms[3]); v_count_n("gen_literal_form4", gs.lit_forms[4]);
    v_count_n("gen_copy1", gs.copy1); v_count_n("gen_copy2", gs.copy2); v_count_n("gen_copy4", gs.copy4); v_count_n("gen_overlapping_copies", gs.overlap); v_count_n("gen_offset1", gs.offset1); v_count_n("gen_nonminimal_literal_len", gs.nonminimal);
    v_sample("c10dec snappy: %lld grammar-built streams (literal forms 0..4 bytes, copy-1/2/4, overlap, offset 1..produced) + 6 classified mutants each + 15 hand-built invalid streams", (long long)cases);
    vb_free(&st); vb_free(&out); vb_free(&tmp);
}

static void c10dec_lz4(int scale) {
    int64_t cases = scale >= 2 ? 60000 : 4000; lz4_gen_stats_t gs; memset(&gs, 0, sizeof gs);
    vbuf_t st, out, tmp; vb_init(&st); vb_init(&out); vb_init(&tmp); ref_lz4_info_t info;
    for (int64_t ci = 0; ci < cases; ci++) {
        size_t target = ci < 40 ? (size_t)ci : vrng_chance(&R, 1, 25) ? vrng_below(&R, 300000) : vrng_below(&R, 3000);
        ref_lz4_build(&R, target, &st, &out, &gs);
        v_case(st.n >= 2 ? v_hash(st.p, st.n < 4096 ? st.n : 4096, st.n + 1) : 0);
        int rl = ref_lz4_decode(st.p, st.n, &tmp, &info); uint8_t* y = v_exact(out.n);
        int got = LZ4_decompress_safe((const char*)st.p, (char*)y, (int)st.n, (int)out.n);
        int lib_ok = got == (int)out.n && (!out.n || !memcmp(y, out.p, out.n));
        int ref_ok = rl == RL_OK && tmp.n == out.n && (!out.n || !memcmp(tmp.p, out.p, out.n)) && ref_lz4_end_rules(&info, out.n) == NULL;
        free(y);
        if (ref_ok && lib_ok) feed_carquet(LZ4C, st.p, st.n, out.p, out.n, 1, 0, "built");
        else { fprintf(stderr, "harness: oracle rejects a built lz4 block (ref=%d lib=%d target=%zu)\n", ref_ok, lib_ok, target); exit(2); }
        for (int m = 0; m < 6 && st.n > 1; m++) {
            vbuf_t mu; vb_init(&mu); vb_append(&mu, st.p, st.n);
            int kind = (int)vrng_below(&R, 4);
            if (kind == 0) mu.n = 1 + vrng_below(&R, mu.n - 1);
            else if (kind == 1) mu.p[vrng_below(&R, mu.n)] ^= (uint8_t)(1u << vrng_below(&R, 8));
            else if (kind == 2) mu.p[vrng_below(&R, mu.n)] = (uint8_t)vrng_u64(&R);
            else { size_t pos = vrng_below(&R, mu.n); mu.p[pos] = 0; if (pos + 1 < mu.n) mu.p[pos + 1] = 0; }
            size_t cap = out.n * 2 + 1024; uint8_t* yy = v_exact(cap);
            int r2 = ref_lz4_decode(mu.p, mu.n, &tmp, &info);
            int g2 = LZ4_decompress_safe((const char*)mu.p, (char*)yy, (int)mu.n, (int)cap);
            if (r2 == RL_OK && g2 >= 0 && (size_t)g2 == tmp.n && (!tmp.n || !memcmp(yy, tmp.p, tmp.n)) && ref_lz4_end_rules(&info, tmp.n) == NULL) {
                /* still a valid, conforming block: carquet must decode it (capacity = what liblz4 was given) */
                char key[160]; uint8_t* s = v_exact_copy(mu.p, mu.n); uint8_t* z = v_exact(cap); size_t zl = (size_t)-1; int rc = carquet_lz4_decompress(s, mu.n, z, cap, &zl);
                v_count("must_accept_streams");
                if (rc != CARQUET_OK || zl != tmp.n || (tmp.n && memcmp(z, tmp.p, tmp.n))) { snprintf(key, sizeof key, "lz4:valid-stream-%s:mutant-still-valid", rc != CARQUET_OK ? "rejected" : "decoded-differently"); v_viol(key, "stream_len=%zu out_len=%zu status=%d got=%zu", mu.n, tmp.n, rc, zl); }
                free(z); free(s);
            } else if (((r2 == RL_TRUNCATED || r2 == RL_OFFSET_BEYOND) && g2 < 0) || r2 == RL_OFFSET_ZERO) {
                /* offset 0: the block format document calls it invalid; liblz4 1.9.4 does not detect it, so the written rule decides */
                static const char* cls[] = {"", "", "truncated-element", "offset-zero", "offset-beyond-output"};
                feed_carquet(LZ4C, mu.p, mu.n, NULL, cap, 0, 1, cls[-r2]);
            } else v_count("mutants_unclassified");
            free(yy); vb_free(&mu);
        }
    }
    { static const uint8_t off0[] = {0x40, 'a', 'b', 'c', 'd', 0x00, 0x00, 0x50, '1', '2', '3', '4', '5'};
      static const uint8_t beyond[] = {0x40, 'a', 'b', 'c', 'd', 0x05, 0x00, 0x50, '1', '2', '3', '4', '5'};
      static const uint8_t trunc_lit[] = {0x80, 'a', 'b', 'c'};
      static const uint8_t trunc_off[] = {0x40, 'a', 'b', 'c', 'd', 0x01};
      static const uint8_t trunc_ext[] = {0xF0};
      static const uint8_t trunc_mext[] = {0x4F, 'a', 'b', 'c', 'd', 0x01, 0x00};
      struct { const uint8_t* p; size_t n; const char* why; } H[] = { {off0, sizeof off0, "hand:offset-zero"}, {beyond, sizeof beyond, "hand:offset-beyond-output"}, {trunc_lit, sizeof trunc_lit, "hand:literals-truncated"},
        {trunc_off, sizeof trunc_off, "hand:offset-truncated"}, {trunc_ext, sizeof trunc_ext, "hand:literal-length-extension-truncated"}, {trunc_mext, sizeof trunc_mext, "hand:match-length-extension-truncated"} };
      for (size_t i = 0; i < sizeof H / sizeof *H; i++) { uint8_t yy[256]; if ((i > 0 && LZ4_decompress_safe((const char*)H[i].p, (char*)yy, (int)H[i].n, 256) >= 0) || ref_lz4_decode(H[i].p, H[i].n, &tmp, &info) == RL_OK) { fprintf(stderr, "harness: oracle accepts hand-built invalid block %s\n", H[i].why); exit(2); }
          v_case(v_hash(H[i].p, H[i].n, 6)); feed_carquet(LZ4C, H[i].p, H[i].n, NULL, 256, 0, 1, H[i].why); } }
    v_count_n("gen_literal_len_extended", gs.lit_ext); v_count_n("gen_literal_len_ext_trailing0", gs.lit_ext_255); v_count_n("gen_match_len_extended", gs.match_ext); v_count_n("gen_match_len_ext_trailing0", gs.match_ext_255);
    v_count_n("gen_overlapping_matches", gs.overlap); v_count_n("gen_offset1", gs.offset1); v_count_n("gen_offset_65535", gs.offset_max); v_count_n("gen_zero_literal_sequences", gs.zero_lit_seq); v_count_n("gen_literal_only_blocks", gs.literal_only); v_count_n("gen_min_end_margin", gs.end_min_margin);
    v_sample("c10dec lz4: %lld grammar-built conforming blocks (token nibbles 0..15, extended lengths incl. 255-runs with trailing 0, offsets 1..65535, overlap) + 6 classified mutants each + 6 hand-built invalid blocks", (long long)cases);
    vb_free(&st); vb_free(&out); vb_free(&tmp);
}

int main(int argc, char** argv) {
    if (argc < 5) { fprintf(stderr, "usage: codecs mode codec seed scale\n"); return 2; }
    const char* mode = argv[1]; int codec = -1; for (int i = 0; i < 4; i++) if (!strcmp(argv[2], CN[i])) codec = i;
    uint64_t seed = strtoull(argv[3], 0, 10); int scale = atoi(argv[4]);
    if (codec < 0) return 2;
    vrng_seed(&R, seed * 104729 + v_hash(mode, strlen(mode), (uint64_t)codec));
    (void)carquet_init();
    if (!strcmp(mode, "c09")) c09(codec, scale);
    else if (!strcmp(mode, "c10enc") && codec <= LZ4C) c10enc(codec, scale);
    else if (!strcmp(mode, "c10dec") && codec == SNAPPY) c10dec_snappy(scale);
    else if (!strcmp(mode, "c10dec") && codec == LZ4C) c10dec_lz4(scale);
    else return 2;
    v_finish();
    return 0;
}
