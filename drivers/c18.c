/* C18: truncated files are rejected and failed writes are never reported OK.
 * usage: c18 trunc <stride> <parquet> <exempt.txt> <tmpdir>      exempt.txt: cut positions the reference reader accepts as complete files
 *        c18 sink <seed> <scale> <tmpdir> */
#define _GNU_SOURCE
#include "rdchk.h"
#include <fcntl.h>
#include <sys/stat.h>
#include <sys/resource.h>
#include <sys/wait.h>
#include <signal.h>
#include <dirent.h>
#include <errno.h>

static vrng_t R;

/* ---- truncation ---------------------------------------------------------------------------- */
/* link-time wrapper (-Wl,--wrap=fclose): when armed, the stream is really closed but the call reports failure, as close(2) does
 * when a deferred write error (NFS, quota) only surfaces at close time. Armed only around carquet calls. */
static int FCLOSE_FAIL = 0; static long FCLOSE_FAILED = 0;
int __real_fclose(FILE*);
int __wrap_fclose(FILE* f) { int r = __real_fclose(f); if (FCLOSE_FAIL) { FCLOSE_FAILED++; errno = EIO; return EOF; } return r; }

static void trunc_section(const char* path, const char* exempt, long stride, const char* tmpdir) {
    size_t n = 0; uint8_t* orig = rd_slurp(path, &n); if (!orig) exit(2); const char* bn = strrchr(path, '/') ? strrchr(path, '/') + 1 : path;
    uint8_t* ok = calloc(n + 1, 1); FILE* ef = fopen(exempt, "r"); if (ef) { long p; while (fscanf(ef, "%ld", &p) == 1) if (p >= 0 && (size_t)p <= n) ok[p] = 1; fclose(ef); }
    char tmp[600]; snprintf(tmp, sizeof tmp, "%s/t.parquet", tmpdir); FILE* f = fopen(tmp, "wb"); if (!f) exit(2); fwrite(orig, 1, n, f); fclose(f);
    carquet_error_t err; carquet_reader_options_t ro; char key[160];
    for (long cut = (long)n - 1; cut >= 0; cut--) { if (truncate(tmp, cut) != 0) exit(2); if (stride > 1 && cut % stride && cut > 16 && (size_t)cut + 16 < n && !(cut >= 4 && !memcmp(orig + cut - 4, "PAR1", 4))) continue;
        v_case(v_hash(&cut, sizeof cut, v_hash(bn, strlen(bn), 1))); if (cut >= 4 && !memcmp(orig + cut - 4, "PAR1", 4)) v_count("cuts_ending_in_magic"); if (ok[cut]) { v_count("cuts_that_are_complete_files"); continue; }
        const char* region = (size_t)cut + 4 >= n ? "inside-trailing-magic" : (size_t)cut + 8 >= n ? "inside-footer-length" : cut < 4 ? "inside-leading-magic" : "data-or-footer";
        for (int mode = 0; mode < 3; mode++) { memset(&err, 0, sizeof err); carquet_reader_options_init(&ro); ro.use_mmap = mode == IO_MMAP; carquet_reader_t* rd; uint8_t* pre = NULL;
            if (mode == IO_BUFFER) { pre = v_exact_copy(orig, (size_t)cut); rd = carquet_reader_open_buffer(pre, (size_t)cut, &ro, &err); } else rd = carquet_reader_open(tmp, &ro, &err);
            if (rd) { snprintf(key, sizeof key, "truncation:prefix-opens-as-valid-file:%s:%s", IO_NAME[mode], (cut >= 4 && !memcmp(orig + cut - 4, "PAR1", 4)) ? "prefix-ends-in-PAR1" : region);
                v_viol(key, "%s cut=%ld of %zu: rows=%lld groups=%d columns=%d", bn, cut, n, (long long)carquet_reader_num_rows(rd), carquet_reader_num_row_groups(rd), carquet_reader_num_columns(rd)); carquet_reader_close(rd); }
            else { if (err.code == CARQUET_OK) { snprintf(key, sizeof key, "truncation:failure-with-OK-error-code:%s", IO_NAME[mode]); v_viol(key, "%s cut=%ld", bn, cut); } v_count("prefixes_rejected"); }
            free(pre); }
        /* the error argument is optional: the same prefixes with error == NULL (every short prefix, every 5th other one) */
        if (cut <= 16 || cut % 5 == 0) for (int mode = 0; mode < 3; mode++) { carquet_reader_options_init(&ro); ro.use_mmap = mode == IO_MMAP; carquet_reader_t* rd; uint8_t* pre = NULL;
            if (mode == IO_BUFFER) { pre = v_exact_copy(orig, (size_t)cut); rd = carquet_reader_open_buffer(pre, (size_t)cut, &ro, NULL); } else rd = carquet_reader_open(tmp, &ro, NULL);
            v_count("prefixes_opened_without_error_struct"); if (rd) { snprintf(key, sizeof key, "truncation:prefix-opens-as-valid-file:%s:no-error-struct", IO_NAME[mode]); v_viol(key, "%s cut=%ld of %zu", bn, cut, n); carquet_reader_close(rd); } free(pre); } }
    unlink(tmp); free(ok); free(orig);
}

/* ---- failing sinks -------------------------------------------------------------------------------- */
typedef struct { uint8_t* p; size_t n, cap; long calls, fail_at; int fail_kind; int failed; } sink_t;
static ssize_t sink_write(void* ck, const char* buf, size_t size) { sink_t* s = ck; s->calls++;
    if (s->fail_at >= 0 && s->fail_kind == 3) { if (s->calls == s->fail_at + 1) { s->failed = 1; errno = EINTR; return 0; } }   /* transient: exactly one call fails (EINTR), the sink works again afterwards */
    else if (s->fail_at >= 0 && s->calls > s->fail_at) { s->failed = 1; if (s->fail_kind == 0) { errno = ENOSPC; return 0; }         /* short write: accept half, then fail for good */ size_t half = size / 2; if (s->n + half > s->cap) { s->cap = (s->cap + half) * 2 + 64; s->p = realloc(s->p, s->cap); } memcpy(s->p + s->n, buf, half); s->n += half; s->fail_kind = 0; errno = ENOSPC; return (ssize_t)half; }
    if (s->n + size > s->cap) { s->cap = (s->cap + size) * 2 + 64; s->p = realloc(s->p, s->cap); } memcpy(s->p + s->n, buf, size); s->n += size; return (ssize_t)size; }
static int sink_close(void* ck) { (void)ck; return 0; }

/* writes table t to stream f; returns 1 when every writer call (incl. close) returned OK */
static int write_to_stream(vrng_t* r, const table_t* t, FILE* f, const char** bad_call) {
    carquet_error_t err = CARQUET_ERROR_INIT; carquet_schema_t* s = tbl_make_schema(t, &err); if (!s) { *bad_call = "schema"; return 0; } carquet_writer_options_t o; tbl_writer_options(t, &o);
    carquet_writer_t* w = carquet_writer_create_file(f, s, &o, &err); if (!w) { carquet_schema_free(s); *bad_call = "create_file"; return 0; }
    twrite_result_t res; memset(&res, 0, sizeof res); res.all_ok = 1;
    for (int g = 0; g < t->nrg && res.all_ok; g++) { if (g > 0 && carquet_writer_new_row_group(w) != CARQUET_OK) { res.all_ok = 0; res.first_bad_call = "new_row_group"; break; } tbl_write_rowgroup(r, w, t, g, &res); }
    if (res.all_ok) { if (carquet_writer_close(w) != CARQUET_OK) { res.all_ok = 0; res.first_bad_call = "close"; } } else carquet_writer_abort(w);
    carquet_schema_free(s); *bad_call = res.first_bad_call; return res.all_ok;
}
static int count_fds(void) { int n = 0; DIR* d = opendir("/proc/self/fd"); if (!d) return -1; while (readdir(d)) n++; closedir(d); return n; }

/* write the first `stop` batches of t to a path-based writer, then abort. returns 1 if the file is still there, 0 if gone, -1 if the writer could not be created */
static int abort_after(const table_t* t, const char* path, int stop) { carquet_error_t err = CARQUET_ERROR_INIT; carquet_schema_t* s = tbl_make_schema(t, &err); carquet_writer_options_t o; tbl_writer_options(t, &o); unlink(path); carquet_writer_t* w = s ? carquet_writer_create(path, s, &o, &err) : NULL; if (!w) { if (s) carquet_schema_free(s); return -1; }
    int done = 0; for (int g = 0; g < t->nrg && done < stop; g++) { if (g > 0) (void)carquet_writer_new_row_group(w); for (int c = 0; c < t->ncols && done < stop; c++) { const tchunk_t* k = &t->rg[g][c]; const tcol_t* col = &t->cols[c]; int64_t rp = 0, vp = 0; for (int b = 0; b < k->nbatches && done < stop; b++, done++) { int64_t rows = k->batch_rows[b]; int64_t nv = 0; for (int64_t i = 0; i < rows; i++) if (k->def[rp + i] == col->max_def) nv++;
                void* vals; uint8_t** own = NULL; if (col->type == CARQUET_PHYSICAL_BYTE_ARRAY) { carquet_byte_array_t* a = v_exact((size_t)nv * sizeof *a); own = v_exact((size_t)nv * sizeof(uint8_t*) + 8); for (int64_t i = 0; i < nv; i++) { own[i] = v_exact_copy(k->ba_ptr[vp + i], k->ba_len[vp + i]); a[i].data = own[i]; a[i].length = (int32_t)k->ba_len[vp + i]; } vals = a; } else vals = v_exact_copy(k->fixed + (size_t)vp * t_elem_size(col), (size_t)nv * t_elem_size(col));
                (void)carquet_writer_write_batch(w, c, vals, rows, col->max_def ? k->def + rp : NULL, NULL); if (own) { for (int64_t i = 0; i < nv; i++) free(own[i]); free(own); } free(vals); rp += rows; vp += nv; } } }
    carquet_writer_abort(w); carquet_schema_free(s); return access(path, F_OK) == 0 ? 1 : 0; }

static void sink_section(int scale, const char* tmpdir) {
    int ntables = scale >= 2 ? 40 : 6; char key[160];
    for (int ti = 0; ti < ntables; ti++) { tgen_t gp = {3, 40, 0, -1, -1, T_CODECS[ti % 5], (ti % 2) ? 64 : 0, 1 + ti % 2}; vrng_t gr; vrng_seed(&gr, 1000 + (uint64_t)ti * 7 + vrng_u64(&R) % 1000); table_t* t = tbl_generate(&gr, &gp);
        /* fault-free reference bytes through a cookie stream */
        sink_t ref; memset(&ref, 0, sizeof ref); ref.fail_at = -1; cookie_io_functions_t io = {NULL, sink_write, NULL, sink_close}; FILE* f = fopencookie(&ref, "w", io); const char* bad = NULL; vrng_t wr; vrng_seed(&wr, 42);
        int ok = write_to_stream(&wr, t, f, &bad); fclose(f); if (!ok) { v_count("writer_refused"); free(ref.p); tbl_free(t); continue; }
        long total_calls = ref.calls; v_count("sink_tables");
        /* (i) caller-owned stream: the i-th write callback fails, under three buffering modes */
        static const int bmodes[] = {_IONBF, _IOLBF, _IOFBF}; static const size_t bsizes[] = {1, 64, 4096, 1 << 20};
        for (int bm = 0; bm < 3; bm++) for (int bs = 0; bs < (bm == 0 ? 1 : 4); bs++) {
            /* number of callback invocations depends on buffering: measure it first */
            sink_t probe; memset(&probe, 0, sizeof probe); probe.fail_at = -1; FILE* pf = fopencookie(&probe, "w", io); char* vb = malloc(bsizes[bs]); setvbuf(pf, bm == 0 ? NULL : vb, bmodes[bm], bm == 0 ? 0 : bsizes[bs]); vrng_seed(&wr, 42); (void)write_to_stream(&wr, t, pf, &bad); fclose(pf); free(vb); long ncalls = probe.calls; free(probe.p);
            for (long i = 0; i < ncalls; i++) for (int kind = 0; kind < 4; kind++) { if (kind && kind < 3 && (i % 3)) continue; if (kind == 3 && (i % 2)) continue;
                sink_t s; memset(&s, 0, sizeof s); s.fail_at = i; s.fail_kind = kind; FILE* sf = fopencookie(&s, "w", io); char* vb2 = malloc(bsizes[bs]); setvbuf(sf, bm == 0 ? NULL : vb2, bmodes[bm], bm == 0 ? 0 : bsizes[bs]); vrng_seed(&wr, 42);
                int all_ok = write_to_stream(&wr, t, sf, &bad); v_case(v_hash(&i, sizeof i, (uint64_t)ti * 1000003 + (uint64_t)bm * 101 + (uint64_t)bs * 7 + (uint64_t)kind)); v_count("cookie_sink_failures_injected");
                if (all_ok && (s.n != ref.n || memcmp(s.p, ref.p, ref.n))) { snprintf(key, sizeof key, "sink-failure:all-calls-OK-but-bytes-missing:caller-stream:%s", bm == 0 ? "unbuffered" : bm == 1 ? "line-buffered" : "fully-buffered");
                    v_viol(key, "table=%d codec=%d write#%ld of %ld fails (kind %d, buffer %zu): every writer call incl. close returned OK, sink holds %zu of %zu bytes", ti, t->codec, i, ncalls, kind, bm == 0 ? 0 : bsizes[bs], s.n, ref.n); }
                if (!all_ok) v_count("cookie_failures_reported");
                fclose(sf); free(vb2); free(s.p); } }
        (void)total_calls;
        /* (ii) path-based writer with the file size limited to N bytes, for every N */
        char path[600]; snprintf(path, sizeof path, "%s/s.parquet", tmpdir);
        long stepN = scale >= 2 ? 1 : (ref.n > 600 ? 3 : 1);
        for (long N = 0; N < (long)ref.n; N += stepN) { fflush(stdout); pid_t pid = fork(); if (pid == 0) { struct rlimit rl = {(rlim_t)N, (rlim_t)N}; signal(SIGXFSZ, SIG_IGN); setrlimit(RLIMIT_FSIZE, &rl); twrite_result_t res; vrng_t w2; vrng_seed(&w2, 42); unlink(path); int created = tbl_write_path(&w2, t, path, &res); _exit(created && res.all_ok ? 10 : 11); }
            int st = 0; waitpid(pid, &st, 0); v_case(v_hash(&N, sizeof N, (uint64_t)ti * 7919 + 5)); v_count("fsize_limits_injected");
            if (WIFEXITED(st) && WEXITSTATUS(st) == 10) { size_t gn = 0; uint8_t* got = rd_slurp(path, &gn); if (!got || gn != ref.n || memcmp(got, ref.p, ref.n)) { snprintf(key, sizeof key, "sink-failure:all-calls-OK-but-bytes-missing:path-writer:%s", (size_t)N + 8 >= ref.n ? "limit-in-last-8-bytes" : N < 4 ? "limit-in-leading-magic" : "limit-inside-file"); v_viol(key, "table=%d codec=%d RLIMIT_FSIZE=%ld of %zu bytes: every call incl. close returned OK, file holds %zu bytes", ti, t->codec, N, ref.n, got ? gn : 0); } free(got); }
            else if (WIFEXITED(st) && WEXITSTATUS(st) == 11) v_count("fsize_failures_reported"); else { snprintf(key, sizeof key, "sink-failure:writer-crashed"); v_viol(key, "table=%d RLIMIT_FSIZE=%ld status=%d", ti, N, st); }
            unlink(path); }
        /* /dev/full: open succeeds, every flush fails */
        { twrite_result_t res; vrng_t w2; vrng_seed(&w2, 42); int created = tbl_write_path(&w2, t, "/dev/full", &res); v_case(v_hash("devfull", 7, (uint64_t)ti)); v_count("dev_full_runs"); if (created && res.all_ok && ref.n > 0) { v_viol("sink-failure:all-calls-OK-but-bytes-missing:path-writer:dev-full", "table=%d codec=%d: every call incl. close returned OK on /dev/full", ti, t->codec); } }
        /* (iii) abort after every prefix of the write history: no file left, no descriptor held */
        { int nb = 0; for (int g = 0; g < t->nrg; g++) for (int c = 0; c < t->ncols; c++) nb += t->rg[g][c].nbatches;
          for (int stop = 0; stop <= nb; stop++) { int fd0 = count_fds(); int r = abort_after(t, path, stop); if (r < 0) continue; v_case(v_hash(&stop, sizeof stop, (uint64_t)ti * 31 + 9)); v_count("aborts");
              if (r == 1) { v_viol("abort:file-left-behind", "table=%d after %d batches", ti, stop); unlink(path); }
              int fd1 = count_fds(); if (fd0 >= 0 && fd1 != fd0) v_viol("abort:descriptor-leaked", "table=%d after %d batches: %d -> %d open descriptors", ti, stop, fd0, fd1); }
          /* the same with an output path longer than 255 characters (two 200-character directories): what abort removes must be the file it created */
          { char longp[900]; char d1[300], d2[600]; memset(d1, 0, sizeof d1); memset(d2, 0, sizeof d2); snprintf(d1, sizeof d1, "%s/", tmpdir); size_t l1 = strlen(d1); memset(d1 + l1, 'a', 200); mkdir(d1, 0777); snprintf(d2, sizeof d2, "%s/", d1); size_t l2 = strlen(d2); memset(d2 + l2, 'b', 200); mkdir(d2, 0777); snprintf(longp, sizeof longp, "%s/long.parquet", d2);
            for (int stop = 0; stop <= nb; stop += (nb > 4 ? nb / 2 : 1)) { int r = abort_after(t, longp, stop); if (r < 0) continue; v_count("aborts_with_path_over_255_chars"); if (r == 1) { v_viol("abort:file-left-behind:long-path", "table=%d after %d batches, path of %zu characters", ti, stop, strlen(longp)); unlink(longp); } } rmdir(d2); rmdir(d1); }
          /* (iv) abort while the sink is failing: buffered bytes cannot be flushed (file size limit) or the close itself fails; the file must go all the same */
          static const int stops_sel[3] = {0, 1, -1}; long lims[5] = {0, 3, 16, (long)ref.n / 2, (long)ref.n > 9 ? (long)ref.n - 9 : 1};
          for (int si = 0; si < 3; si++) for (int li = 0; li < 5; li++) { int stop = stops_sel[si] < 0 ? nb : stops_sel[si]; if (stop > nb) continue; fflush(stdout); pid_t pid = fork();
              if (pid == 0) { struct rlimit rl = {(rlim_t)lims[li], (rlim_t)lims[li]}; signal(SIGXFSZ, SIG_IGN); setrlimit(RLIMIT_FSIZE, &rl); int r = abort_after(t, path, stop); _exit(r == 1 ? 12 : r == 0 ? 10 : 13); }
              int st = 0; waitpid(pid, &st, 0); v_count("aborts_under_file_size_limit"); if (WIFEXITED(st) && WEXITSTATUS(st) == 12) { v_viol("abort:file-left-behind:sink-failing", "table=%d after %d batches under RLIMIT_FSIZE=%ld", ti, stop, lims[li]); } else if (!WIFEXITED(st) || (WEXITSTATUS(st) != 10 && WEXITSTATUS(st) != 13)) v_viol("abort:crashed:sink-failing", "table=%d stop=%d status=%d", ti, stop, st); unlink(path); }
          for (int si = 0; si < 3; si++) { int stop = stops_sel[si] < 0 ? nb : stops_sel[si]; if (stop > nb) continue; FCLOSE_FAIL = 1; int r = abort_after(t, path, stop); FCLOSE_FAIL = 0; v_count("aborts_with_failing_fclose"); if (r == 1) { v_viol("abort:file-left-behind:fclose-failing", "table=%d after %d batches", ti, stop); unlink(path); } } }
        /* (v) the close of a path-based writer's stream reports failure after everything was flushed: carquet_writer_close must not say OK */
        { twrite_result_t res; vrng_t w2; vrng_seed(&w2, 42); unlink(path); FCLOSE_FAIL = 1; long before = FCLOSE_FAILED; int created = tbl_write_path(&w2, t, path, &res); FCLOSE_FAIL = 0; v_case(v_hash("fclosefail", 10, (uint64_t)ti)); if (FCLOSE_FAILED > before) v_count("fclose_failures_injected");
          if (created && res.all_ok && FCLOSE_FAILED > before) v_viol("sink-failure:all-calls-OK-although-fclose-failed:path-writer", "table=%d codec=%d: the stream's fclose returned EOF/EIO, carquet_writer_close returned OK", ti, t->codec); else if (FCLOSE_FAILED > before) v_count("fclose_failures_reported"); unlink(path); }
        free(ref.p); tbl_free(t); }
    v_sample("sink: %d small tables x {fopencookie write callback failing at every call index (0-return with ENOSPC or EIO / short write; a cookie write function must not return a negative value) under unbuffered, line-buffered and fully-buffered streams of 1 B..1 MiB; path writer under RLIMIT_FSIZE=N for every N; /dev/full; abort after every prefix of the write history}", ntables);
}

int main(int argc, char** argv) {
    if (argc < 5) return 2; (void)carquet_init();
    if (!strcmp(argv[1], "trunc") && argc >= 6) trunc_section(argv[3], argv[4], atol(argv[2]), argv[5]);
    else if (!strcmp(argv[1], "sink")) { vrng_seed(&R, strtoull(argv[2], 0, 10) * 613 + 3); sink_section(atoi(argv[3]), argv[4]); }
    else return 2;
    v_finish(); return 0;
}
