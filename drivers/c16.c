/* C16: statistics are true bounds and pruning never discards matching data.
 * usage: c16 builder <seed> <scale>
 *        c16 prune <seed> <parquet> <tdmp> [...] */
#include "rdchk.h"
#include "thrift/parquet_types.h"
#include "core/arena.h"
#include <math.h>

typedef struct carquet_statistics_builder carquet_statistics_builder_t;
carquet_statistics_builder_t* carquet_statistics_builder_create(carquet_physical_type_t, int32_t);
void carquet_statistics_builder_destroy(carquet_statistics_builder_t*);
void carquet_statistics_add_nulls(carquet_statistics_builder_t*, int64_t);
carquet_status_t carquet_statistics_add_values(carquet_statistics_builder_t*, const void*, int64_t);
carquet_status_t carquet_statistics_add_byte_arrays(carquet_statistics_builder_t*, const carquet_byte_array_t*, int64_t);
carquet_status_t carquet_statistics_build(const carquet_statistics_builder_t*, carquet_arena_t*, parquet_statistics_t*);
carquet_status_t carquet_statistics_compare(const parquet_statistics_t*, carquet_physical_type_t, const void*, size_t, int*);
carquet_status_t carquet_statistics_range_overlaps(const parquet_statistics_t*, carquet_physical_type_t, const void*, const void*, size_t, bool*);
typedef struct carquet_column_index_builder carquet_column_index_builder_t;
carquet_column_index_builder_t* carquet_column_index_builder_create(carquet_physical_type_t, int32_t);
void carquet_column_index_builder_destroy(carquet_column_index_builder_t*);
carquet_status_t carquet_column_index_add_page(carquet_column_index_builder_t*, int64_t, const void*, int32_t, const void*, int32_t, bool);
carquet_status_t carquet_column_index_page_might_match(const carquet_column_index_builder_t*, int32_t, const void*, const void*, int32_t, bool*);

static vrng_t R;
static const char* TN[] = {"BOOLEAN", "INT32", "INT64", "INT96", "FLOAT", "DOUBLE", "BYTE_ARRAY", "FLBA"};

/* type order; NaN handled by the caller. returns <0,0,>0 */
static int tcmp(int type, const void* a, size_t al, const void* b, size_t bl) {
    switch (type) {
    case CARQUET_PHYSICAL_BOOLEAN: { uint8_t x = *(const uint8_t*)a, y = *(const uint8_t*)b; return (x > y) - (x < y); }
    case CARQUET_PHYSICAL_INT32: { int32_t x, y; memcpy(&x, a, 4); memcpy(&y, b, 4); return (x > y) - (x < y); }
    case CARQUET_PHYSICAL_INT64: { int64_t x, y; memcpy(&x, a, 8); memcpy(&y, b, 8); return (x > y) - (x < y); }
    case CARQUET_PHYSICAL_FLOAT: { float x, y; memcpy(&x, a, 4); memcpy(&y, b, 4); return (x > y) - (x < y); }
    case CARQUET_PHYSICAL_DOUBLE: { double x, y; memcpy(&x, a, 8); memcpy(&y, b, 8); return (x > y) - (x < y); }
    case CARQUET_PHYSICAL_INT96: { const uint8_t* x = a; const uint8_t* y = b; for (int w = 2; w >= 0; w--) { uint32_t p, q; memcpy(&p, x + 4 * w, 4); memcpy(&q, y + 4 * w, 4); if (p != q) return (p > q) - (p < q); } return 0; }
    default: { size_t m = al < bl ? al : bl; int c = m ? memcmp(a, b, m) : 0; if (c) return c; return (al > bl) - (al < bl); } }
}
static int is_nan(int type, const void* p) { if (type == CARQUET_PHYSICAL_FLOAT) { float x; memcpy(&x, p, 4); return x != x; } if (type == CARQUET_PHYSICAL_DOUBLE) { double x; memcpy(&x, p, 8); return x != x; } return 0; }

/* total order with NaN placed last (mode 2) or first (mode 4) */
static int ncmp(int type, int mode, const void* a, size_t al, const void* b, size_t bl) {
    int an = is_nan(type, a), bn = is_nan(type, b); if (an && bn) return 0; if (an) return mode == 2 ? 1 : -1; if (bn) return mode == 2 ? -1 : 1; return tcmp(type, a, al, b, bl);
}
/* are (mn,mx) bounds of the value set under one of the three NaN treatments? returns bitmask of the treatments that hold: 1 ignored, 2 NaN greatest, 4 NaN smallest */
static int bounds_ok(int type, uint8_t** vals, size_t* lens, int n, const void* mn, size_t mnl, const void* mx, size_t mxl) {
    int res = 0; int real = 0; for (int i = 0; i < n; i++) if (!is_nan(type, vals[i])) real++;
    /* ignored: NaNs are not values; the bounds must be real numbers bounding the real values (vacuous when there are none) */
    { int ok = 1; if (real) { if ((mn && is_nan(type, mn)) || (mx && is_nan(type, mx))) ok = 0; for (int i = 0; i < n && ok; i++) { if (is_nan(type, vals[i])) continue; if (mn && tcmp(type, mn, mnl, vals[i], lens[i]) > 0) ok = 0; if (mx && tcmp(type, mx, mxl, vals[i], lens[i]) < 0) ok = 0; } } if (ok) res |= 1; }
    for (int mode = 2; mode <= 4; mode += 2) { int ok = 1; for (int i = 0; i < n && ok; i++) { if (mn && ncmp(type, mode, mn, mnl, vals[i], lens[i]) > 0) ok = 0; if (mx && ncmp(type, mode, mx, mxl, vals[i], lens[i]) < 0) ok = 0; } if (ok) res |= mode; }
    return res;
}

static void gen_value(int type, size_t es, uint8_t* out, int law) {
    vrng_bytes(&R, out, es);
    if (type == CARQUET_PHYSICAL_INT32) { int32_t x = law == 1 ? (vrng_chance(&R, 1, 2) ? INT32_MIN : INT32_MAX) : law == 2 ? (int32_t)vrng_range(&R, -3, 3) : (int32_t)vrng_u64(&R); memcpy(out, &x, 4); }
    else if (type == CARQUET_PHYSICAL_INT64) { int64_t x = law == 1 ? (vrng_chance(&R, 1, 2) ? INT64_MIN : INT64_MAX) : law == 2 ? vrng_range(&R, -3, 3) : (int64_t)vrng_u64(&R); memcpy(out, &x, 8); }
    else if (type == CARQUET_PHYSICAL_FLOAT) { float x = law == 2 ? (float)vrng_range(&R, -3, 3) * 0.5f : (float)((double)(int64_t)vrng_u64(&R) / 1e12); if (law == 1) { static const uint32_t sp[] = {0x7FC00000u, 0xFFC00001u, 0x7F800000u, 0xFF800000u, 0x80000000u, 0, 1}; uint32_t u = sp[vrng_below(&R, 7)]; memcpy(&x, &u, 4); } memcpy(out, &x, 4); }
    else if (type == CARQUET_PHYSICAL_DOUBLE) { double x = law == 2 ? (double)vrng_range(&R, -3, 3) * 0.25 : (double)(int64_t)vrng_u64(&R) / 1e9; if (law == 1) { static const uint64_t sp[] = {0x7FF8000000000000ULL, 0xFFF8000000000001ULL, 0x7FF0000000000000ULL, 0xFFF0000000000000ULL, 0x8000000000000000ULL, 0, 1}; uint64_t u = sp[vrng_below(&R, 7)]; memcpy(&x, &u, 8); } memcpy(out, &x, 8); }
    else if (type == CARQUET_PHYSICAL_BOOLEAN) out[0] &= 1;
    else if (law == 2) for (size_t i = 0; i < es; i++) out[i] = (uint8_t)('a' + vrng_below(&R, 2));
}

static void builder_section(int scale) {
    int64_t cases = scale >= 2 ? 40000 : 4000; char key[160];
    for (int64_t ci = 0; ci < cases; ci++) { int type = (int)(ci % 8); int32_t tl = 0; size_t es;
        if (type == CARQUET_PHYSICAL_FIXED_LEN_BYTE_ARRAY) { static const int32_t big[] = {255, 256, 257, 300}; tl = vrng_chance(&R, 1, 12) ? big[vrng_below(&R, 4)] : 1 + (int32_t)vrng_below(&R, 40); }
        es = type == 0 ? 1 : type == 1 || type == 4 ? 4 : type == 2 || type == 5 ? 8 : type == 3 ? 12 : type == 7 ? (size_t)tl : 0;
        int n = (int)(ci < 16 ? ci / 8 : vrng_below(&R, 40)); int law = (int)vrng_below(&R, 3); int64_t nulls = (int64_t)vrng_below(&R, 5);
        uint8_t** vals = calloc((size_t)n + 1, sizeof(uint8_t*)); size_t* lens = calloc((size_t)n + 1, sizeof(size_t));
        for (int i = 0; i < n; i++) { size_t L = es ? es : (vrng_chance(&R, 1, 15) ? 250 + vrng_below(&R, 60) : vrng_below(&R, law == 2 ? 4 : 20)); vals[i] = v_exact(L); lens[i] = L; gen_value(type, L, vals[i], law); }
        carquet_statistics_builder_t* b = carquet_statistics_builder_create((carquet_physical_type_t)type, tl); if (!b) continue;
        carquet_statistics_add_nulls(b, nulls); int refused = 0;
        /* values are handed over in 1..3 batches */
        int done = 0; while (done < n) { int k = 1 + (int)vrng_below(&R, (uint64_t)(n - done)); carquet_status_t st;
            if (type == CARQUET_PHYSICAL_BYTE_ARRAY) { carquet_byte_array_t* a = v_exact((size_t)k * sizeof *a); for (int i = 0; i < k; i++) { a[i].data = vals[done + i]; a[i].length = (int32_t)lens[done + i]; } st = carquet_statistics_add_byte_arrays(b, a, k); free(a); }
            else { uint8_t* flat = v_exact((size_t)k * es); for (int i = 0; i < k; i++) memcpy(flat + (size_t)i * es, vals[done + i], es); st = carquet_statistics_add_values(b, flat, k); free(flat); }
            if (st != CARQUET_OK) refused = 1; done += k; }
        carquet_arena_t ar; carquet_arena_init(&ar); parquet_statistics_t s; carquet_status_t st = carquet_statistics_build(b, &ar, &s);
        uint64_t h = (uint64_t)type * 131 + (uint64_t)n; for (int i = 0; i < n; i++) h = v_hash(vals[i], lens[i], h); v_case(n >= 1 ? h : 0);
        if (refused) v_count("builder_refused_values");
        else if (st == CARQUET_OK) { const void* mn = s.min_value_len > 0 ? s.min_value : NULL; const void* mx = s.max_value_len > 0 ? s.max_value : NULL; int big = 0; for (int i = 0; i < n; i++) if (lens[i] > 256) big = 1;
            int ok = bounds_ok(type, vals, lens, n, mn, (size_t)s.min_value_len, mx, (size_t)s.max_value_len);
            if (!ok) { snprintf(key, sizeof key, "builder:min-max-not-bounds:%s:%s", TN[type], big ? "value>256B" : (type == 4 || type == 5) ? "float" : "other"); v_viol(key, "n=%d law=%d tl=%d", n, law, tl); }
            if (!s.has_null_count || s.null_count != nulls) { snprintf(key, sizeof key, "builder:null-count:%s", TN[type]); v_viol(key, "nulls=%lld reported=%lld", (long long)nulls, (long long)s.null_count); }
            if (mn && mx) v_count("builder_stats_with_min_max"); if (big) v_count("builder_values_over_256_bytes");
            /* helpers must not exclude a value that is present (NaN-free sets only: the property leaves NaN semantics open) */
            int nanfree = 1; for (int i = 0; i < n; i++) if (is_nan(type, vals[i])) nanfree = 0;
            if (nanfree && ok) for (int i = 0; i < n; i++) { int res = 99; if (carquet_statistics_compare(&s, (carquet_physical_type_t)type, vals[i], lens[i], &res) == CARQUET_OK && res != 0) { snprintf(key, sizeof key, "helper:statistics_compare-excludes-present-value:%s", TN[type]); v_viol(key, "res=%d n=%d", res, n); break; } v_count("compare_helper_calls"); }
            if (nanfree && ok && type != 0 && type != 3) for (int q = 0; q < 6 && n > 0; q++) { /* query ranges around stored values */
                int i = (int)vrng_below(&R, (uint64_t)n), j = (int)vrng_below(&R, (uint64_t)n); const uint8_t* lo = vals[i]; const uint8_t* hi = vals[j]; size_t ll = lens[i], hl = lens[j]; if (tcmp(type, lo, ll, hi, hl) > 0) { const uint8_t* t = lo; lo = hi; hi = t; size_t tt = ll; ll = hl; hl = tt; }
                if (type == CARQUET_PHYSICAL_BYTE_ARRAY && ll != hl) continue;   /* the helper takes one length for both ends */
                bool ov = false; int use_lo = q != 4, use_hi = q != 5; if (carquet_statistics_range_overlaps(&s, (carquet_physical_type_t)type, use_lo ? lo : NULL, use_hi ? hi : NULL, ll, &ov) == CARQUET_OK && !ov) { snprintf(key, sizeof key, "helper:range_overlaps-excludes-present-range:%s", TN[type]); v_viol(key, "n=%d q=%d", n, q); break; } v_count("range_helper_calls"); } }
        carquet_arena_destroy(&ar); carquet_statistics_builder_destroy(b);
        /* page-level might-match: one page per case with exact typed min/max */
        if (n > 0 && type != 0 && type != 3) { int nanfree = 1; for (int i = 0; i < n; i++) if (is_nan(type, vals[i])) nanfree = 0;
            if (nanfree) { int imn = 0, imx = 0; for (int i = 1; i < n; i++) { if (tcmp(type, vals[i], lens[i], vals[imn], lens[imn]) < 0) imn = i; if (tcmp(type, vals[i], lens[i], vals[imx], lens[imx]) > 0) imx = i; }
                if (lens[imn] > 0 && lens[imx] > 0) { carquet_column_index_builder_t* cb = carquet_column_index_builder_create((carquet_physical_type_t)type, tl);
                    if (cb && carquet_column_index_add_page(cb, nulls, vals[imn], (int32_t)lens[imn], vals[imx], (int32_t)lens[imx], false) == CARQUET_OK) {
                        for (int q = 0; q < 8; q++) { int i = (int)vrng_below(&R, (uint64_t)n); /* point query on a stored value, and ranges that contain it */ const uint8_t* v = vals[i]; size_t L = lens[i]; bool mm = true;
                            const void* qlo = q % 3 == 1 ? NULL : v; const void* qhi = q % 3 == 2 ? NULL : v;
                            if (carquet_column_index_page_might_match(cb, 0, qlo, qhi, (int32_t)L, &mm) == CARQUET_OK && !mm) { snprintf(key, sizeof key, "helper:page_might_match-excludes-present-value:%s", TN[type]); v_viol(key, "n=%d len=%zu", n, L); break; } v_count("page_might_match_calls"); } }
                    if (cb) carquet_column_index_builder_destroy(cb); } } }
        for (int i = 0; i < n; i++) free(vals[i]); free(vals); free(lens); }
    v_sample("builder: %lld value sets over 8 physical types (extremes, NaN/inf/-0.0/denormals, byte arrays 0..310 bytes, FLBA 1..40 and 255/256/257/300), min/max/null_count vs brute force under one consistent NaN treatment; compare/range_overlaps/page_might_match must not exclude present values", (long long)cases);
}

/* ---- pruning through the reader API ------------------------------------------------------------ */
static int op_holds(int op, int c /* cmp(x, probe) */) { switch (op) { case CARQUET_COMPARE_EQ: return c == 0; case CARQUET_COMPARE_NE: return c != 0; case CARQUET_COMPARE_LT: return c < 0; case CARQUET_COMPARE_LE: return c <= 0; case CARQUET_COMPARE_GT: return c > 0; default: return c >= 0; } }
static const char* OPN[] = {"EQ", "NE", "LT", "LE", "GT", "GE"};
static void prune_file(const char* path, const char* tdmp) {
    table_t* t = tbl_load(tdmp); carquet_error_t err = CARQUET_ERROR_INIT; ropen_t o; const char* bn = strrchr(path, '/') ? strrchr(path, '/') + 1 : path; char key[160];
    if (!rd_open(&o, path, IO_BUFFER, 1, 1, &err)) { v_viol("prune:open-failed", "%s %s", bn, err.message); tbl_free(t); return; }
    int ng = carquet_reader_num_row_groups(o.rd); if (ng != t->nrg) { v_viol("prune:layout", "%s", bn); rd_close(&o); tbl_free(t); return; }
    for (int c = 0; c < t->ncols; c++) { const tcol_t* col = &t->cols[c]; int type = col->type; if (type == CARQUET_PHYSICAL_BOOLEAN || type == CARQUET_PHYSICAL_INT96) continue; size_t es = t_elem_size(col);
        /* probes: every stored value of a few groups, +-1 neighbours, extremes, prefixes */
        int np = 0; uint8_t* probes[400]; size_t pl[400];
        for (int g = 0; g < t->nrg && np < 300; g++) { const tchunk_t* k = &t->rg[g][c]; for (int64_t i = 0; i < k->nvals && i < 12 && np < 300; i++) { int64_t vi = i < 6 ? i : k->nvals - 1 - (i - 6); if (vi < 0 || vi >= k->nvals) continue;
                const uint8_t* v = type == CARQUET_PHYSICAL_BYTE_ARRAY ? k->ba_ptr[vi] : k->fixed + (size_t)vi * es; size_t L = type == CARQUET_PHYSICAL_BYTE_ARRAY ? k->ba_len[vi] : es;
                probes[np] = v_exact_copy(v, L); pl[np++] = L;
                /* neighbours */
                if (type == CARQUET_PHYSICAL_INT32) { for (int d = -1; d <= 1; d += 2) { int32_t x; memcpy(&x, v, 4); if ((d < 0 && x == INT32_MIN) || (d > 0 && x == INT32_MAX)) continue; x += d; probes[np] = v_exact_copy(&x, 4); pl[np++] = 4; } }
                else if (type == CARQUET_PHYSICAL_INT64) { for (int d = -1; d <= 1; d += 2) { int64_t x; memcpy(&x, v, 8); if ((d < 0 && x == INT64_MIN) || (d > 0 && x == INT64_MAX)) continue; x += d; probes[np] = v_exact_copy(&x, 8); pl[np++] = 8; } }
                else if (type == CARQUET_PHYSICAL_FLOAT) { for (int d = -1; d <= 1; d += 2) { float x; memcpy(&x, v, 4); x = nextafterf(x, d < 0 ? -INFINITY : INFINITY); probes[np] = v_exact_copy(&x, 4); pl[np++] = 4; } }
                else if (type == CARQUET_PHYSICAL_DOUBLE) { for (int d = -1; d <= 1; d += 2) { double x; memcpy(&x, v, 8); x = nextafter(x, d < 0 ? -INFINITY : INFINITY); probes[np] = v_exact_copy(&x, 8); pl[np++] = 8; } }
                else if (type == CARQUET_PHYSICAL_BYTE_ARRAY) { if (L > 0) { probes[np] = v_exact_copy(v, L - 1); pl[np++] = L - 1; } uint8_t* w = v_exact(L + 1); memcpy(w, v, L); w[L] = 0; probes[np] = w; pl[np++] = L + 1; }
                else { uint8_t* w = v_exact_copy(v, L); if (L) w[L - 1] ^= 1; probes[np] = w; pl[np++] = L; } } }
        /* fixed probes: both zeros, infinities and the type limits (orderings that treat -0.0 < +0.0, or differences that wrap, show here) */
        if (type == CARQUET_PHYSICAL_FLOAT) { static const float FP[] = {0.0f, -0.0f, INFINITY, -INFINITY, 3.4028234664e38f, -3.4028234664e38f, 1.401298464e-45f, NAN}; for (int q = 0; q < 8 && np < 390; q++) { probes[np] = v_exact_copy(&FP[q], 4); pl[np++] = 4; } }
        else if (type == CARQUET_PHYSICAL_DOUBLE) { static const double DP[] = {0.0, -0.0, INFINITY, -INFINITY, 1.7976931348623157e308, -1.7976931348623157e308, 4.9406564584124654e-324, NAN}; for (int q = 0; q < 8 && np < 390; q++) { probes[np] = v_exact_copy(&DP[q], 8); pl[np++] = 8; } }
        else if (type == CARQUET_PHYSICAL_INT32) { static const int32_t IP[] = {0, -1, 1, INT32_MIN, INT32_MAX, INT32_MIN + 1, INT32_MAX - 1}; for (int q = 0; q < 7 && np < 390; q++) { probes[np] = v_exact_copy(&IP[q], 4); pl[np++] = 4; } }
        else if (type == CARQUET_PHYSICAL_INT64) { static const int64_t LP[] = {0, -1, 1, INT64_MIN, INT64_MAX, (int64_t)INT32_MAX + 1, (int64_t)INT32_MIN - 1}; for (int q = 0; q < 7 && np < 390; q++) { probes[np] = v_exact_copy(&LP[q], 8); pl[np++] = 8; } }
        else if (type == CARQUET_PHYSICAL_BYTE_ARRAY && np < 390) { probes[np] = v_exact(0); pl[np++] = 0; }
        for (int p = 0; p < np; p++) for (int op = 0; op < 6; op++) { int* truth = calloc((size_t)ng + 1, sizeof(int)); int* says = calloc((size_t)ng + 1, sizeof(int)); int nsay = 0;
            for (int g = 0; g < ng; g++) { const tchunk_t* k = &t->rg[g][c]; for (int64_t i = 0; i < k->nvals && !truth[g]; i++) { const uint8_t* v = type == CARQUET_PHYSICAL_BYTE_ARRAY ? k->ba_ptr[i] : k->fixed + (size_t)i * es; size_t L = type == CARQUET_PHYSICAL_BYTE_ARRAY ? k->ba_len[i] : es; if (is_nan(type, v) || is_nan(type, probes[p])) continue;   /* what a predicate means for NaN is left open: only rows and probes that are numbers decide */ if (op_holds(op, tcmp(type, v, L, probes[p], pl[p]))) truth[g] = 1; }
                bool mm = false; carquet_status_t st = carquet_reader_row_group_matches(o.rd, g, c, (carquet_compare_op_t)op, probes[p], (int32_t)pl[p], &mm); says[g] = (st != CARQUET_OK) || mm; nsay += says[g];
                carquet_column_statistics_t cs; memset(&cs, 0, sizeof cs); (void)carquet_reader_column_statistics(o.rd, g, c, &cs);
                if (truth[g] && !says[g]) { snprintf(key, sizeof key, "prune:row-group-with-matching-row-excluded:%s:%s", TN[type], OPN[op]); v_viol(key, "%s rg=%d col=%d", bn, g, c); }
                if (!cs.has_min_max && !says[g]) { snprintf(key, sizeof key, "prune:group-without-statistics-excluded:%s", TN[type]); v_viol(key, "%s rg=%d col=%d op=%s", bn, g, c, OPN[op]); }
                if (!cs.has_min_max) v_count("groups_without_min_max_probed"); v_count("predicate_evaluations"); if (!says[g]) v_count("groups_pruned"); }
            /* filter_row_groups: ascending list of the groups that might match, capped at max_indices */
            int caps[3] = {1, ng, ng + 1}; for (int ci = 0; ci < 3; ci++) { int m = caps[ci]; int32_t* out = v_exact((size_t)m * 4); int32_t got = carquet_reader_filter_row_groups(o.rd, c, (carquet_compare_op_t)op, probes[p], (int32_t)pl[p], out, m); int want = nsay < m ? nsay : m; int bad = got != want; int j = 0;
                for (int g = 0; g < ng && j < want && !bad; g++) if (says[g]) { if (out[j] != g) bad = 1; j++; }
                if (bad) { snprintf(key, sizeof key, "prune:filter_row_groups-list-wrong:%s", TN[type]); v_viol(key, "%s col=%d op=%s max=%d got=%d want=%d", bn, c, OPN[op], m, got, want); } free(out); v_count("filter_calls"); }
            free(truth); free(says); v_case(v_hash(probes[p], pl[p], (uint64_t)op * 7 + (uint64_t)c * 131 + v_hash(bn, strlen(bn), 3))); }
        for (int p = 0; p < np; p++) free(probes[p]); }
    rd_close(&o); tbl_free(t); v_count("pruning_files");
}

int main(int argc, char** argv) {
    if (argc < 4) return 2; (void)carquet_init(); uint64_t seed = strtoull(argv[2], 0, 10); vrng_seed(&R, seed * 271 + 7);
    if (!strcmp(argv[1], "builder")) builder_section(atoi(argv[3]));
    else if (!strcmp(argv[1], "prune")) { for (int a = 3; a + 1 < argc; a += 2) prune_file(argv[a], argv[a + 1]); }
    else return 2;
    v_finish(); return 0;
}
