/* C11: every encoding decodes its own output. In-process monitor with exact-size buffers.
 * usage: c11 <section> <seed> <scale>
 */
#include "vdrv.h"
#include <carquet/carquet.h>
#include "encoding/rle.h"
#include "encoding/plain.h"
#include "core/bitpack.h"
#include "core/buffer.h"

carquet_status_t carquet_delta_decode_int32(const uint8_t*, size_t, int32_t*, int32_t, size_t*);
carquet_status_t carquet_delta_decode_int64(const uint8_t*, size_t, int64_t*, int32_t, size_t*);
carquet_status_t carquet_delta_encode_int32(const int32_t*, int32_t, uint8_t*, size_t, size_t*);
carquet_status_t carquet_delta_encode_int64(const int64_t*, int32_t, uint8_t*, size_t, size_t*);
carquet_status_t carquet_delta_length_decode(const uint8_t*, size_t, carquet_byte_array_t*, int32_t, size_t*);
carquet_status_t carquet_delta_length_encode(const carquet_byte_array_t*, int32_t, carquet_buffer_t*);
carquet_status_t carquet_delta_strings_decode(const uint8_t*, size_t, carquet_byte_array_t*, int32_t, uint8_t*, size_t, size_t*);
carquet_status_t carquet_delta_strings_encode(const carquet_byte_array_t*, int32_t, carquet_buffer_t*);
size_t carquet_delta_strings_work_buffer_size(const carquet_byte_array_t*, int32_t);
carquet_status_t carquet_byte_stream_split_encode_float(const float*, int64_t, uint8_t*, size_t, size_t*);
carquet_status_t carquet_byte_stream_split_decode_float(const uint8_t*, size_t, float*, int64_t);
carquet_status_t carquet_byte_stream_split_encode_double(const double*, int64_t, uint8_t*, size_t, size_t*);
carquet_status_t carquet_byte_stream_split_decode_double(const uint8_t*, size_t, double*, int64_t);
carquet_status_t carquet_byte_stream_split_encode(const uint8_t*, int64_t, int32_t, uint8_t*, size_t, size_t*);
carquet_status_t carquet_byte_stream_split_decode(const uint8_t*, size_t, int32_t, uint8_t*, int64_t);
carquet_status_t carquet_dictionary_encode_int32(const int32_t*, int64_t, carquet_buffer_t*, carquet_buffer_t*);
carquet_status_t carquet_dictionary_encode_int64(const int64_t*, int64_t, carquet_buffer_t*, carquet_buffer_t*);
carquet_status_t carquet_dictionary_encode_float(const float*, int64_t, carquet_buffer_t*, carquet_buffer_t*);
carquet_status_t carquet_dictionary_encode_double(const double*, int64_t, carquet_buffer_t*, carquet_buffer_t*);
carquet_status_t carquet_dictionary_decode_int32(const uint8_t*, size_t, int32_t, const uint8_t*, size_t, int32_t*, int64_t);
carquet_status_t carquet_dictionary_decode_int64(const uint8_t*, size_t, int32_t, const uint8_t*, size_t, int64_t*, int64_t);
carquet_status_t carquet_dictionary_decode_float(const uint8_t*, size_t, int32_t, const uint8_t*, size_t, float*, int64_t);
carquet_status_t carquet_dictionary_decode_double(const uint8_t*, size_t, int32_t, const uint8_t*, size_t, double*, int64_t);

static vrng_t R;

/* ---- shape predicate for RLE witnesses (input-side): does a run >= 8 start while a bit-packed
 * group is partially filled, per the spec's grouping? */
static const char* rle_shape(const uint32_t* v, int64_t n) {
    /* simulate the canonical greedy grouping: literals pending mod 8 when a run of >=8 begins */
    int64_t pending = 0; int64_t i = 0; int partial_then_run = 0;
    while (i < n) {
        int64_t j = i; while (j < n && v[j] == v[i]) j++;
        int64_t len = j - i;
        if (len >= 8) { if (pending % 8) partial_then_run = 1; pending = 0; }
        else pending += len;
        i = j;
    }
    return partial_then_run ? "run>=8-after-partial-group" : "other";
}

static void fmt_seq(char* out, size_t cap, const uint32_t* v, int64_t n) {
    size_t o = 0; out[0] = 0;
    for (int64_t i = 0; i < n && i < 64 && o + 12 < cap; i++) o += (size_t)snprintf(out + o, cap - o, "%u,", v[i]);
    if (n > 64 && o + 4 < cap) snprintf(out + o, cap - o, "...");
}

/* one RLE round trip through every API flavour; seq values < 2^width */
static void rle_case(const uint32_t* v, int64_t n, int width, int do_stream) {
    char key[128], s[700];
    uint64_t h = v_hash(v, (size_t)n * 4, (uint64_t)width * 131 + 7);
    v_case(n >= 2 ? h : 0);
    /* --- encode_all / decode_all --- */
    carquet_buffer_t buf; carquet_buffer_init(&buf);
    carquet_status_t st = carquet_rle_encode_all(v, n, width, &buf);
    if (st != CARQUET_OK) { v_count("rle_encode_refused"); if (n > 0) v_viol("rle:encoder-refuses-nonempty-input", "width=%d n=%lld status=%d", width, (long long)n, st); carquet_buffer_destroy(&buf); return; }
    uint8_t* enc = v_exact_copy(buf.data, buf.size); size_t enc_n = buf.size;
    uint32_t* out = v_exact((size_t)n * 4);
    /* --- the streaming encoder fed run by run (put_repeat for whole runs, parts of runs and runs of length 1, put otherwise), as the level writers use it --- */
    { carquet_buffer_t sb; carquet_buffer_init(&sb); carquet_rle_encoder_t se; carquet_rle_encoder_init(&se, &sb, width); int okst = 1; uint64_t plan = h; char how[200]; size_t hn = 0; how[0] = 0;
      for (int64_t i = 0; i < n && okst;) { int64_t j = i; while (j < n && v[j] == v[i]) j++; int64_t run = j - i; plan = plan * 6364136223846793005ULL + 1442695040888963407ULL; int mode = (int)((plan >> 33) % 4);
          if (mode == 0) { okst = carquet_rle_encoder_put_repeat(&se, v[i], run) == CARQUET_OK; if (hn + 12 < sizeof how) hn += (size_t)snprintf(how + hn, sizeof how - hn, "R%lld ", (long long)run); }
          else if (mode == 1 && run >= 2) { int64_t a = 1 + (int64_t)((plan >> 40) % (uint64_t)(run - 1)); okst = carquet_rle_encoder_put_repeat(&se, v[i], a) == CARQUET_OK && carquet_rle_encoder_put_repeat(&se, v[i], run - a) == CARQUET_OK; if (hn + 20 < sizeof how) hn += (size_t)snprintf(how + hn, sizeof how - hn, "R%lld+R%lld ", (long long)a, (long long)(run - a)); }
          else { for (int64_t q = 0; q < run && okst; q++) okst = carquet_rle_encoder_put(&se, v[i]) == CARQUET_OK; if (hn + 12 < sizeof how) hn += (size_t)snprintf(how + hn, sizeof how - hn, "P%lld ", (long long)run); }
          i = j; }
      if (okst && carquet_rle_encoder_flush(&se) == CARQUET_OK) { uint8_t* e3 = v_exact_copy(sb.data, sb.size); int64_t g3 = carquet_rle_decode_all(e3, sb.size, width, out, n); v_count("rle_streaming_encoder_cases");
          if (g3 != n || (n && memcmp(out, v, (size_t)n * 4) != 0)) { snprintf(key, sizeof key, "rle:streaming-encoder-roundtrip:%s", rle_shape(v, n)); fmt_seq(s, sizeof s, v, n); v_viol(key, "width=%d n=%lld decoded=%lld calls=%s seq=%s", width, (long long)n, (long long)g3, how, s); }
          free(e3); }
      else v_count("rle_encode_refused");
      carquet_buffer_destroy(&sb); }
    int64_t got = carquet_rle_decode_all(enc, enc_n, width, out, n);
    if (got != n || (n && memcmp(out, v, (size_t)n * 4) != 0)) {
        fmt_seq(s, sizeof s, v, n);
        snprintf(key, sizeof key, "rle:roundtrip-values:%s", rle_shape(v, n));
        v_viol(key, "width=%d n=%lld got=%lld seq=%s", width, (long long)n, (long long)got, s);
    }
    /* --- streaming decoder must agree with one-shot under chunking/skips --- */
    if (do_stream && got == n) {
        for (int rep = 0; rep < 3; rep++) {
            carquet_rle_decoder_t dec; carquet_rle_decoder_init(&dec, enc, enc_n, width);
            int64_t pos = 0; int bad = 0; char hist[256]; size_t ho = 0; hist[0] = 0;
            while (pos < n && !bad) {
                int op = (int)vrng_below(&R, 3);
                int64_t k = (int64_t)vrng_below(&R, 12); if (k > n - pos) k = n - pos;
                if (ho + 16 < sizeof hist) ho += (size_t)snprintf(hist + ho, sizeof hist - ho, "%c%lld ", "gbs"[op], (long long)k);
                if (op == 0) {
                    if (!carquet_rle_decoder_has_next(&dec)) { bad = 1; break; }
                    uint32_t x = carquet_rle_decoder_get(&dec);
                    if (x != out[pos]) bad = 2; pos++;
                } else if (op == 1) {
                    uint32_t* tmp = v_exact((size_t)k * 4);
                    int64_t g = carquet_rle_decoder_get_batch(&dec, tmp, k);
                    if (g != k || (k && memcmp(tmp, out + pos, (size_t)k * 4))) bad = 3;
                    free(tmp); pos += k;
                } else {
                    int64_t g = carquet_rle_decoder_skip(&dec, k);
                    if (g != k) bad = 4; pos += k;
                }
            }
            v_count("rle_stream_histories");
            if (bad) {
                fmt_seq(s, sizeof s, v, n);
                v_viol("rle:stream-vs-oneshot", "width=%d n=%lld bad=%d history=%s seq=%s", width, (long long)n, bad, hist, s);
            }
        }
    }
    free(out); free(enc); carquet_buffer_destroy(&buf);
    /* --- levels flavour (int16 domain) with and without the 4-byte length prefix --- */
    if (width <= 15) {
        int16_t* lv = v_exact((size_t)n * 2);
        for (int64_t i = 0; i < n; i++) lv[i] = (int16_t)v[i];
        carquet_buffer_t lb; carquet_buffer_init(&lb);
        st = carquet_rle_encode_levels(lv, n, width, &lb);
        if (st == CARQUET_OK) {
            uint8_t* e2 = v_exact_copy(lb.data, lb.size);
            int16_t* lo = v_exact((size_t)n * 2);
            int64_t g2 = carquet_rle_decode_levels(e2, lb.size, width, lo, n);
            if (g2 != n || (n && memcmp(lo, lv, (size_t)n * 2))) {
                fmt_seq(s, sizeof s, v, n);
                snprintf(key, sizeof key, "rle:levels-roundtrip:%s", rle_shape(v, n));
                v_viol(key, "width=%d n=%lld got=%lld seq=%s", width, (long long)n, (long long)g2, s);
            }
            /* prefixed */
            size_t pn = lb.size + 4; uint8_t* pre = v_exact(pn);
            uint32_t L = (uint32_t)lb.size; memcpy(pre, &L, 4); if (lb.size) memcpy(pre + 4, lb.data, lb.size);
            size_t consumed = 12345; memset(lo, 0x55, (size_t)n * 2);
            int64_t g3 = carquet_rle_decode_levels_prefixed(pre, pn, width, lo, n, &consumed);
            if (g3 != n || consumed != pn || (n && memcmp(lo, lv, (size_t)n * 2))) {
                fmt_seq(s, sizeof s, v, n);
                snprintf(key, sizeof key, "rle:levels-prefixed:%s", (g3 == n && consumed != pn) ? "consumed" : rle_shape(v, n));
                v_viol(key, "width=%d n=%lld got=%lld consumed=%zu expect=%zu seq=%s", width, (long long)n, (long long)g3, consumed, pn, s);
            }
            free(pre); free(lo); free(e2);
            v_count("rle_levels_cases");
        }
        carquet_buffer_destroy(&lb); free(lv);
    }
    if (strcmp(rle_shape(v, n), "other")) v_count("rle_shape_run_after_partial_group");
}

static void sec_rle_exh(int scale) {
    /* all sequences over alphabet {0,1} up to length L2 (width 1) and {0,1,2} up to L3 (width 2) */
    int L2 = scale >= 2 ? 18 : 14, L3 = scale >= 2 ? 11 : 9;
    uint32_t v[32];
    for (int n = 0; n <= L2; n++) for (uint32_t m = 0; m < (1u << n); m++) {
        for (int i = 0; i < n; i++) v[i] = (m >> i) & 1;
        rle_case(v, n, 1, (m % 37) == 0);
    }
    v_count_n("rle_exh_binary_maxlen", (uint64_t)L2);
    for (int n = 0; n <= L3; n++) { uint32_t tot = 1; for (int i = 0; i < n; i++) tot *= 3;
        for (uint32_t m = 0; m < tot; m++) { uint32_t x = m; for (int i = 0; i < n; i++) { v[i] = x % 3; x /= 3; }
            rle_case(v, n, 2, (m % 53) == 0); } }
    v_count_n("rle_exh_ternary_maxlen", (uint64_t)L3);
    v_sample("rle_exh: all binary sequences up to length %d at width 1, all ternary up to %d at width 2", L2, L3);
}

/* runs longer than the 31 bits a run header can hold (thorough tier: about 2^31 encoder calls): the stream must still describe every value.
 * The decoder side is walked with skip(), so nothing of that size is ever stored. */
static void huge_run_case(void) { static const int64_t LENS[] = {2147483654LL, 2147483655LL, 2147483660LL};   /* 7 values of the run top up the open literal group: the run itself is 2^31-1, 2^31, 2^31+5 long */ for (int q = 0; q < 3; q++) { int64_t n = LENS[q]; carquet_buffer_t b; carquet_buffer_init(&b); carquet_rle_encoder_t e; carquet_rle_encoder_init(&e, &b, 3);
        carquet_status_t st = carquet_rle_encoder_put(&e, 5); if (st == CARQUET_OK) st = carquet_rle_encoder_put_repeat(&e, 6, n); if (st == CARQUET_OK) st = carquet_rle_encoder_put(&e, 2); if (st == CARQUET_OK) st = carquet_rle_encoder_flush(&e); v_case(v_hash(&n, 8, 77)); v_count("rle_runs_longer_than_2^31");
        if (st != CARQUET_OK) { v_count("rle_encode_refused"); carquet_buffer_destroy(&b); continue; }
        uint8_t* enc = v_exact_copy(b.data, b.size); carquet_rle_decoder_t d; carquet_rle_decoder_init(&d, enc, b.size, 3); int64_t total = 0; uint32_t first = carquet_rle_decoder_has_next(&d) ? carquet_rle_decoder_get(&d) : 99; total++; uint32_t last = 99;
        for (;;) { int64_t k = carquet_rle_decoder_skip(&d, 1 << 30); if (k <= 0) break; total += k; if (total > n + 100) break; }
        /* skip() ran to the end: re-walk to fetch the last value */
        carquet_rle_decoder_init(&d, enc, b.size, 3); int64_t sk = 0; while (sk < n + 1) { int64_t k = carquet_rle_decoder_skip(&d, n + 1 - sk < (1 << 30) ? n + 1 - sk : (1 << 30)); if (k <= 0) break; sk += k; } if (carquet_rle_decoder_has_next(&d)) last = carquet_rle_decoder_get(&d);
        if (total < n + 2 || total > n + 9 || first != 5 || last != 2) v_viol("rle:huge-run-truncated", "1 + %lld + 1 values written with status OK; the stream (%zu bytes) holds %lld values, first=%u last=%u", (long long)n, b.size, (long long)total, first, last);
        free(enc); carquet_buffer_destroy(&b); } }

static void sec_rle_runs(int scale) {
    if (scale >= 2) huge_run_case();
    /* all run-length triples (a,b,c) of alternating runs, several widths, values scaled to the width */
    int M = scale >= 2 ? 26 : 18;
    static const int widths[] = {1, 2, 3, 4, 5, 7, 8, 9, 15, 16, 17, 24, 31, 32};
    uint32_t* v = v_exact((size_t)(3 * M + 8) * 4 + 64);
    for (size_t wi = 0; wi < sizeof widths / sizeof *widths; wi++) {
        int w = widths[wi]; uint32_t top = w >= 32 ? 0xFFFFFFFFu : ((1u << w) - 1);
        uint32_t A = top, B = top > 1 ? top - 1 : 0, C = 0;
        if (w == 1) { A = 1; B = 0; C = 1; }
        for (int a = 0; a <= M; a++) for (int b = 0; b <= M; b++) for (int c = 0; c <= M; c++) {
            if (wi > 3 && ((a * 31 + b * 17 + c) % (scale >= 2 ? 2 : 5)) != 0) continue;
            int64_t n = 0;
            for (int i = 0; i < a; i++) v[n++] = A;
            for (int i = 0; i < b; i++) v[n++] = B;
            for (int i = 0; i < c; i++) v[n++] = C;
            rle_case(v, n, w, ((a + b + c) % 11) == 0);
        }
    }
    /* prefix literal tail p in 0..16 of distinct values, then run r in 0..40, then tail */
    for (int w = 2; w <= 32; w += 3) { uint32_t top = w >= 32 ? 0xFFFFFFFFu : ((1u << w) - 1);
        for (int p = 0; p <= 17; p++) for (int r = 0; r <= 41; r++) for (int t = 0; t <= 9; t += 3) {
            int64_t n = 0; uint32_t* u = v_exact((size_t)(p + r + t) * 4 + 4);
            for (int i = 0; i < p; i++) u[n++] = (uint32_t)(i & 1 ? top : (uint32_t)i) & top;
            for (int i = 0; i < r; i++) u[n++] = top / 2;
            for (int i = 0; i < t; i++) u[n++] = (uint32_t)(i + 1) & top;
            rle_case(u, n, w, 0); free(u);
        } }
    free(v);
    v_sample("rle_runs: all (a,b,c) alternating run triples in [0,%d]^3 x 14 widths; literal-prefix p x run r x tail t", M);
}

/* the same values laid out the way other writers lay them out: bit-packed runs of several 8-value groups (carquet's encoder writes one group
 * per run) mixed with RLE runs, assembled here from carquet's own group packer. The streaming decoder under random chunking must agree with
 * the values. */
static void multigroup_case(const uint32_t* v, int64_t n, int w) { if (n < 9 || w < 1) return; size_t cap = (size_t)n * 5 + 64; uint8_t* st = v_exact(cap); size_t k = 0; int64_t i = 0;
    while (i < n) { int64_t left = n - i; int64_t j = i; while (j < n && v[j] == v[i]) j++;
        if (j - i >= 8 && vrng_chance(&R, 2, 3)) { uint64_t h = (uint64_t)(j - i) << 1; while (h >= 0x80) { st[k++] = (uint8_t)(h | 0x80); h >>= 7; } st[k++] = (uint8_t)h; for (int q = 0; q < (w + 7) / 8; q++) st[k++] = (uint8_t)(v[i] >> (8 * q)); i = j; continue; }
        int64_t groups = 1 + (int64_t)vrng_below(&R, 6); if (groups * 8 > left) groups = (left + 7) / 8; if (groups * 8 <= left || i + groups * 8 >= n) { /* only the final run may be padded */ } else groups = left / 8 ? left / 8 : 1;
        uint64_t h = ((uint64_t)groups << 1) | 1; while (h >= 0x80) { st[k++] = (uint8_t)(h | 0x80); h >>= 7; } st[k++] = (uint8_t)h;
        for (int64_t g = 0; g < groups; g++) { uint32_t grp[8]; for (int q = 0; q < 8; q++) grp[q] = i + q < n ? v[i + q] : 0; carquet_bitpack8_32(grp, w, st + k); k += (size_t)w; i += 8; } }
    uint8_t* enc = v_exact_copy(st, k); carquet_rle_decoder_t d; carquet_rle_decoder_init(&d, enc, k, w); uint32_t* out = v_exact((size_t)n * 4); int64_t pos = 0; int bad = 0; char hist[200]; size_t hn = 0; hist[0] = 0;
    while (pos < n && !bad) { int op = (int)vrng_below(&R, 4); int64_t c = 1 + (int64_t)vrng_below(&R, 23); if (c > n - pos) c = n - pos;
        if (op == 0) { if (!carquet_rle_decoder_has_next(&d)) { bad = 1; break; } out[pos++] = carquet_rle_decoder_get(&d); if (hn + 6 < sizeof hist) hn += (size_t)snprintf(hist + hn, sizeof hist - hn, "g "); }
        else if (op == 1) { int64_t g = carquet_rle_decoder_skip(&d, c); if (g != c) { bad = 2; break; } for (int64_t q = 0; q < c; q++) out[pos + q] = v[pos + q]; pos += c; if (hn + 10 < sizeof hist) hn += (size_t)snprintf(hist + hn, sizeof hist - hn, "s%lld ", (long long)c); }
        else { int64_t g = carquet_rle_decoder_get_batch(&d, out + pos, c); if (g != c) { bad = 3; break; } pos += c; if (hn + 10 < sizeof hist) hn += (size_t)snprintf(hist + hn, sizeof hist - hn, "b%lld ", (long long)c); } }
    v_count("rle_multi_group_streams"); if (bad || memcmp(out, v, (size_t)n * 4)) { int64_t f = 0; while (f < n && out[f] == v[f]) f++; v_viol("rle:stream-decoder-on-multi-group-runs", "width=%d n=%lld bad=%d first difference at %lld history=%s", w, (long long)n, bad, (long long)f, hist); }
    free(out); free(enc); free(st); }

static void sec_rle_gen(int scale) {
    int64_t cases = scale >= 2 ? 400000 : 40000;
    for (int64_t ci = 0; ci < cases; ci++) {
        int w = (int)vrng_below(&R, 33);
        uint32_t top = w >= 32 ? 0xFFFFFFFFu : ((1u << w) - 1);
        int64_t n = vrng_chance(&R, 1, 20) ? (int64_t)vrng_below(&R, 3000) : (int64_t)vrng_below(&R, 120);
        uint32_t* v = v_exact((size_t)n * 4);
        int64_t i = 0; int law = (int)vrng_below(&R, 4);
        while (i < n) {
            int64_t run = law == 0 ? 1 : law == 1 ? 1 + (int64_t)vrng_below(&R, 20) : law == 2 ? (vrng_chance(&R, 1, 2) ? 1 + (int64_t)vrng_below(&R, 7) : 8 + (int64_t)vrng_below(&R, 30)) : 1 + (int64_t)vrng_below(&R, 600);
            uint32_t x = (uint32_t)vrng_u64(&R) & top;
            if (vrng_chance(&R, 1, 8)) x = top; if (vrng_chance(&R, 1, 8)) x = 0;
            for (int64_t k = 0; k < run && i < n; k++) v[i++] = x;
        }
        rle_case(v, n, w, (ci % 4) == 0); if (ci % 3 == 1) multigroup_case(v, n, w);
        if (w == 0) v_count("rle_width0_cases"); if (w == 32) v_count("rle_width32_cases");
        free(v);
    }
    v_sample("rle_gen: %lld random run-structured sequences, widths 0..32, lengths 0..3000, streaming decoder histories over get/get_batch/skip", (long long)cases);
}

/* ---- raw bit packing ---------------------------------------------------------------- */
/* the bit writer / bit reader pair of core/bitpack.c: any sequence of write_bit / write_bits(1..32) / write_bits64(1..64) must
 * read back as written, and the writer must report ceil(bits/8) bytes */
static void sec_bitstream(int scale) { int cases = scale >= 2 ? 60000 : 12000;
    for (int ci = 0; ci < cases; ci++) { int nops = 1 + (int)vrng_below(&R, 60); int uniform = (int)vrng_below(&R, 3) == 0; int uw = 1 + (int)vrng_below(&R, 64); int kinds[64]; int nb[64]; uint64_t vals[64]; size_t total = 0;
        for (int i = 0; i < nops && i < 60; i++) { int kind = uniform ? (uw <= 32 ? 1 : 2) : (int)vrng_below(&R, 3); int n = uniform ? uw : kind == 0 ? 1 : kind == 1 ? 1 + (int)vrng_below(&R, 32) : 1 + (int)vrng_below(&R, 64); uint64_t v = vrng_u64(&R); if (vrng_chance(&R, 1, 4)) v = ~0ULL; if (n < 64) v &= (1ULL << n) - 1; kinds[i] = kind; nb[i] = n; vals[i] = v; total += (size_t)n; }
        if (nops > 60) nops = 60; size_t bytes = (total + 7) / 8; uint8_t* buf = v_exact(bytes + 8); memset(buf, 0, bytes + 8); carquet_bit_writer_t w; carquet_bit_writer_init(&w, buf, bytes + 8);
        for (int i = 0; i < nops; i++) { if (kinds[i] == 0) carquet_bit_writer_write_bit(&w, (int)vals[i]); else if (kinds[i] == 1) carquet_bit_writer_write_bits(&w, (uint32_t)vals[i], nb[i]); else carquet_bit_writer_write_bits64(&w, vals[i], nb[i]); }
        carquet_bit_writer_flush(&w); size_t wr = carquet_bit_writer_bytes_written(&w); v_case(v_hash(vals, (size_t)nops * 8, v_hash(nb, (size_t)nops * sizeof(int), 3))); v_count("bitstream_cases");
        if (wr != bytes) { v_viol("bitstream:bytes-written", "ops=%d bits=%zu expected %zu bytes, writer reports %zu", nops, total, bytes, wr); free(buf); continue; }
        uint8_t* exact = v_exact_copy(buf, bytes); carquet_bit_reader_t r; carquet_bit_reader_init(&r, exact, bytes); int bad = -1; uint64_t got = 0;
        for (int i = 0; i < nops && bad < 0; i++) { if (kinds[i] == 0) got = (uint64_t)carquet_bit_reader_read_bit(&r); else if (kinds[i] == 1) got = carquet_bit_reader_read_bits(&r, nb[i]); else got = carquet_bit_reader_read_bits64(&r, nb[i]); if (got != vals[i]) bad = i; }
        if (bad >= 0) { char key[96]; snprintf(key, sizeof key, "bitstream:roundtrip:%s", uniform ? "uniform-width" : "mixed-widths"); char seq[300]; size_t sn = 0; seq[0] = 0; for (int i = 0; i <= bad && sn + 8 < sizeof seq; i++) sn += (size_t)snprintf(seq + sn, sizeof seq - sn, "%d ", nb[i]); v_viol(key, "op %d of %d (width %d): wrote %llx read %llx; widths so far: %s", bad, nops, nb[bad], (unsigned long long)vals[bad], (unsigned long long)got, seq); }
        free(exact); free(buf); } }

static void sec_bitpack(int scale) {
    for (int w = 0; w <= 32; w++) { uint32_t top = w >= 32 ? 0xFFFFFFFFu : ((1u << w) - 1);
        for (size_t n = 0; n <= (scale >= 2 ? 300 : 100); n++) for (int law = 0; law < 3; law++) {
            uint32_t* v = v_exact(n * 4);
            for (size_t i = 0; i < n; i++) v[i] = law == 0 ? ((uint32_t)vrng_u64(&R) & top) : law == 1 ? top : (uint32_t)(i & 1 ? top : 0);
            size_t psz = carquet_packed_size(n, w);
            /* carquet_bitpack_32 packs whole groups of 8: give the documented full-group size */
            size_t full = ((n + 7) / 8) * (size_t)w;
            uint8_t* p = v_exact(full > psz ? full : psz); memset(p, 0xAA, full > psz ? full : psz);
            size_t wr = carquet_bitpack_32(v, n, w, p);
            uint32_t* o = v_exact(n * 4);
            size_t rd = carquet_bitunpack_32(p, n, w, o);
            v_case(n >= 2 && w ? v_hash(v, n * 4, (uint64_t)w) : 0);
            if (n && memcmp(o, v, n * 4)) v_viol("bitpack:roundtrip-values", "width=%d n=%zu law=%d", w, n, law);
            if (wr != rd) v_viol("bitpack:written-vs-consumed", "width=%d n=%zu written=%zu consumed=%zu", w, n, wr, rd);
            free(o); free(p); free(v);
        } }
    /* 8-value group functions */
    for (int w = 0; w <= 32; w++) for (int rep = 0; rep < 200; rep++) { uint32_t top = w >= 32 ? 0xFFFFFFFFu : ((1u << w) - 1);
        uint32_t v[8], o[8]; for (int i = 0; i < 8; i++) v[i] = (uint32_t)vrng_u64(&R) & top;
        uint8_t* p = v_exact((size_t)w); carquet_bitpack8_32(v, w, p); carquet_bitunpack8_32(p, w, o);
        v_case(w ? v_hash(v, 32, (uint64_t)w + 99) : 0);
        if (memcmp(v, o, 32)) v_viol("bitpack8:roundtrip-values", "width=%d", w);
        free(p); }
    v_sample("bitpack: widths 0..32 x counts 0..N x {random,all-ones,alternating}");
}

/* ---- PLAIN ------------------------------------------------------------------------- */
static void sec_plain(int scale) {
    int64_t maxn = scale >= 2 ? 400 : 150;
    for (int64_t n = 0; n <= maxn; n++) for (int law = 0; law < 3; law++) {
        carquet_buffer_t b;
        /* boolean */
        { uint8_t* v = v_exact((size_t)n); for (int64_t i = 0; i < n; i++) v[i] = law == 0 ? (uint8_t)(vrng_u64(&R) & 1) : law == 1 ? 1 : (uint8_t)(i & 1);
          carquet_buffer_init(&b); if (carquet_encode_plain_boolean(v, n, &b) == CARQUET_OK) {
            uint8_t* e = v_exact_copy(b.data, b.size); uint8_t* o = v_exact((size_t)n);
            int64_t used = carquet_decode_plain_boolean(e, b.size, o, n);
            v_case(n >= 2 ? v_hash(v, (size_t)n, 1) : 0);
            if (used != (int64_t)b.size) v_viol("plain:boolean:consumed", "n=%lld used=%lld size=%zu", (long long)n, (long long)used, b.size);
            else if (n && memcmp(o, v, (size_t)n)) v_viol("plain:boolean:values", "n=%lld", (long long)n);
            if (b.size != (size_t)(n + 7) / 8) v_viol("plain:boolean:size", "n=%lld size=%zu", (long long)n, b.size);
            free(o); free(e); } carquet_buffer_destroy(&b); free(v); }
#define PLAIN_FIXED(T, NAME, ENC, DEC, FILL) { T* v = v_exact((size_t)n * sizeof(T)); \
          for (int64_t i = 0; i < n; i++) { T x; vrng_bytes(&R, &x, sizeof x); if (law == 1) memset(&x, 0xFF, sizeof x); if (law == 2) { FILL; } v[i] = x; } \
          carquet_buffer_init(&b); if (ENC(v, n, &b) == CARQUET_OK) { \
            uint8_t* e = v_exact_copy(b.data, b.size); T* o = v_exact((size_t)n * sizeof(T)); \
            int64_t used = DEC(e, b.size, o, n); v_case(n >= 2 ? v_hash(v, (size_t)n * sizeof(T), sizeof(T) * 3 + (uint64_t)law) : 0); \
            if (used != (int64_t)b.size || b.size != (size_t)n * sizeof(T)) v_viol("plain:" NAME ":consumed", "n=%lld used=%lld size=%zu", (long long)n, (long long)used, b.size); \
            else if (n && memcmp(o, v, (size_t)n * sizeof(T))) v_viol("plain:" NAME ":values", "n=%lld", (long long)n); \
            free(o); free(e); } carquet_buffer_destroy(&b); free(v); }
        PLAIN_FIXED(int32_t, "int32", carquet_encode_plain_int32, carquet_decode_plain_int32, x = (i & 1) ? INT32_MIN : INT32_MAX)
        PLAIN_FIXED(int64_t, "int64", carquet_encode_plain_int64, carquet_decode_plain_int64, x = (i & 1) ? INT64_MIN : INT64_MAX)
        PLAIN_FIXED(float, "float", carquet_encode_plain_float, carquet_decode_plain_float, { uint32_t u = (i & 1) ? 0x7FC00001u : 0x80000000u; memcpy(&x, &u, 4); })
        PLAIN_FIXED(double, "double", carquet_encode_plain_double, carquet_decode_plain_double, { uint64_t u = (i & 1) ? 0x7FF8000000000001ULL : 0x8000000000000000ULL; memcpy(&x, &u, 8); })
        PLAIN_FIXED(carquet_int96_t, "int96", carquet_encode_plain_int96, carquet_decode_plain_int96, memset(&x, (int)i, sizeof x))
        /* byte arrays */
        { carquet_byte_array_t* v = v_exact((size_t)n * sizeof *v); size_t tot = 0;
          for (int64_t i = 0; i < n; i++) { int32_t len = law == 1 ? 0 : (int32_t)vrng_below(&R, law == 2 ? 300 : 12); v[i].length = len; v[i].data = v_exact((size_t)len); vrng_bytes(&R, v[i].data, (size_t)len); tot += (size_t)len; }
          carquet_buffer_init(&b); if (carquet_encode_plain_byte_array(v, n, &b) == CARQUET_OK) {
            uint8_t* e = v_exact_copy(b.data, b.size); carquet_byte_array_t* o = v_exact((size_t)n * sizeof *o);
            int64_t used = carquet_decode_plain_byte_array(e, b.size, o, n); int bad = 0;
            v_case(n >= 2 ? v_hash(e, b.size, 77) : 0);
            if (used != (int64_t)b.size || b.size != tot + 4 * (size_t)n) v_viol("plain:byte_array:consumed", "n=%lld used=%lld size=%zu", (long long)n, (long long)used, b.size);
            else { for (int64_t i = 0; i < n; i++) if (o[i].length != v[i].length || (v[i].length && memcmp(o[i].data, v[i].data, (size_t)v[i].length))) bad = 1;
                   if (bad) v_viol("plain:byte_array:values", "n=%lld", (long long)n); }
            free(o); free(e); } carquet_buffer_destroy(&b);
          for (int64_t i = 0; i < n; i++) free(v[i].data); free(v); }
        /* fixed len byte arrays */
        for (int32_t fl = 1; fl <= 40; fl += (law == 0 ? 1 : 13)) { uint8_t* v = v_exact((size_t)n * (size_t)fl); vrng_bytes(&R, v, (size_t)n * (size_t)fl);
          carquet_buffer_init(&b); if (carquet_encode_plain_fixed_byte_array(v, n, fl, &b) == CARQUET_OK) {
            uint8_t* e = v_exact_copy(b.data, b.size); uint8_t* o = v_exact((size_t)n * (size_t)fl);
            int64_t used = carquet_decode_plain_fixed_byte_array(e, b.size, o, n, fl);
            v_case(n >= 2 ? v_hash(v, (size_t)n * (size_t)fl, (uint64_t)fl) : 0);
            if (used != (int64_t)b.size || b.size != (size_t)n * (size_t)fl) v_viol("plain:flba:consumed", "n=%lld fl=%d used=%lld size=%zu", (long long)n, fl, (long long)used, b.size);
            else if (n && memcmp(o, v, (size_t)n * (size_t)fl)) v_viol("plain:flba:values", "n=%lld fl=%d", (long long)n, fl);
            free(o); free(e); } carquet_buffer_destroy(&b); free(v); }
    }
    v_sample("plain: 8 physical types x lengths 0..%lld x {random, all-ones/empty, extremes/NaN/-0.0}", (long long)maxn);
}

/* ---- DELTA_BINARY_PACKED ----------------------------------------------------------------- */
static const char* delta_shape64(const int64_t* v, int32_t n) {
    /* widest adjusted delta in the 128-blocks, as the spec computes it in 64-bit wrap-around */
    int maxw = 0;
    for (int32_t s = 1; s < n; s += 128) { int32_t e = s + 128 < n ? s + 128 : n; int64_t mn = INT64_MAX;
        for (int32_t i = s; i < e; i++) { int64_t d = (int64_t)((uint64_t)v[i] - (uint64_t)v[i - 1]); if (d < mn) mn = d; }
        for (int32_t i = s; i < e; i++) { uint64_t a = (uint64_t)((int64_t)((uint64_t)v[i] - (uint64_t)v[i - 1])) - (uint64_t)mn; int w = a ? 64 - __builtin_clzll(a) : 0; if (w > maxw) maxw = w; } }
    return maxw > 32 ? "max-width>32" : "max-width<=32";
}
static void delta_case64(const int64_t* v, int32_t n) {
    size_t cap = (size_t)n * 12 + 2000; uint8_t* tmp = v_exact(cap); size_t wr = 0;
    carquet_status_t st = carquet_delta_encode_int64(v, n, tmp, cap, &wr);
    v_case(n >= 2 ? v_hash(v, (size_t)n * 8, 64) : 0);
    if (st != CARQUET_OK) { v_count("delta64_encode_refused"); if (n > 0) v_viol("delta64:encoder-refuses-nonempty-input", "n=%lld status=%d", (long long)n, st); free(tmp); return; }
    if (strcmp(delta_shape64(v, n), "max-width>32") == 0) v_count("delta64_width_gt32");
    uint8_t* e = v_exact_copy(tmp, wr); int64_t* o = v_exact((size_t)n * 8); size_t used = 0;
    st = carquet_delta_decode_int64(e, wr, o, n, &used);
    if (n > 0 && (st != CARQUET_OK || memcmp(o, v, (size_t)n * 8))) v_viol(strcmp(delta_shape64(v, n), "max-width>32") ? "delta64:roundtrip-values:max-width<=32" : "delta64:roundtrip-values:max-width>32", "n=%d status=%d first=%lld", n, st, n ? (long long)v[0] : 0);
    else if (n > 0 && used != wr) v_viol("delta64:consumed-vs-written", "n=%d written=%zu consumed=%zu", n, wr, used);
    else if (n == 0) { v_count("delta_empty_sequences"); if (st != CARQUET_OK || used != wr) v_viol("delta64:empty-sequence-does-not-round-trip", "encode wrote %zu bytes, decode of them with n=0: status=%d consumed=%zu", wr, st, used); }
    free(o); free(e); free(tmp);
}
static void delta_case32(const int32_t* v, int32_t n) {
    size_t cap = (size_t)n * 12 + 2000; uint8_t* tmp = v_exact(cap); size_t wr = 0;
    carquet_status_t st = carquet_delta_encode_int32(v, n, tmp, cap, &wr);
    v_case(n >= 2 ? v_hash(v, (size_t)n * 4, 32) : 0);
    if (st != CARQUET_OK) { v_count("delta32_encode_refused"); if (n > 0) v_viol("delta32:encoder-refuses-nonempty-input", "n=%lld status=%d", (long long)n, st); free(tmp); return; }
    uint8_t* e = v_exact_copy(tmp, wr); int32_t* o = v_exact((size_t)n * 4); size_t used = 0;
    st = carquet_delta_decode_int32(e, wr, o, n, &used);
    if (n > 0 && (st != CARQUET_OK || memcmp(o, v, (size_t)n * 4))) v_viol("delta32:roundtrip-values", "n=%d status=%d", n, st);
    else if (n > 0 && used != wr) v_viol("delta32:consumed-vs-written", "n=%d written=%zu consumed=%zu", n, wr, used);
    else if (n == 0) { v_count("delta_empty_sequences"); if (st != CARQUET_OK || used != wr) v_viol("delta32:empty-sequence-does-not-round-trip", "encode wrote %zu bytes, decode of them with n=0: status=%d consumed=%zu", wr, st, used); }
    free(o); free(e); free(tmp);
}
static void sec_delta(int scale) {
    int32_t maxn = scale >= 2 ? 700 : 300;
    for (int32_t n = 0; n <= maxn; n++) for (int law = 0; law < 5; law++) {
        int64_t* v = v_exact((size_t)n * 8); int32_t* u = v_exact((size_t)n * 4);
        int wbits = (int)vrng_below(&R, 65);
        for (int32_t i = 0; i < n; i++) {
            switch (law) {
            case 0: v[i] = (int64_t)vrng_u64(&R); u[i] = (int32_t)vrng_u64(&R); break;                      /* random: wrap-around deltas */
            case 1: v[i] = (i & 1) ? INT64_MAX : INT64_MIN; u[i] = (i & 1) ? INT32_MAX : INT32_MIN; break;   /* extremes */
            case 2: v[i] = 1000 + 3 * (int64_t)i; u[i] = 7 - 2 * i; break;                                    /* constant delta */
            case 3: { uint64_t d = wbits >= 64 ? vrng_u64(&R) : wbits ? (vrng_u64(&R) & ((1ULL << wbits) - 1)) : 0;   /* deltas of a chosen width */
                      v[i] = i ? (int64_t)((uint64_t)v[i - 1] + d) : (int64_t)vrng_u64(&R);
                      uint32_t d3 = (uint32_t)d; u[i] = i ? (int32_t)((uint32_t)u[i - 1] + d3) : (int32_t)vrng_u64(&R); break; }
            default: v[i] = (int64_t)vrng_below(&R, 50) - 25 + ((i % 97) == 0 ? ((int64_t)1 << (20 + (i % 40))) : 0); u[i] = (int32_t)(vrng_below(&R, 1000)) - ((i % 50) == 0 ? (1 << 30) : 0); break;
            }
        }
        delta_case64(v, n); delta_case32(u, n); free(v); free(u);
        if (n == 1 || n == 2 || n == 33 || n == 128 || n == 129 || n == 130 || n == 257) v_count("delta_block_boundary_lengths");
    }
    /* every width 0..64 at block-boundary lengths */
    static const int32_t lens[] = {1, 2, 3, 32, 33, 34, 64, 65, 96, 97, 128, 129, 130, 160, 161, 256, 257, 258, 385, 1025};
    for (int w = 0; w <= 64; w++) for (size_t li = 0; li < sizeof lens / sizeof *lens; li++) for (int rep = 0; rep < (scale >= 2 ? 6 : 2); rep++) {
        int32_t n = lens[li]; int64_t* v = v_exact((size_t)n * 8); int32_t* u = v_exact((size_t)n * 4);
        v[0] = (int64_t)vrng_u64(&R); u[0] = (int32_t)vrng_u64(&R);
        for (int32_t i = 1; i < n; i++) { uint64_t d = w >= 64 ? vrng_u64(&R) : w ? (vrng_u64(&R) & ((1ULL << w) - 1)) | (vrng_chance(&R, 1, 4) ? (1ULL << (w - 1)) : 0) : 0;
            v[i] = (int64_t)((uint64_t)v[i - 1] + d); int w3 = w > 32 ? 32 : w; uint32_t d3 = w3 >= 32 ? (uint32_t)d : (uint32_t)d & (w3 ? ((1u << w3) - 1) : 0); u[i] = (int32_t)((uint32_t)u[i - 1] + d3); }
        delta_case64(v, n); delta_case32(u, n); free(v); free(u); v_count("delta_width_x_length_cases");
    }
    v_sample("delta: lengths 0..%d x 5 value laws (random wrap-around, extremes, constant, chosen-width, spiky) + widths 0..64 x 20 block-boundary lengths", maxn);
}

/* ---- DELTA_LENGTH_BYTE_ARRAY / DELTA_BYTE_ARRAY --------------------------------------------- */
static void sec_dstr(int scale) {
    int32_t maxn = scale >= 2 ? 400 : 160;
    for (int32_t n = 0; n <= maxn; n++) for (int law = 0; law < 4; law++) {
        carquet_byte_array_t* v = v_exact((size_t)n * sizeof *v); size_t tot = 0;
        for (int32_t i = 0; i < n; i++) {
            int32_t len = law == 0 ? (int32_t)vrng_below(&R, 20) : law == 1 ? 0 : law == 2 ? (int32_t)vrng_below(&R, 400) : (int32_t)(5 + vrng_below(&R, 10));
            v[i].length = len; v[i].data = v_exact((size_t)len);
            vrng_bytes(&R, v[i].data, (size_t)len);
            if (law == 3 && i > 0) { int32_t share = (int32_t)vrng_below(&R, (uint64_t)(len < v[i - 1].length ? len : v[i - 1].length) + 1); memcpy(v[i].data, v[i - 1].data, (size_t)share); if (vrng_chance(&R, 1, 6) && len == v[i - 1].length) memcpy(v[i].data, v[i - 1].data, (size_t)len); }
            tot += (size_t)len;
        }
        uint64_t h = 0; for (int32_t i = 0; i < n; i++) h = v_hash(v[i].data, (size_t)v[i].length, h + (uint64_t)v[i].length);
        for (int which = 0; which < 2; which++) {
            carquet_buffer_t b; carquet_buffer_init(&b);
            carquet_status_t st = which == 0 ? carquet_delta_length_encode(v, n, &b) : carquet_delta_strings_encode(v, n, &b);
            v_case(n >= 2 ? h + (uint64_t)which : 0);
            if (st != CARQUET_OK) { v_count(which ? "delta_strings_encode_refused" : "delta_length_encode_refused"); if (n > 0) v_viol(which ? "delta_strings:encoder-refuses-nonempty-input" : "delta_length:encoder-refuses-nonempty-input", "n=%d status=%d", (int)n, st); carquet_buffer_destroy(&b); continue; }
            uint8_t* e = v_exact_copy(b.data, b.size); carquet_byte_array_t* o = v_exact((size_t)n * sizeof *o); size_t used = 0;
            size_t wsz = which ? carquet_delta_strings_work_buffer_size(v, n) : 0; uint8_t* work = v_exact(wsz);
            st = which == 0 ? carquet_delta_length_decode(e, b.size, o, n, &used) : carquet_delta_strings_decode(e, b.size, o, n, work, wsz, &used);
            int bad = st != CARQUET_OK;
            if (!bad) for (int32_t i = 0; i < n; i++) if (o[i].length != v[i].length || (v[i].length && memcmp(o[i].data, v[i].data, (size_t)v[i].length))) bad = 1;
            if (bad) v_viol(which ? "delta_strings:roundtrip-values" : "delta_length:roundtrip-values", "n=%d law=%d status=%d", n, law, st);
            else if (used != b.size) v_viol(which ? "delta_strings:consumed-vs-written" : "delta_length:consumed-vs-written", "n=%d law=%d written=%zu consumed=%zu", n, law, b.size, used);
            free(work); free(o); free(e); carquet_buffer_destroy(&b);
        }
        for (int32_t i = 0; i < n; i++) free(v[i].data); free(v);
    }
    v_sample("dstr: DELTA_LENGTH_BYTE_ARRAY and DELTA_BYTE_ARRAY, lengths 0..%d x {short random, all empty, long, shared prefixes/duplicates}", maxn);
}

/* ---- BYTE_STREAM_SPLIT ------------------------------------------------------------------- */
static void sec_bss(int scale) {
    int64_t maxn = scale >= 2 ? 600 : 200;
    for (int64_t n = 0; n <= maxn; n++) for (int law = 0; law < 2; law++) {
        { float* v = v_exact((size_t)n * 4); vrng_bytes(&R, v, (size_t)n * 4); if (law) for (int64_t i = 0; i < n; i++) { uint32_t u = (i & 1) ? 0x7FC00000u | (uint32_t)i : 0x80000000u; memcpy(&v[i], &u, 4); }
          uint8_t* e = v_exact((size_t)n * 4); size_t wr = 987654321; float* o = v_exact((size_t)n * 4);
          carquet_status_t st = carquet_byte_stream_split_encode_float(v, n, e, (size_t)n * 4, &wr);
          v_case(n >= 2 ? v_hash(v, (size_t)n * 4, 4) : 0);
          if (st == CARQUET_OK) { if (wr != (size_t)n * 4) v_viol("bss:float:bytes_written", "n=%lld written=%zu", (long long)n, wr);
            st = carquet_byte_stream_split_decode_float(e, (size_t)n * 4, o, n);
            if (st != CARQUET_OK || (n && memcmp(o, v, (size_t)n * 4))) v_viol("bss:float:roundtrip-values", "n=%lld st=%d", (long long)n, st); } else v_count("bss_refused");
          free(o); free(e); free(v); }
        { double* v = v_exact((size_t)n * 8); vrng_bytes(&R, v, (size_t)n * 8); if (law) for (int64_t i = 0; i < n; i++) { uint64_t u = (i & 1) ? 0x7FF8000000000000ULL | (uint64_t)i : 0x8000000000000000ULL; memcpy(&v[i], &u, 8); }
          uint8_t* e = v_exact((size_t)n * 8); size_t wr = 987654321; double* o = v_exact((size_t)n * 8);
          carquet_status_t st = carquet_byte_stream_split_encode_double(v, n, e, (size_t)n * 8, &wr);
          v_case(n >= 2 ? v_hash(v, (size_t)n * 8, 8) : 0);
          if (st == CARQUET_OK) { if (wr != (size_t)n * 8) v_viol("bss:double:bytes_written", "n=%lld written=%zu", (long long)n, wr);
            st = carquet_byte_stream_split_decode_double(e, (size_t)n * 8, o, n);
            if (st != CARQUET_OK || (n && memcmp(o, v, (size_t)n * 8))) v_viol("bss:double:roundtrip-values", "n=%lld st=%d", (long long)n, st); } else v_count("bss_refused");
          free(o); free(e); free(v); }
        for (int32_t tl = 1; tl <= 40; tl += (n < 40 ? 1 : 9)) { size_t sz = (size_t)n * (size_t)tl; uint8_t* v = v_exact(sz); vrng_bytes(&R, v, sz);
          uint8_t* e = v_exact(sz); size_t wr = 987654321; uint8_t* o = v_exact(sz);
          carquet_status_t st = carquet_byte_stream_split_encode(v, n, tl, e, sz, &wr);
          v_case(n >= 2 ? v_hash(v, sz, (uint64_t)tl + 100) : 0);
          if (st == CARQUET_OK) { if (wr != sz) v_viol("bss:generic:bytes_written", "n=%lld tl=%d written=%zu", (long long)n, tl, wr);
            st = carquet_byte_stream_split_decode(e, sz, tl, o, n);
            if (st != CARQUET_OK || (sz && memcmp(o, v, sz))) v_viol("bss:generic:roundtrip-values", "n=%lld tl=%d st=%d", (long long)n, tl, st); } else v_count("bss_refused");
          free(o); free(e); free(v); }
    }
    v_sample("bss: float/double/generic width 1..40 x counts 0..%lld, random and NaN-payload/-0.0 bit patterns", (long long)maxn);
}

/* ---- dictionary ------------------------------------------------------------------------- */
static void sec_dict(int scale) {
    int64_t cases = scale >= 2 ? 3000 : 500;
    for (int64_t ci = 0; ci < cases; ci++) {
        int64_t n = ci < 40 ? ci : ci == 41 ? 150000 : (vrng_chance(&R, 1, 40) ? (int64_t)vrng_below(&R, scale >= 2 ? 150000 : 80000) : (int64_t)vrng_below(&R, 600));
        uint64_t distinct = ci % 7 == 0 ? 1 : ci % 7 == 1 ? 2 : ci % 7 == 2 ? (1ULL << (1 + vrng_below(&R, 10))) + vrng_below(&R, 3) - 1 : ci % 7 == 3 ? (uint64_t)n + 1 : 1 + vrng_below(&R, 70000);
        if (ci == 41) distinct = 90000;
        int type = (int)(ci % 4);
        size_t vs = type == 0 ? 4 : type == 1 ? 8 : type == 2 ? 4 : 8;
        uint8_t* v = v_exact((size_t)n * vs);
        uint64_t salt = vrng_u64(&R);
        for (int64_t i = 0; i < n; i++) { uint64_t k = vrng_below(&R, distinct); uint64_t x = k * 0x9E3779B97F4A7C15ULL + salt; if (type >= 2 && vrng_chance(&R, 1, 10)) x = (k & 1) ? 0x7FF80000FFC00000ULL : 0x8000000080000000ULL;
            memcpy(v + (size_t)i * vs, &x, vs); }
        carquet_buffer_t d, x; carquet_buffer_init(&d); carquet_buffer_init(&x);
        carquet_status_t st = type == 0 ? carquet_dictionary_encode_int32((int32_t*)v, n, &d, &x) : type == 1 ? carquet_dictionary_encode_int64((int64_t*)v, n, &d, &x)
                            : type == 2 ? carquet_dictionary_encode_float((float*)v, n, &d, &x) : carquet_dictionary_encode_double((double*)v, n, &d, &x);
        v_case(n >= 2 ? v_hash(v, (size_t)n * vs, (uint64_t)type) : 0);
        if (st != CARQUET_OK) { v_count("dict_encode_refused"); }
        else {
            int32_t dc = (int32_t)(d.size / vs);
            uint8_t* de = v_exact_copy(d.data, d.size); uint8_t* xe = v_exact_copy(x.data, x.size); uint8_t* o = v_exact((size_t)n * vs);
            st = type == 0 ? carquet_dictionary_decode_int32(de, d.size, dc, xe, x.size, (int32_t*)o, n) : type == 1 ? carquet_dictionary_decode_int64(de, d.size, dc, xe, x.size, (int64_t*)o, n)
               : type == 2 ? carquet_dictionary_decode_float(de, d.size, dc, xe, x.size, (float*)o, n) : carquet_dictionary_decode_double(de, d.size, dc, xe, x.size, (double*)o, n);
            if (n > 0 && (st != CARQUET_OK || memcmp(o, v, (size_t)n * vs))) v_viol("dict:roundtrip-values", "type=%d n=%lld dict_count=%d status=%d", type, (long long)n, dc, st);
            if (dc > 65536) v_count("dict_over_64k_entries"); if (dc == 1) v_count("dict_single_entry");
            free(o); free(xe); free(de);
        }
        carquet_buffer_destroy(&d); carquet_buffer_destroy(&x); free(v);
    }
    v_sample("dict: %lld cases int32/int64/float/double, 1..70000 distinct values, NaN/-0.0 patterns, n up to 150000", (long long)cases);
}

int main(int argc, char** argv) {
    if (argc < 4) { fprintf(stderr, "usage: c11 section seed scale\n"); return 2; }
    const char* sec = argv[1]; uint64_t seed = strtoull(argv[2], 0, 10); int scale = atoi(argv[3]);
    vrng_seed(&R, seed * 7919 + v_hash(sec, strlen(sec), 1));
    (void)carquet_init();
    if (!strcmp(sec, "rle_exh")) sec_rle_exh(scale);
    else if (!strcmp(sec, "rle_runs")) sec_rle_runs(scale);
    else if (!strcmp(sec, "rle_gen")) sec_rle_gen(scale);
    else if (!strcmp(sec, "bitpack")) sec_bitpack(scale);
    else if (!strcmp(sec, "bitstream")) sec_bitstream(scale);
    else if (!strcmp(sec, "plain")) sec_plain(scale);
    else if (!strcmp(sec, "delta")) sec_delta(scale);
    else if (!strcmp(sec, "dstr")) sec_dstr(scale);
    else if (!strcmp(sec, "bss")) sec_bss(scale);
    else if (!strcmp(sec, "dict")) sec_dict(scale);
    else { fprintf(stderr, "unknown section\n"); return 2; }
    v_finish();
    return 0;
}
