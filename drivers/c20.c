/* C20: Bloom filter (Parquet SBBF) and XXH64 against independent references.
 * usage: c20 <section: xxh|sbbf> <seed> <scale> */
#include "vdrv.h"
#include <sys/mman.h>
#include <carquet/carquet.h>
#include <xxhash.h>
#include <stdbool.h>

uint64_t carquet_xxhash64(const void*, size_t, uint64_t);
carquet_bloom_filter_t* carquet_bloom_filter_create(size_t);
carquet_bloom_filter_t* carquet_bloom_filter_from_data(const uint8_t*, size_t);
void carquet_bloom_filter_destroy(carquet_bloom_filter_t*);
void carquet_bloom_filter_insert_hash(carquet_bloom_filter_t*, uint64_t);
void carquet_bloom_filter_insert_i32(carquet_bloom_filter_t*, int32_t);
void carquet_bloom_filter_insert_i64(carquet_bloom_filter_t*, int64_t);
void carquet_bloom_filter_insert_float(carquet_bloom_filter_t*, float);
void carquet_bloom_filter_insert_double(carquet_bloom_filter_t*, double);
void carquet_bloom_filter_insert_bytes(carquet_bloom_filter_t*, const uint8_t*, size_t);
bool carquet_bloom_filter_check_hash(const carquet_bloom_filter_t*, uint64_t);
bool carquet_bloom_filter_check_i32(const carquet_bloom_filter_t*, int32_t);
bool carquet_bloom_filter_check_i64(const carquet_bloom_filter_t*, int64_t);
bool carquet_bloom_filter_check_float(const carquet_bloom_filter_t*, float);
bool carquet_bloom_filter_check_double(const carquet_bloom_filter_t*, double);
bool carquet_bloom_filter_check_bytes(const carquet_bloom_filter_t*, const uint8_t*, size_t);
const uint8_t* carquet_bloom_filter_data(const carquet_bloom_filter_t*);
size_t carquet_bloom_filter_size(const carquet_bloom_filter_t*);
size_t carquet_bloom_filter_num_blocks(const carquet_bloom_filter_t*);
carquet_status_t carquet_bloom_filter_write(const carquet_bloom_filter_t*, uint8_t*, size_t, size_t*);
carquet_status_t carquet_bloom_filter_read(carquet_bloom_filter_t**, const uint8_t*, size_t);
carquet_status_t carquet_bloom_filter_merge(carquet_bloom_filter_t*, const carquet_bloom_filter_t*);

static vrng_t R;

/* ---- XXH64 written from the xxHash specification (second oracle next to libxxhash) ---- */
#define P1 0x9E3779B185EBCA87ULL
#define P2 0xC2B2AE3D27D4EB4FULL
#define P3 0x165667B19E3779F9ULL
#define P4 0x85EBCA77C2B2AE63ULL
#define P5 0x27D4EB2F165667C5ULL
static uint64_t rd64(const uint8_t* p) { uint64_t v = 0; for (int i = 7; i >= 0; i--) v = (v << 8) | p[i]; return v; }
static uint32_t rd32(const uint8_t* p) { return (uint32_t)p[0] | ((uint32_t)p[1] << 8) | ((uint32_t)p[2] << 16) | ((uint32_t)p[3] << 24); }
static uint64_t rnd(uint64_t acc, uint64_t in) { acc += in * P2; acc = v_rotl(acc, 31); return acc * P1; }
static uint64_t mrg(uint64_t h, uint64_t v) { h ^= rnd(0, v); return h * P1 + P4; }
static uint64_t ref_xxh64(const uint8_t* p, size_t len, uint64_t seed) {
    const uint8_t* end = p + len; uint64_t h;
    if (len >= 32) { uint64_t v1 = seed + P1 + P2, v2 = seed + P2, v3 = seed, v4 = seed - P1;
        while (p + 32 <= end) { v1 = rnd(v1, rd64(p)); v2 = rnd(v2, rd64(p + 8)); v3 = rnd(v3, rd64(p + 16)); v4 = rnd(v4, rd64(p + 24)); p += 32; }
        h = v_rotl(v1, 1) + v_rotl(v2, 7) + v_rotl(v3, 12) + v_rotl(v4, 18); h = mrg(h, v1); h = mrg(h, v2); h = mrg(h, v3); h = mrg(h, v4);
    } else h = seed + P5;
    h += (uint64_t)len;
    while (p + 8 <= end) { h ^= rnd(0, rd64(p)); h = v_rotl(h, 27) * P1 + P4; p += 8; }
    if (p + 4 <= end) { h ^= (uint64_t)rd32(p) * P1; h = v_rotl(h, 23) * P2 + P3; p += 4; }
    while (p < end) { h ^= (uint64_t)(*p++) * P5; h = v_rotl(h, 11) * P1; }
    h ^= h >> 33; h *= P2; h ^= h >> 29; h *= P3; h ^= h >> 32; return h;
}

/* ---- Parquet split-block Bloom filter written from BloomFilter.md ---- */
static const uint32_t REF_SALT[8] = {0x47b6137bU, 0x44974d91U, 0x8824ad5bU, 0xa2b7289dU, 0x705495c7U, 0x2df1424bU, 0x9efc4947U, 0x5c6bfb31U};
static void ref_sbbf_insert(uint8_t* bits, size_t nblocks, uint64_t h) {
    uint64_t block = ((h >> 32) * (uint64_t)nblocks) >> 32; uint32_t x = (uint32_t)h;
    for (int i = 0; i < 8; i++) { uint32_t bit = (uint32_t)(x * REF_SALT[i]) >> 27; size_t byte = block * 32 + (size_t)i * 4 + bit / 8; bits[byte] |= (uint8_t)(1u << (bit % 8)); }
}

static void xxh(int scale) {
    size_t maxlen = scale >= 2 ? 520 : 300; uint8_t* pool = v_exact(maxlen + 64);
    static const uint64_t seeds[] = {0, 1, 0xFFFFFFFFFFFFFFFFULL, 0x9E3779B185EBCA87ULL};
    for (size_t len = 0; len <= maxlen; len++) for (size_t al = 0; al < 16; al++) for (int si = 0; si < 5; si++) {
        uint64_t seed = si < 4 ? seeds[si] : vrng_u64(&R);
        uint8_t* blk = v_exact(len + al); vrng_bytes(&R, blk, len + al); const uint8_t* p = blk + al;   /* ends flush at the red zone */
        uint64_t a = carquet_xxhash64(p, len, seed), b = XXH64(p, len, seed), c = ref_xxh64(p, len, seed);
        v_case(len >= 2 ? v_hash(p, len, seed + al) : 0);
        if (b != c) { fprintf(stderr, "harness: reference XXH64 implementations disagree len=%zu\n", len); exit(2); }
        if (a != b) { char key[64]; snprintf(key, sizeof key, "xxh64:mismatch:%s", len >= 32 ? "len>=32" : len >= 8 ? "len8..31" : len >= 4 ? "len4..7" : "len<4"); v_viol(key, "len=%zu align=%zu seed=%llx got=%llx want=%llx", len, al, (unsigned long long)seed, (unsigned long long)a, (unsigned long long)b); }
        free(blk);
    }
    for (int i = 0; i < (scale >= 2 ? 2000 : 200); i++) { size_t len = vrng_below(&R, 1u << 20); uint8_t* blk = v_exact(len); vrng_bytes(&R, blk, len); uint64_t seed = vrng_u64(&R);
        uint64_t a = carquet_xxhash64(blk, len, seed), b = XXH64(blk, len, seed); v_case(v_hash(blk, len < 256 ? len : 256, seed)); v_count("xxh_large_inputs");
        if (a != b) v_viol("xxh64:mismatch:large", "len=%zu seed=%llx", len, (unsigned long long)seed); free(blk); }
    if (scale >= 2) { /* lengths that do not fit 32 bits (anonymous mapping, sparse content) */ static const size_t BIG[] = {((size_t)1 << 32) - 1, (size_t)1 << 32, ((size_t)1 << 32) + 5};
        uint8_t* m = mmap(NULL, BIG[2], PROT_READ | PROT_WRITE, MAP_PRIVATE | MAP_ANONYMOUS | MAP_NORESERVE, -1, 0);
        if (m != MAP_FAILED) { for (size_t q = 0; q < BIG[2]; q += 65537) m[q] = (uint8_t)(q * 13 + 1); for (int i = 0; i < 3; i++) { uint64_t a = carquet_xxhash64(m, BIG[i], 7), b = XXH64(m, BIG[i], 7); v_case(v_hash(&BIG[i], sizeof(size_t), 5)); v_count("xxh_inputs_of_4GiB_and_more"); if (a != b) v_viol("xxh64:mismatch:len>=4GiB", "len=%zu got=%llx want=%llx", BIG[i], (unsigned long long)a, (unsigned long long)b); } munmap(m, BIG[2]); } }
    free(pool);
    v_sample("xxh: all lengths 0..%zu x 16 alignments x seeds {0,1,2^64-1,P1,random}; random inputs up to 1 MiB; oracles libxxhash 0.8.1 and a spec-written XXH64 (must agree)", maxlen);
}

static void sbbf(int scale) {
    /* size rounding + fresh filter */
    for (size_t req = 0; req <= 4200; req += (req < 200 ? 1 : 37)) {
        carquet_bloom_filter_t* f = carquet_bloom_filter_create(req); if (!f) { v_viol("sbbf:create-failed", "req=%zu", req); continue; }
        size_t sz = carquet_bloom_filter_size(f), nb = carquet_bloom_filter_num_blocks(f); v_case(v_hash(&req, sizeof req, 11));
        if (sz % 32 || sz < 32 || sz < req || (req >= 32 && sz - req >= 32) || nb * 32 != sz) v_viol("sbbf:size-rounding", "req=%zu size=%zu blocks=%zu", req, sz, nb);
        const uint8_t* d = carquet_bloom_filter_data(f); int nz = 0; for (size_t i = 0; i < sz; i++) nz |= d[i];
        if (nz) v_viol("sbbf:fresh-filter-not-empty", "req=%zu", req);
        for (int k = 0; k < 20; k++) { uint64_t h = vrng_u64(&R); if (carquet_bloom_filter_check_hash(f, h)) v_viol("sbbf:fresh-filter-claims-membership", "req=%zu", req); }
        if (carquet_bloom_filter_check_i32(f, 0) || carquet_bloom_filter_check_bytes(f, (const uint8_t*)"", 0)) v_viol("sbbf:fresh-filter-claims-membership", "req=%zu typed", req);
        carquet_bloom_filter_destroy(f); v_count("size_requests");
    }
    /* sizes no allocator can serve, up to SIZE_MAX: refusal (NULL) is fine, a filter that is not a whole number (>= 1) of blocks covering the request is not */
    for (int k = 0; k < 70; k++) { size_t req = k < 40 ? SIZE_MAX - (size_t)k : (SIZE_MAX >> (k - 39)) + (size_t)(k & 1); carquet_bloom_filter_t* f = carquet_bloom_filter_create(req); v_case(v_hash(&req, sizeof req, 12)); v_count("unservable_size_requests");
        if (!f) { v_count("unservable_size_requests_refused"); continue; } size_t sz = carquet_bloom_filter_size(f), nb = carquet_bloom_filter_num_blocks(f);
        if (sz % 32 || sz < 32 || sz < req || nb * 32 != sz) v_viol("sbbf:size-rounding:huge-request", "req=%zu size=%zu blocks=%zu", req, sz, nb); else { carquet_bloom_filter_insert_i64(f, 42); if (!carquet_bloom_filter_check_i64(f, 42)) v_viol("sbbf:false-negative:huge-request", "req=%zu", req); }
        carquet_bloom_filter_destroy(f); }
    int64_t cases = scale >= 2 ? 20000 : 1500;
    for (int64_t ci = 0; ci < cases; ci++) {
        static const size_t sizes[] = {32, 64, 96, 128, 160, 1024, 1056, 4096, 32768, 65536, 1 << 20, 3 * 32, 7 * 32, 1000 * 32};
        size_t bytes = ci % 3 == 0 ? sizes[vrng_below(&R, sizeof sizes / sizeof *sizes)] : 32 * (1 + vrng_below(&R, ci % 3 == 1 ? 64 : 5000));
        if (bytes > (1u << 18) && scale < 2 && ci % 50) bytes = 32 * (1 + vrng_below(&R, 64));
        int nvals = (int)(ci < 30 ? ci : vrng_below(&R, vrng_chance(&R, 1, 20) ? 5000 : 200)); int type = (int)(ci % 5);
        carquet_bloom_filter_t* f = carquet_bloom_filter_create(bytes); if (!f) continue;
        size_t sz = carquet_bloom_filter_size(f), nb = sz / 32; uint8_t* ref = calloc(sz, 1);
        uint64_t* hs = v_exact((size_t)nvals * 8); uint8_t** vals = v_exact((size_t)nvals * sizeof *vals); size_t* vl = v_exact((size_t)nvals * sizeof *vl);
        for (int i = 0; i < nvals; i++) {
            size_t len = type == 0 ? 4 : type == 1 ? 8 : type == 2 ? 4 : type == 3 ? 8 : vrng_below(&R, 70); vals[i] = v_exact(len); vl[i] = len; vrng_bytes(&R, vals[i], len);
            if (vrng_chance(&R, 1, 10) && len) memset(vals[i], vrng_chance(&R, 1, 2) ? 0 : 0xFF, len);
            if ((type == 2 || type == 3) && vrng_chance(&R, 1, 5)) { /* special IEEE values: -0.0, +0.0, NaNs with payloads, infinities, denormals - the filter hashes the PLAIN bytes, never a normalised value */
                static const uint64_t SP64[] = {0x8000000000000000ULL, 0, 0x7FF8000000000000ULL, 0xFFF8000000000001ULL, 0x7FF0000000000001ULL, 0x7FF0000000000000ULL, 0xFFF0000000000000ULL, 1, 0x800FFFFFFFFFFFFFULL, 0x3FF0000000000000ULL};
                static const uint32_t SP32[] = {0x80000000u, 0, 0x7FC00000u, 0xFFC00001u, 0x7F800001u, 0x7F800000u, 0xFF800000u, 1, 0x807FFFFFu, 0x3F800000u};
                int q = (int)vrng_below(&R, 10); if (type == 3) memcpy(vals[i], &SP64[q], 8); else memcpy(vals[i], &SP32[q], 4); v_count("special_ieee_values"); }
            hs[i] = XXH64(vals[i], len, 0);                                   /* hash of the PLAIN encoding, seed 0 */
            ref_sbbf_insert(ref, nb, hs[i]);
            switch (type) { case 0: { int32_t x; memcpy(&x, vals[i], 4); carquet_bloom_filter_insert_i32(f, x); break; } case 1: { int64_t x; memcpy(&x, vals[i], 8); carquet_bloom_filter_insert_i64(f, x); break; }
                case 2: { float x; memcpy(&x, vals[i], 4); carquet_bloom_filter_insert_float(f, x); break; } case 3: { double x; memcpy(&x, vals[i], 8); carquet_bloom_filter_insert_double(f, x); break; }
                default: carquet_bloom_filter_insert_bytes(f, vals[i], len); }
        }
        v_case(nvals >= 1 ? v_hash(hs, (size_t)nvals * 8, sz) : 0);
        if ((nb & (nb - 1)) != 0) v_count("non_power_of_two_block_counts"); if (nb == 1) v_count("single_block_filters");
        /* layout equals the reference algorithm */
        if (memcmp(ref, carquet_bloom_filter_data(f), sz)) { char key[96]; snprintf(key, sizeof key, "sbbf:layout-differs-from-spec:%s", nb == 1 ? "blocks=1" : "blocks>1"); v_viol(key, "bytes=%zu blocks=%zu values=%d type=%d", sz, nb, nvals, type); }
        /* no false negatives: direct, after write->read, after merge into another filter */
        size_t wr = 0; uint8_t* ser = v_exact(sz); carquet_status_t st = carquet_bloom_filter_write(f, ser, sz, &wr);
        carquet_bloom_filter_t* g = NULL; if (st != CARQUET_OK || wr != sz || carquet_bloom_filter_read(&g, ser, wr) != CARQUET_OK || !g) { v_viol("sbbf:write-read-failed", "bytes=%zu st=%d wr=%zu", sz, st, wr); }
        /* a loaded filter owns its bits: the caller's buffer is scribbled and released before the filter is probed, and a filter made by
         * from_data must not write through the caller's (const) bytes when values are inserted into it */
        { uint8_t* keep = v_exact_copy(ser, sz); memset(ser, 0x5A, sz); free(ser); ser = keep;
          uint8_t* src = v_exact_copy(keep, sz); carquet_bloom_filter_t* h2 = carquet_bloom_filter_from_data(src, sz); if (h2) { carquet_bloom_filter_insert_hash(h2, vrng_u64(&R)); carquet_bloom_filter_insert_hash(h2, 0x0123456789ABCDEFULL); if (memcmp(src, keep, sz)) v_viol("sbbf:from_data-writes-through-callers-buffer", "bytes=%zu", sz);
              memset(src, 0xA5, sz); free(src); src = NULL; for (int i = 0; i < nvals && i < 40; i++) if (!carquet_bloom_filter_check_hash(h2, hs[i])) { v_viol("sbbf:false-negative:from_data-after-source-buffer-released", "bytes=%zu", sz); break; } carquet_bloom_filter_destroy(h2); v_count("from_data_filters_probed_after_source_released"); } else v_viol("sbbf:from_data-failed", "bytes=%zu", sz);
          free(src); }
        carquet_bloom_filter_t* m = carquet_bloom_filter_create(sz); int other = (int)vrng_below(&R, 50); uint64_t* oh = v_exact((size_t)other * 8);
        for (int i = 0; i < other; i++) { oh[i] = vrng_u64(&R); carquet_bloom_filter_insert_hash(m, oh[i]); }
        if (carquet_bloom_filter_merge(m, f) != CARQUET_OK) v_viol("sbbf:merge-equal-size-failed", "bytes=%zu", sz);
        for (int i = 0; i < nvals; i++) {
            bool a; switch (type) { case 0: { int32_t x; memcpy(&x, vals[i], 4); a = carquet_bloom_filter_check_i32(f, x); break; } case 1: { int64_t x; memcpy(&x, vals[i], 8); a = carquet_bloom_filter_check_i64(f, x); break; }
                case 2: { float x; memcpy(&x, vals[i], 4); a = carquet_bloom_filter_check_float(f, x); break; } case 3: { double x; memcpy(&x, vals[i], 8); a = carquet_bloom_filter_check_double(f, x); break; }
                default: a = carquet_bloom_filter_check_bytes(f, vals[i], vl[i]); }
            if (!a) v_viol("sbbf:false-negative:direct", "bytes=%zu type=%d", sz, type);
            if (g && !carquet_bloom_filter_check_hash(g, hs[i])) v_viol("sbbf:false-negative:after-write-read", "bytes=%zu", sz);
            if (!carquet_bloom_filter_check_hash(m, hs[i])) v_viol("sbbf:false-negative:after-merge", "bytes=%zu", sz);
            v_count("membership_checks");
        }
        for (int i = 0; i < other; i++) if (!carquet_bloom_filter_check_hash(m, oh[i])) v_viol("sbbf:false-negative:merge-lost-destination", "bytes=%zu", sz);
        /* unequal sizes must not be merged silently into something that loses members */
        { carquet_bloom_filter_t* u = carquet_bloom_filter_create(sz + 32); if (u) { for (int i = 0; i < nvals && i < 5; i++) carquet_bloom_filter_insert_hash(u, hs[i]);
            if (carquet_bloom_filter_merge(u, f) == CARQUET_OK) { for (int i = 0; i < nvals; i++) if (!carquet_bloom_filter_check_hash(u, hs[i])) { v_viol("sbbf:false-negative:unequal-merge-reported-ok", "bytes=%zu", sz); break; } } else v_count("unequal_merge_refused");
            carquet_bloom_filter_destroy(u); } }
        carquet_bloom_filter_destroy(m); if (g) carquet_bloom_filter_destroy(g); free(ser); free(oh);
        for (int i = 0; i < nvals; i++) free(vals[i]); free(vals); free(vl); free(hs); free(ref); carquet_bloom_filter_destroy(f);
    }
    v_sample("sbbf: %lld filters, sizes 32 B..1 MiB incl. non-power-of-two block counts, 0..5000 values of int32/int64/float/double/bytes; bytes compared with a spec-written SBBF (block=((h>>32)*z)>>32, 8 salts, bit=(salt*lo32)>>27)", (long long)cases);
}

int main(int argc, char** argv) {
    if (argc < 4) return 2; uint64_t seed = strtoull(argv[2], 0, 10); int scale = atoi(argv[3]);
    vrng_seed(&R, seed * 6151 + (uint64_t)argv[1][0]); (void)carquet_init();
    if (!strcmp(argv[1], "xxh")) xxh(scale); else if (!strcmp(argv[1], "sbbf")) sbbf(scale); else return 2;
    v_finish(); return 0;
}
