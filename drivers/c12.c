/* C12: encoded bytes follow the Parquet encoding specifications (bridge between carquet's codecs and the
 * Python reference codecs). usage: c12 enc|dec <infile> <outfile>
 * record: u32 kind, u32 p1, u32 p2, u32 count, u32 len, payload[len]
 * kinds: 0 PLAIN(p1=ptype,p2=type_length) 1 RLE u32(p1=width) 2 RLE levels(p1=width) 3 bitpack(p1=width) 4 DELTA32 5 DELTA64
 *        6 DELTA_LENGTH_BYTE_ARRAY 7 DELTA_BYTE_ARRAY 8 BSS float 9 BSS double 10 BSS generic(p1=width)
 * value payloads: fixed-width raw LE; booleans 1 byte each; byte arrays u32 len + bytes; u32 / i16 for RLE kinds
 * output record: u32 status(0 ok), u32 aux(bytes consumed / written as reported), u32 len, payload */
#include "vdrv.h"
#include <carquet/carquet.h>
#include "encoding/rle.h"
#include "encoding/plain.h"
#include "core/bitpack.h"
#include "core/buffer.h"
carquet_status_t carquet_delta_decode_int32(const uint8_t*, size_t, int32_t*, int32_t, size_t*);
carquet_status_t carquet_delta_decode_int64(const uint8_t*, size_t, int64_t*, int32_t, size_t*);
carquet_status_t carquet_delta_encode_int32(const int32_t*, int32_t, uint8_t*, size_t, size_t*);
carquet_status_t carquet_delta_encode_int64(const int64_t*, int32_t, uint8_t*, size_t, size_t*);
carquet_status_t carquet_delta_length_decode(const uint8_t*, size_t, carquet_byte_array_t*, int32_t, size_t*);
carquet_status_t carquet_delta_length_encode(const carquet_byte_array_t*, int32_t, carquet_buffer_t*);
carquet_status_t carquet_delta_strings_decode(const uint8_t*, size_t, carquet_byte_array_t*, int32_t, uint8_t*, size_t, size_t*);
carquet_status_t carquet_delta_strings_encode(const carquet_byte_array_t*, int32_t, carquet_buffer_t*);
carquet_status_t carquet_byte_stream_split_encode_float(const float*, int64_t, uint8_t*, size_t, size_t*);
carquet_status_t carquet_byte_stream_split_decode_float(const uint8_t*, size_t, float*, int64_t);
carquet_status_t carquet_byte_stream_split_encode_double(const double*, int64_t, uint8_t*, size_t, size_t*);
carquet_status_t carquet_byte_stream_split_decode_double(const uint8_t*, size_t, double*, int64_t);
carquet_status_t carquet_byte_stream_split_encode(const uint8_t*, int64_t, int32_t, uint8_t*, size_t, size_t*);
carquet_status_t carquet_byte_stream_split_decode(const uint8_t*, size_t, int32_t, uint8_t*, int64_t);

static void out_rec(FILE* o, uint32_t status, uint32_t aux, const void* p, size_t n) { uint32_t L = (uint32_t)n; fwrite(&status, 4, 1, o); fwrite(&aux, 4, 1, o); fwrite(&L, 4, 1, o); if (n) fwrite(p, 1, n, o); }
static int BA_LAYOUT = 0;   /* 0: every value in its own exact-size block; otherwise all values are views into ONE block without gaps, first value first and last value last, the middle ones in a permuted order (an arena or a sorted dictionary looks like this) */
static carquet_byte_array_t* parse_ba(const uint8_t* p, size_t n, uint32_t count, uint8_t*** owned) { carquet_byte_array_t* a = v_exact((size_t)count * sizeof *a); uint8_t** own = v_exact((size_t)count * sizeof(uint8_t*) + 8); size_t o = 0;
    if (BA_LAYOUT && count >= 3) { size_t tot = 0, q = 0; uint32_t* Ls = v_exact((size_t)count * 4); const uint8_t** src = (const uint8_t**)v_exact((size_t)count * sizeof(uint8_t*)); for (uint32_t i = 0; i < count; i++) { if (q + 4 > n) exit(2); memcpy(&Ls[i], p + q, 4); q += 4; src[i] = p + q; q += Ls[i]; tot += Ls[i]; }
        uint32_t* order = v_exact((size_t)count * 4); for (uint32_t i = 0; i < count; i++) order[i] = i; uint64_t h = (uint64_t)BA_LAYOUT * 0x9E3779B97F4A7C15ULL + count; for (uint32_t i = count - 2; i > 1; i--) { h = h * 6364136223846793005ULL + 1442695040888963407ULL; uint32_t j = 1 + (uint32_t)((h >> 33) % i); uint32_t t2 = order[i]; order[i] = order[j]; order[j] = t2; }
        uint8_t* blk = v_exact(tot + 1); size_t w = 0; for (uint32_t k = 0; k < count; k++) { uint32_t i = order[k]; memcpy(blk + w, src[i], Ls[i]); a[i].data = blk + w; a[i].length = (int32_t)Ls[i]; w += Ls[i]; }
        for (uint32_t i = 0; i < count; i++) own[i] = NULL; own[0] = blk; free(Ls); free(src); free(order); *owned = own; return a; }
    for (uint32_t i = 0; i < count; i++) { uint32_t L; if (o + 4 > n) exit(2); memcpy(&L, p + o, 4); o += 4; own[i] = v_exact_copy(p + o, L); a[i].data = own[i]; a[i].length = (int32_t)L; o += L; } *owned = own; return a; }
static void emit_ba(FILE* o, uint32_t status, uint32_t aux, const carquet_byte_array_t* a, uint32_t count) { size_t tot = 0; for (uint32_t i = 0; i < count; i++) tot += 4 + (size_t)a[i].length; uint8_t* b = v_exact(tot); size_t q = 0; for (uint32_t i = 0; i < count; i++) { uint32_t L = (uint32_t)a[i].length; memcpy(b + q, &L, 4); q += 4; if (L) memcpy(b + q, a[i].data, L); q += L; } out_rec(o, status, aux, b, tot); free(b); }

int main(int argc, char** argv) {
    if (argc < 4) return 2; int enc = !strcmp(argv[1], "enc"); FILE* f = fopen(argv[2], "rb"); FILE* o = fopen(argv[3], "wb"); if (!f || !o) return 2; (void)carquet_init();
    for (;;) { uint32_t hd[5]; if (fread(hd, 4, 5, f) != 5) break; uint32_t kind = hd[0], p1 = hd[1], p2 = hd[2], count = hd[3], len = hd[4]; uint8_t* in = v_exact(len); if (len && fread(in, 1, len, f) != len) return 2;
        v_case(v_hash(in, len, (uint64_t)kind * 131 + p1 + (uint64_t)enc)); carquet_buffer_t buf; carquet_buffer_init(&buf); carquet_status_t st = CARQUET_OK;
        if (enc) {
            switch (kind) {
            case 0: { int pt = (int)p1;
                if (pt == CARQUET_PHYSICAL_BOOLEAN) st = carquet_encode_plain_boolean(in, count, &buf); else if (pt == CARQUET_PHYSICAL_INT32) st = carquet_encode_plain_int32((int32_t*)in, count, &buf); else if (pt == CARQUET_PHYSICAL_INT64) st = carquet_encode_plain_int64((int64_t*)in, count, &buf);
                else if (pt == CARQUET_PHYSICAL_INT96) st = carquet_encode_plain_int96((carquet_int96_t*)in, count, &buf); else if (pt == CARQUET_PHYSICAL_FLOAT) st = carquet_encode_plain_float((float*)in, count, &buf); else if (pt == CARQUET_PHYSICAL_DOUBLE) st = carquet_encode_plain_double((double*)in, count, &buf);
                else if (pt == CARQUET_PHYSICAL_FIXED_LEN_BYTE_ARRAY) st = carquet_encode_plain_fixed_byte_array(in, count, (int32_t)p2, &buf); else { uint8_t** own; carquet_byte_array_t* a = parse_ba(in, len, count, &own); st = carquet_encode_plain_byte_array(a, count, &buf); for (uint32_t i = 0; i < count; i++) free(own[i]); free(own); free(a); }
                out_rec(o, (uint32_t)st, (uint32_t)buf.size, buf.data, buf.size); break; }
            case 99: { /* one value, a run of (int64) length given in the payload, one more value: the run does not fit a single run header */ int64_t run; uint32_t v; memcpy(&v, in, 4); memcpy(&run, in + 4, 8); carquet_rle_encoder_t se; carquet_rle_encoder_init(&se, &buf, (int)p1);
                st = carquet_rle_encoder_put(&se, 5 & ((1u << p1) - 1)); if (st == CARQUET_OK) st = carquet_rle_encoder_put_repeat(&se, v, run); if (st == CARQUET_OK) st = carquet_rle_encoder_put(&se, 2 & ((1u << p1) - 1)); if (st == CARQUET_OK) st = carquet_rle_encoder_flush(&se); out_rec(o, (uint32_t)st, (uint32_t)buf.size, buf.data, buf.size); break; }
            case 1: if (!p2) st = carquet_rle_encode_all((uint32_t*)in, count, (int)p1, &buf);
                    else { /* the streaming encoder fed run by run: put_repeat for whole runs and for parts of runs, put otherwise (chosen by p2) */ const uint32_t* v = (const uint32_t*)in; carquet_rle_encoder_t se; carquet_rle_encoder_init(&se, &buf, (int)p1); uint64_t plan = (uint64_t)p2 * 0x9E3779B97F4A7C15ULL + count;
                        for (uint32_t i = 0; i < count && st == CARQUET_OK;) { uint32_t j = i; while (j < count && v[j] == v[i]) j++; int64_t run = (int64_t)j - i; plan = plan * 6364136223846793005ULL + 1442695040888963407ULL; int mode = (int)((plan >> 33) % 3);
                            if (mode == 0) st = carquet_rle_encoder_put_repeat(&se, v[i], run); else if (mode == 1 && run >= 2) { int64_t a = 1 + (int64_t)((plan >> 40) % (uint64_t)(run - 1)); st = carquet_rle_encoder_put_repeat(&se, v[i], a); if (st == CARQUET_OK) st = carquet_rle_encoder_put_repeat(&se, v[i], run - a); } else for (int64_t q = 0; q < run && st == CARQUET_OK; q++) st = carquet_rle_encoder_put(&se, v[i]);
                            i = j; }
                        if (st == CARQUET_OK) st = carquet_rle_encoder_flush(&se); }
                    out_rec(o, (uint32_t)st, (uint32_t)buf.size, buf.data, buf.size); break;
            case 2: st = carquet_rle_encode_levels((int16_t*)in, count, (int)p1, &buf); out_rec(o, (uint32_t)st, (uint32_t)buf.size, buf.data, buf.size); break;
            case 3: { size_t cap = ((size_t)count + 7) / 8 * p1 + 8; uint8_t* d = v_exact(cap); size_t w = carquet_bitpack_32((uint32_t*)in, count, (int)p1, d); out_rec(o, 0, (uint32_t)w, d, w); free(d); break; }
            case 4: case 5: { size_t cap = (size_t)count * 12 + 2000; uint8_t* d = v_exact(cap); size_t w = 0; st = kind == 4 ? carquet_delta_encode_int32((int32_t*)in, (int32_t)count, d, cap, &w) : carquet_delta_encode_int64((int64_t*)in, (int32_t)count, d, cap, &w); out_rec(o, (uint32_t)st, (uint32_t)w, d, st == CARQUET_OK ? w : 0); free(d); break; }
            case 6: case 7: { uint8_t** own; BA_LAYOUT = (int)p2; carquet_byte_array_t* a = parse_ba(in, len, count, &own); BA_LAYOUT = 0; st = kind == 6 ? carquet_delta_length_encode(a, (int32_t)count, &buf) : carquet_delta_strings_encode(a, (int32_t)count, &buf); out_rec(o, (uint32_t)st, (uint32_t)buf.size, buf.data, st == CARQUET_OK ? buf.size : 0); for (uint32_t i = 0; i < count; i++) free(own[i]); free(own); free(a); break; }
            case 8: case 9: case 10: { size_t w = kind == 8 ? 4 : kind == 9 ? 8 : p1; size_t cap = (size_t)count * w; uint8_t* d = v_exact(cap); size_t wr = 0; st = kind == 8 ? carquet_byte_stream_split_encode_float((float*)in, count, d, cap, &wr) : kind == 9 ? carquet_byte_stream_split_encode_double((double*)in, count, d, cap, &wr) : carquet_byte_stream_split_encode(in, count, (int32_t)p1, d, cap, &wr); out_rec(o, (uint32_t)st, (uint32_t)wr, d, st == CARQUET_OK ? cap : 0); free(d); break; }
            default: return 2; }
        } else {
            switch (kind) {
            case 0: { int pt = (int)p1; size_t es = pt == 0 ? 1 : pt == 1 || pt == 4 ? 4 : pt == 2 || pt == 5 ? 8 : pt == 3 ? 12 : pt == 7 ? p2 : sizeof(carquet_byte_array_t); void* out = v_exact((size_t)count * es); int64_t used = carquet_decode_plain(in, len, (carquet_physical_type_t)pt, (int32_t)p2, out, count);
                if (used < 0) out_rec(o, 1, 0, NULL, 0); else if (pt == CARQUET_PHYSICAL_BYTE_ARRAY) emit_ba(o, 0, (uint32_t)used, (carquet_byte_array_t*)out, count); else out_rec(o, 0, (uint32_t)used, out, (size_t)count * es); free(out); break; }
            case 1: { uint32_t* out = v_exact((size_t)count * 4); int64_t n = carquet_rle_decode_all(in, len, (int)p1, out, count);
                /* the same stream through the streaming decoder with a call history derived from the input (single gets, batches of every
                 * size incl. ones ending inside a bit-packed group, skips): whatever it delivers replaces the one-shot result in the
                 * record when the two disagree, so the comparison with the reference values sees the wrong one */
                if (n == (int64_t)count && count > 0) { carquet_rle_decoder_t dec; carquet_rle_decoder_init(&dec, in, len, (int)p1); uint32_t* so = v_exact((size_t)count * 4); memcpy(so, out, (size_t)count * 4); int64_t pos = 0; uint64_t hh = v_hash(in, len, 99) | 1; int bad = 0;
                    while (pos < (int64_t)count && !bad) { hh = hh * 6364136223846793005ULL + 1442695040888963407ULL; int op = (int)((hh >> 33) % 8); int64_t k = 1 + (int64_t)((hh >> 40) % 21); if (k > (int64_t)count - pos) k = (int64_t)count - pos;
                        if (op == 0) { if (!carquet_rle_decoder_has_next(&dec)) { bad = 1; break; } so[pos++] = carquet_rle_decoder_get(&dec); }
                        else if (op == 1) { int64_t g = carquet_rle_decoder_skip(&dec, k); if (g != k) { bad = 1; break; } pos += g; }
                        else { int64_t g = carquet_rle_decoder_get_batch(&dec, so + pos, k); if (g != k) { bad = 1; break; } pos += g; } }
                    if (bad || memcmp(so, out, (size_t)count * 4) != 0) { fprintf(stderr, "C12: streaming decoder disagrees with one-shot decode\n"); if (bad) n = pos; memcpy(out, so, (size_t)count * 4); }
                    free(so); }
                out_rec(o, n == (int64_t)count ? 0 : 1, (uint32_t)(n < 0 ? 0 : n), out, n > 0 ? (size_t)n * 4 : 0); free(out); break; }
            case 2: { int16_t* out = v_exact((size_t)count * 2); int64_t n = carquet_rle_decode_levels(in, len, (int)p1, out, count); out_rec(o, n == (int64_t)count ? 0 : 1, (uint32_t)(n < 0 ? 0 : n), out, n > 0 ? (size_t)n * 2 : 0); free(out); break; }
            case 3: { uint32_t* out = v_exact((size_t)count * 4); size_t used = carquet_bitunpack_32(in, count, (int)p1, out); out_rec(o, 0, (uint32_t)used, out, (size_t)count * 4); free(out); break; }
            case 4: { int32_t* out = v_exact((size_t)count * 4); size_t used = 0; st = carquet_delta_decode_int32(in, len, out, (int32_t)count, &used); out_rec(o, (uint32_t)st, (uint32_t)used, out, st == CARQUET_OK ? (size_t)count * 4 : 0); free(out); break; }
            case 5: { int64_t* out = v_exact((size_t)count * 8); size_t used = 0; st = carquet_delta_decode_int64(in, len, out, (int32_t)count, &used); out_rec(o, (uint32_t)st, (uint32_t)used, out, st == CARQUET_OK ? (size_t)count * 8 : 0); free(out); break; }
            case 6: { carquet_byte_array_t* out = v_exact((size_t)count * sizeof *out); size_t used = 0; st = carquet_delta_length_decode(in, len, out, (int32_t)count, &used); if (st == CARQUET_OK) emit_ba(o, 0, (uint32_t)used, out, count); else out_rec(o, (uint32_t)st, 0, NULL, 0); free(out); break; }
            case 7: { carquet_byte_array_t* out = v_exact((size_t)count * sizeof *out); size_t used = 0; size_t wsz = p2; uint8_t* work = v_exact(wsz); st = carquet_delta_strings_decode(in, len, out, (int32_t)count, work, wsz, &used); if (st == CARQUET_OK) emit_ba(o, 0, (uint32_t)used, out, count); else out_rec(o, (uint32_t)st, 0, NULL, 0); free(work); free(out); break; }
            case 8: case 9: case 10: { size_t w = kind == 8 ? 4 : kind == 9 ? 8 : p1; uint8_t* out = v_exact((size_t)count * w); st = kind == 8 ? carquet_byte_stream_split_decode_float(in, len, (float*)out, count) : kind == 9 ? carquet_byte_stream_split_decode_double(in, len, (double*)out, count) : carquet_byte_stream_split_decode(in, len, (int32_t)p1, out, count); out_rec(o, (uint32_t)st, 0, out, st == CARQUET_OK ? (size_t)count * w : 0); free(out); break; }
            default: return 2; }
        }
        carquet_buffer_destroy(&buf); free(in); }
    fclose(f); fclose(o); v_finish(); return 0;
}
