/* Minimal OpenMP runtime for the entry points libcarquet.a imports, built on pthreads so that
 * ThreadSanitizer sees every synchronisation (fork/join = pthread_create/join, work sharing = a mutex).
 * Iterations of a dynamic loop are handed out in a seeded pseudo-random order with seeded yields, which
 * explores schedules the real runtime rarely produces. Seed: environment variable CQV_SHIM_SEED. */
#define _GNU_SOURCE
#include <pthread.h>
#include <stdbool.h>
#include <stdint.h>
#include <stdlib.h>
#include <string.h>
#include <sched.h>
#include <unistd.h>

/* one team per GOMP_parallel call: independent callers (several user threads each driving their own reader) get
 * independent work-sharing state, as with the real runtime */
typedef struct team { pthread_mutex_t mu; int active; long start, end, incr; long total; unsigned char* taken; long left; } team_t;
typedef struct { void (*fn)(void*); void* data; team_t* team; } shim_arg_t;
static pthread_mutex_t g_mu = PTHREAD_MUTEX_INITIALIZER;
static uint64_t g_rng = 0x9E3779B97F4A7C15ULL; static int g_seeded = 0; static int g_max_threads = 0;
static __thread team_t* t_team = NULL;
uint64_t cqv_shim_parallel_regions = 0, cqv_shim_chunks_handed_out = 0, cqv_shim_order_hash = 1469598103934665603ULL;

static uint64_t rnd(void) { pthread_mutex_lock(&g_mu); g_rng ^= g_rng << 13; g_rng ^= g_rng >> 7; g_rng ^= g_rng << 17; uint64_t r = g_rng; pthread_mutex_unlock(&g_mu); return r; }
static void seed_once(void) { if (!g_seeded) { const char* s = getenv("CQV_SHIM_SEED"); g_rng = (s ? strtoull(s, 0, 10) : 1) * 0x9E3779B97F4A7C15ULL + 0x1234567; if (!g_rng) g_rng = 1; g_seeded = 1; const char* m = getenv("CQV_SHIM_MAX_THREADS"); g_max_threads = m ? atoi(m) : 4; } }
static void maybe_yield(void) { uint64_t r = rnd(); if ((r & 7) == 0) sched_yield(); else if ((r & 63) == 1) usleep((useconds_t)(50 + (r >> 8) % 300)); }

int omp_get_max_threads(void) { pthread_mutex_lock(&g_mu); seed_once(); int m = g_max_threads; pthread_mutex_unlock(&g_mu); return m; }
int omp_get_thread_num(void) { return 0; }
int omp_get_num_threads(void) { return 1; }

static void* trampoline(void* p) { shim_arg_t* a = p; t_team = a->team; a->fn(a->data); t_team = NULL; return NULL; }

void GOMP_parallel(void (*fn)(void*), void* data, unsigned num_threads, unsigned flags) { (void)flags;
    pthread_mutex_lock(&g_mu); seed_once(); if (num_threads == 0) num_threads = (unsigned)g_max_threads; if (num_threads > 64) num_threads = 64; cqv_shim_parallel_regions++; pthread_mutex_unlock(&g_mu);
    if (t_team) num_threads = 1;   /* no nesting */
    team_t team; memset(&team, 0, sizeof team); pthread_mutex_init(&team.mu, NULL);
    pthread_t th[64]; shim_arg_t a = {fn, data, &team}; unsigned started = 0;
    for (unsigned i = 1; i < num_threads; i++) { if (pthread_create(&th[started], NULL, trampoline, &a) == 0) started++; }
    team_t* was = t_team; t_team = &team; fn(data); t_team = was;
    for (unsigned i = 0; i < started; i++) pthread_join(th[i], NULL);
    free(team.taken); pthread_mutex_destroy(&team.mu);
}

static bool grab(long* istart, long* iend) {
    team_t* tm = t_team; if (!tm) return false; uint64_t r = rnd();
    pthread_mutex_lock(&tm->mu); bool got = false;
    if (tm->left > 0) { long pick = (long)(r % (uint64_t)tm->left); long idx = -1; for (long i = 0; i < tm->total; i++) if (!tm->taken[i]) { if (pick-- == 0) { idx = i; break; } }
        tm->taken[idx] = 1; tm->left--; *istart = tm->start + idx * tm->incr; *iend = *istart + tm->incr; got = true; }
    pthread_mutex_unlock(&tm->mu);
    if (got) { pthread_mutex_lock(&g_mu); cqv_shim_chunks_handed_out++; cqv_shim_order_hash = (cqv_shim_order_hash ^ (uint64_t)(*istart + 1)) * 1099511628211ULL; pthread_mutex_unlock(&g_mu); maybe_yield(); }
    return got;
}
bool GOMP_loop_nonmonotonic_dynamic_start(long start, long end, long incr, long chunk, long* istart, long* iend) { (void)chunk;
    team_t* tm = t_team; if (!tm) { /* orphaned loop outside a parallel region: run everything in the caller */ *istart = start; *iend = end; return start < end; }
    pthread_mutex_lock(&tm->mu); if (!tm->active) { tm->active = 1; tm->start = start; tm->end = end; tm->incr = incr ? incr : 1; long n = incr > 0 ? (end - start + incr - 1) / incr : 0; if (n < 0) n = 0; tm->total = n; tm->left = n; free(tm->taken); tm->taken = calloc((size_t)n + 1, 1); } pthread_mutex_unlock(&tm->mu);
    return grab(istart, iend);
}
bool GOMP_loop_nonmonotonic_dynamic_next(long* istart, long* iend) { return grab(istart, iend); }
bool GOMP_loop_dynamic_start(long start, long end, long incr, long chunk, long* istart, long* iend) { return GOMP_loop_nonmonotonic_dynamic_start(start, end, incr, chunk, istart, iend); }
bool GOMP_loop_dynamic_next(long* istart, long* iend) { return grab(istart, iend); }
void GOMP_loop_end_nowait(void) { }
void GOMP_loop_end(void) { }
void GOMP_barrier(void) { }

/* named / unnamed critical sections: one mutex per name pointer (small fixed table) */
static pthread_mutex_t g_crit_default = PTHREAD_MUTEX_INITIALIZER; static struct { void** key; pthread_mutex_t mu; } g_crit[16]; static int g_ncrit = 0;
static pthread_mutex_t* crit_for(void** p) { pthread_mutex_lock(&g_mu); for (int i = 0; i < g_ncrit; i++) if (g_crit[i].key == p) { pthread_mutex_unlock(&g_mu); return &g_crit[i].mu; } if (g_ncrit < 16) { g_crit[g_ncrit].key = p; pthread_mutex_init(&g_crit[g_ncrit].mu, NULL); pthread_mutex_t* m = &g_crit[g_ncrit++].mu; pthread_mutex_unlock(&g_mu); return m; } pthread_mutex_unlock(&g_mu); return &g_crit_default; }
void GOMP_critical_start(void) { pthread_mutex_lock(&g_crit_default); }
void GOMP_critical_end(void) { pthread_mutex_unlock(&g_crit_default); }
void GOMP_critical_name_start(void** p) { pthread_mutex_lock(crit_for(p)); }
void GOMP_critical_name_end(void** p) { pthread_mutex_unlock(crit_for(p)); }
void GOMP_atomic_start(void) { pthread_mutex_lock(&g_crit_default); }
void GOMP_atomic_end(void) { pthread_mutex_unlock(&g_crit_default); }

/* the OpenMP lock API, should the library use it: pthread mutexes, which ThreadSanitizer understands. libgomp's omp_lock_t is a 4-byte
 * opaque object, so the lock object holds an index into a table of mutexes. */
#define SHIM_MAX_LOCKS 4096
static pthread_mutex_t g_locks[SHIM_MAX_LOCKS]; static unsigned g_nlocks = 1; static pthread_mutex_t g_locks_mu = PTHREAD_MUTEX_INITIALIZER;
static unsigned shim_new_lock(int recursive) { pthread_mutex_lock(&g_locks_mu); unsigned i = g_nlocks < SHIM_MAX_LOCKS ? g_nlocks++ : 0; pthread_mutex_unlock(&g_locks_mu); if (!i) abort();
    pthread_mutexattr_t a; pthread_mutexattr_init(&a); if (recursive) pthread_mutexattr_settype(&a, PTHREAD_MUTEX_RECURSIVE); pthread_mutex_init(&g_locks[i], &a); pthread_mutexattr_destroy(&a); return i; }
void omp_init_lock(uint32_t* l) { *l = shim_new_lock(0); }
void omp_destroy_lock(uint32_t* l) { (void)l; }
void omp_set_lock(uint32_t* l) { pthread_mutex_lock(&g_locks[*l % SHIM_MAX_LOCKS]); }
void omp_unset_lock(uint32_t* l) { pthread_mutex_unlock(&g_locks[*l % SHIM_MAX_LOCKS]); }
int omp_test_lock(uint32_t* l) { return pthread_mutex_trylock(&g_locks[*l % SHIM_MAX_LOCKS]) == 0; }
void omp_init_nest_lock(uint32_t* l) { *l = shim_new_lock(1); }
void omp_destroy_nest_lock(uint32_t* l) { (void)l; }
void omp_set_nest_lock(uint32_t* l) { omp_set_lock(l); }
void omp_unset_nest_lock(uint32_t* l) { omp_unset_lock(l); }
