/* C01: write -> read round trip through the public API (whole-chunk reads), ASan build.
 * usage: c01 gen|enum <seed> <scale> <workdir> [keepdir]
 * With keepdir every successfully written case is kept as case_<n>.parquet + case_<n>.tdmp (+ .meta) for the
 * reference-reader checks (C05). */
#include "tbl.h"
#include <unistd.h>
#include <sys/stat.h>

static vrng_t R;
static const char* KEEP = NULL; static int64_t KEPT = 0;

static const char* shape_of(const table_t* t, int g, int c) {
    const tchunk_t* k = &t->rg[g][c]; const tcol_t* col = &t->cols[c];
    /* input-side predicate: the smallest named class this chunk belongs to */
    if (col->max_def && k->null_def_levels) return "optional-written-without-def-levels";
    if (col->type == CARQUET_PHYSICAL_BOOLEAN && k->nbatches > 1) { for (int b = 0; b + 1 < k->nbatches; b++) if (k->batch_rows[b] % 8) return "boolean-batches-off-byte-boundary"; }
    if (k->nbatches > 1 && col->max_def) return "optional-multi-batch";
    if (k->nbatches > 1) return "required-multi-batch";
    if (col->max_def) return "optional-single-batch";
    return "required-single-batch";
}

static uint8_t* slurp(const char* path, size_t* n) { FILE* f = fopen(path, "rb"); if (!f) return NULL; fseek(f, 0, SEEK_END); long L = ftell(f); fseek(f, 0, SEEK_SET); uint8_t* b = v_exact((size_t)L); if (fread(b, 1, (size_t)L, f) != (size_t)L) { fclose(f); free(b); return NULL; } fclose(f); *n = (size_t)L; return b; }

static void check_case(const table_t* t, const char* path, int use_buffer, const char* tag) {
    char key[200]; carquet_error_t err = CARQUET_ERROR_INIT; carquet_reader_options_t ro; carquet_reader_options_init(&ro);
    uint8_t* fb = NULL; size_t fn = 0; carquet_reader_t* rd;
    if (use_buffer) { fb = slurp(path, &fn); rd = fb ? carquet_reader_open_buffer(fb, fn, &ro, &err) : NULL; } else rd = carquet_reader_open(path, &ro, &err);
    if (!rd) { v_viol("roundtrip:reopen-failed", "%s code=%d msg=%s", tag, err.code, err.message); free(fb); return; }
    int64_t total = 0; int nonempty = 0; for (int g = 0; g < t->nrg; g++) { total += t->rg_rows[g]; if (t->rg_rows[g] > 0) nonempty++; }
    if (carquet_reader_num_rows(rd) != total) v_viol("roundtrip:row-count", "%s got=%lld want=%lld", tag, (long long)carquet_reader_num_rows(rd), (long long)total);
    if (carquet_reader_num_columns(rd) != t->ncols) { v_viol("roundtrip:column-count", "%s got=%d want=%d", tag, carquet_reader_num_columns(rd), t->ncols); carquet_reader_close(rd); free(fb); return; }
    /* schema */
    const carquet_schema_t* s = carquet_reader_schema(rd);
    for (int c = 0; c < t->ncols; c++) { const tcol_t* col = &t->cols[c]; int32_t idx = carquet_schema_find_column(s, col->name);
        const carquet_schema_node_t* nd = carquet_schema_get_element(s, c + 1);
        if (!nd || strcmp(carquet_schema_node_name(nd), col->name) || (int)carquet_schema_node_physical_type(nd) != col->type || (int)carquet_schema_node_repetition(nd) != col->rep ||
            (col->type == CARQUET_PHYSICAL_FIXED_LEN_BYTE_ARRAY && carquet_schema_node_type_length(nd) != col->type_length)) v_viol("roundtrip:schema", "%s column=%d name=%s", tag, c, col->name);
        if (idx < 0) v_viol("roundtrip:schema-find-column", "%s column=%d name=%s", tag, c, col->name); }
    /* row group partition (ignoring empty groups) */
    int fg = carquet_reader_num_row_groups(rd); int* map = (int*)calloc((size_t)fg + 1, sizeof(int)); int nf = 0;
    for (int g = 0; g < fg; g++) { carquet_row_group_metadata_t m; if (carquet_reader_row_group_metadata(rd, g, &m) == CARQUET_OK && m.num_rows > 0) map[nf++] = g; }
    int ok_part = nf == nonempty; if (ok_part) { int j = 0; for (int g = 0; g < t->nrg; g++) if (t->rg_rows[g] > 0) { carquet_row_group_metadata_t m; (void)carquet_reader_row_group_metadata(rd, map[j++], &m); if (m.num_rows != t->rg_rows[g]) ok_part = 0; } }
    if (!ok_part) { v_viol("roundtrip:row-group-partition", "%s file_nonempty=%d model_nonempty=%d", tag, nf, nonempty); carquet_reader_close(rd); free(map); free(fb); return; }
    /* content */
    int j = 0;
    for (int g = 0; g < t->nrg; g++) { if (t->rg_rows[g] == 0) continue; int frg = map[j++]; int64_t rows = t->rg_rows[g];
        void** held = (void**)calloc((size_t)t->ncols, sizeof(void*)); carquet_column_reader_t** crs = (carquet_column_reader_t**)calloc((size_t)t->ncols, sizeof(*crs));
        for (int c = 0; c < t->ncols; c++) { const tcol_t* col = &t->cols[c]; const tchunk_t* k = &t->rg[g][c]; const char* shp = shape_of(t, g, c);
            carquet_column_reader_t* cr = carquet_reader_get_column(rd, frg, c, &err); crs[c] = cr;
            if (!cr) { snprintf(key, sizeof key, "roundtrip:get-column-failed:%s", shp); v_viol(key, "%s rg=%d col=%d code=%d", tag, g, c, err.code); continue; }
            if (carquet_column_remaining(cr) != rows) { snprintf(key, sizeof key, "roundtrip:chunk-row-count:%s", shp); v_viol(key, "%s rg=%d col=%d remaining=%lld rows=%lld", tag, g, c, (long long)carquet_column_remaining(cr), (long long)rows); }
            void* vals = v_exact((size_t)rows * t_api_elem_size(col)); int16_t* defs = (int16_t*)v_exact((size_t)rows * 2); memset(defs, 0x7F, (size_t)rows * 2);
            int64_t n = carquet_column_read_batch(cr, vals, rows, defs, NULL);
            if (n != rows) { snprintf(key, sizeof key, "roundtrip:whole-chunk-read-short:%s", shp); v_viol(key, "%s rg=%d col=%d type=%d rows=%lld got=%lld batches=%d page=%lld codec=%d", tag, g, c, col->type, (long long)rows, (long long)n, k->nbatches, (long long)t->page_size, t->codec); }
            else { int nulls_ok = 1; for (int64_t i = 0; i < rows; i++) if ((defs[i] == col->max_def) != (k->def[i] == col->max_def)) { nulls_ok = 0; break; }
                if (!nulls_ok) { snprintf(key, sizeof key, "roundtrip:null-positions:%s", shp); v_viol(key, "%s rg=%d col=%d type=%d rows=%lld batches=%d page=%lld codec=%d", tag, g, c, col->type, (long long)rows, k->nbatches, (long long)t->page_size, t->codec); }
                else if (!tbl_values_equal(col, k, 0, k->nvals, vals)) { snprintf(key, sizeof key, "roundtrip:values:%s", shp); v_viol(key, "%s rg=%d col=%d type=%d rows=%lld nvals=%lld batches=%d page=%lld codec=%d", tag, g, c, col->type, (long long)rows, (long long)k->nvals, k->nbatches, (long long)t->page_size, t->codec); }
                else (void)tbl_touch(col, vals, k->nvals); }
            held[c] = vals; free(defs); }
        /* byte arrays handed back must stay readable until the next call on THAT column reader: other readers were used meanwhile */
        for (int c = 0; c < t->ncols; c++) if (held[c] && crs[c] && t->cols[c].type == CARQUET_PHYSICAL_BYTE_ARRAY) { const tchunk_t* k = &t->rg[g][c]; if (!tbl_values_equal(&t->cols[c], k, 0, k->nvals, held[c])) v_viol("roundtrip:byte-array-changed-after-other-column-read", "%s rg=%d col=%d", tag, g, c); v_count("byte_array_lifetime_checks"); }
        for (int c = 0; c < t->ncols; c++) { if (crs[c]) carquet_column_reader_free(crs[c]); free(held[c]); } free(held); free(crs); }
    free(map); carquet_reader_close(rd); free(fb);
}

static void count_shapes(const table_t* t) {
    int64_t total = 0; for (int g = 0; g < t->nrg; g++) total += t->rg_rows[g];
    if (total == 0) v_count("shape_zero_rows"); if (t->nrg >= 2) v_count("shape_multi_row_group");
    for (int g = 0; g < t->nrg; g++) for (int c = 0; c < t->ncols; c++) { const tchunk_t* k = &t->rg[g][c]; const tcol_t* col = &t->cols[c];
        if (k->nbatches >= 2 && (t->page_size >= 65536)) v_count("shape_multi_batch_one_page"); if (k->nbatches >= 2 && t->page_size <= 64) v_count("shape_multi_page_chunk");
        if (col->max_def && k->nvals == 0 && k->nlevels > 0) v_count("shape_all_null"); if (k->null_def_levels) v_count("shape_null_def_levels");
        if (col->type == CARQUET_PHYSICAL_BOOLEAN && !strcmp(shape_of(t, g, c), "boolean-batches-off-byte-boundary")) v_count("shape_boolean_split_off_byte");
        if (col->max_def) { int64_t lit = 0, i = 0; while (i < k->nlevels) { int64_t j2 = i; while (j2 < k->nlevels && k->def[j2] == k->def[i]) j2++; if (j2 - i >= 8) { if (lit % 8) { v_count("shape_def_run_after_partial_group"); break; } lit = 0; } else lit += j2 - i; i = j2; } }
        if (col->type == CARQUET_PHYSICAL_BYTE_ARRAY && k->nvals > 0) v_count("shape_byte_array_chunks"); }
}

/* C05 determinism runs: CQV_NOISE=<n> makes the process history and the stale stack contents differ between two runs that write
 * the same tables. The stack below the current frame is filled with a pattern derived from n (an uninitialised local of the
 * writer then sees different garbage), and for odd n an unrelated small table is written first (different history for any static
 * or cached state). The noise uses its own PRNG so the tables and write histories of the real cases are unchanged. */
static __attribute__((noinline)) void scribble_stack(int pattern) { volatile uint8_t buf[768 * 1024]; for (size_t i = 0; i < sizeof buf; i++) buf[i] = (uint8_t)(pattern + (int)(i * 131u)); }
static void history_noise(const char* dir, int64_t ci) { const char* nz = getenv("CQV_NOISE"); if (!nz) return; int n = atoi(nz);
    if (n & 1) { vrng_t r2; vrng_seed(&r2, (uint64_t)ci * 7919u + (uint64_t)n); tgen_t gp = {4, 60, 0, -1, -1, -1, 0, 0}; table_t* t2 = tbl_generate(&r2, &gp); char p2[512]; snprintf(p2, sizeof p2, "%s/noise.parquet", dir); twrite_result_t wr2; (void)tbl_write_path(&r2, t2, p2, &wr2); unlink(p2); tbl_free(t2); v_count("history_noise_writes"); }
    scribble_stack(n * 37 + 1); v_count("stack_scribbles"); }

static void run_case(table_t* t, const char* dir, int64_t ci, const char* tag);
static uint8_t* slurp_file(const char* path, size_t* n) { FILE* f = fopen(path, "rb"); if (!f) return NULL; fseek(f, 0, SEEK_END); long L = ftell(f); fseek(f, 0, SEEK_SET); uint8_t* b = (uint8_t*)malloc((size_t)L + 1); if (L && fread(b, 1, (size_t)L, f) != (size_t)L) { fclose(f); free(b); return NULL; } fclose(f); *n = (size_t)L; return b; }
/* a table whose single page body is exactly the given bytes: one REQUIRED FIXED_LEN_BYTE_ARRAY(1) column, one row group, one batch,
 * one page. Lets the generator place literal runs, match offsets and match lengths of the LZ77-family codecs on their format
 * boundaries (length-extension bytes at 15+255k, Snappy's 60/64-byte and 2048/65536 limits, LZ4's end-of-block rules). */
static table_t* bytes_table(int codec, const uint8_t* b, int64_t n) {
    table_t* t = (table_t*)calloc(1, sizeof *t); t->ncols = 1; t->cols = (tcol_t*)calloc(1, sizeof(tcol_t)); tcol_t* col = &t->cols[0]; col->type = CARQUET_PHYSICAL_FIXED_LEN_BYTE_ARRAY; col->type_length = 1; col->rep = CARQUET_REPETITION_REQUIRED; snprintf(col->name, sizeof col->name, "bytes");
    t->nrg = 1; t->rg = (tchunk_t**)calloc(1, sizeof(tchunk_t*)); t->rg_rows = (int64_t*)calloc(1, 8); t->codec = codec; t->page_size = 1 << 22; t->rg_rows[0] = n; t->rg[0] = (tchunk_t*)calloc(1, sizeof(tchunk_t)); tchunk_t* k = &t->rg[0][0];
    k->nlevels = n; k->def = (int16_t*)calloc((size_t)n + 1, 2); k->rep = (int16_t*)calloc((size_t)n + 1, 2); k->nvals = n; k->fixed = (uint8_t*)v_exact((size_t)n + 1); memcpy(k->fixed, b, (size_t)n); k->nbatches = 1; k->batch_rows = (int64_t*)malloc(8); k->batch_rows[0] = n; return t; }
/* an OPTIONAL BOOLEAN column whose definition levels form runs of chosen lengths: run headers are varints of (length << 1), so lengths
 * 64, 8192 and 1 048 576 are where the header grows by a byte */
static table_t* level_run_table(const int64_t* runs, int nruns, int first_level) { int64_t n = 0; for (int i = 0; i < nruns; i++) n += runs[i];
    table_t* t = (table_t*)calloc(1, sizeof *t); t->ncols = 1; t->cols = (tcol_t*)calloc(1, sizeof(tcol_t)); tcol_t* col = &t->cols[0]; col->type = CARQUET_PHYSICAL_BOOLEAN; col->rep = CARQUET_REPETITION_OPTIONAL; col->max_def = 1; snprintf(col->name, sizeof col->name, "runs");
    t->nrg = 1; t->rg = (tchunk_t**)calloc(1, sizeof(tchunk_t*)); t->rg_rows = (int64_t*)calloc(1, 8); t->codec = CARQUET_COMPRESSION_UNCOMPRESSED; t->page_size = 1 << 26; t->rg_rows[0] = n; t->rg[0] = (tchunk_t*)calloc(1, sizeof(tchunk_t)); tchunk_t* k = &t->rg[0][0];
    k->nlevels = n; k->def = (int16_t*)calloc((size_t)n + 1, 2); k->rep = (int16_t*)calloc((size_t)n + 1, 2); int64_t p = 0, nv = 0; int lvl = first_level; for (int i = 0; i < nruns; i++) { for (int64_t q = 0; q < runs[i]; q++) { k->def[p++] = (int16_t)lvl; nv += lvl; } lvl ^= 1; }
    k->nvals = nv; k->fixed = (uint8_t*)v_exact((size_t)nv + 1); for (int64_t q = 0; q < nv; q++) k->fixed[q] = (uint8_t)(q % 3 == 0); k->nbatches = 1; k->batch_rows = (int64_t*)malloc(8); k->batch_rows[0] = n; return t; }
static void level_run_cases(const char* dir, uint64_t seed, int big) { char tag[160]; static const int64_t EDGE[] = {63, 64, 65, 8191, 8192, 8193, 8199, 16384, 1048575, 1048576, 1048577}; int ne = big ? 11 : 8;
    for (int e = 0; e < ne; e++) for (int shape = 0; shape < 3; shape++) { int64_t runs[3]; int nr; if (shape == 0) { runs[0] = EDGE[e]; nr = 1; } else if (shape == 1) { runs[0] = 1 + (int64_t)vrng_below(&R, 7); runs[1] = EDGE[e] + (8 - runs[0]) % 8; runs[2] = 3; nr = 3; } else { runs[0] = 3; runs[1] = EDGE[e]; runs[2] = 1; nr = 3; }
        table_t* t = level_run_table(runs, nr, shape == 2 ? 0 : 1); if (shape == 0 && e % 2) t->rg[0][0].null_def_levels = 1; snprintf(tag, sizeof tag, "level-runs seed=%llu run=%lld shape=%d", (unsigned long long)seed, (long long)EDGE[e], shape); run_case(t, dir, 400000 + e * 3 + shape, tag); v_count("level_run_boundary_tables"); tbl_free(t); } }
/* a table that is created and closed without a single write_batch or new_row_group call */
static void create_close_only_case(const char* dir, uint64_t seed) { char tag[120]; tgen_t gp = {3, 5, 0, -1, -1, -1, 0, 1}; table_t* t = tbl_generate(&R, &gp); t->rg_rows[0] = 0; for (int c = 0; c < t->ncols; c++) { tchunk_t* k = &t->rg[0][c]; k->nlevels = 0; k->nvals = 0; k->nbatches = 0; k->ba_heap_n = 0; }
    snprintf(tag, sizeof tag, "create-close-only seed=%llu cols=%d", (unsigned long long)seed, t->ncols); run_case(t, dir, 500000, tag); run_case(t, dir, 500001, tag); /* once through each open path of the round-trip check */ v_count("create_close_only_tables"); tbl_free(t); }

/* an application that ignores a refused write_batch (a column type the page writer has no encoder for: INT96) and closes normally: if close
 * then reports OK the file must still be a structurally valid Parquet file (C05 validates the kept file with the independent reader,
 * structure only: what "the table that was written" is after a refused batch is not defined) and must re-open here */
static void refused_batch_case(const char* dir, uint64_t seed) { char path[512], tag[160]; for (int variant = 0; variant < 3; variant++) {
    tgen_t gp = {variant == 0 ? 1 : 3, 9, 0, -1, -1, -1, 0, 1}; table_t* t = tbl_generate(&R, &gp); int ic = (int)vrng_below(&R, (uint64_t)t->ncols); tcol_t* col = &t->cols[ic]; col->type = CARQUET_PHYSICAL_INT96; col->type_length = 0;
    for (int g = 0; g < t->nrg; g++) { tchunk_t* k = &t->rg[g][ic]; free(k->fixed); k->fixed = (uint8_t*)v_exact((size_t)k->nvals * 12 + 1); vrng_bytes(&R, k->fixed, (size_t)k->nvals * 12); k->ba_heap_n = 0; }
    snprintf(path, sizeof path, "%s/c.parquet", dir); unlink(path); twrite_result_t wr; TBL_KEEP_GOING = 1; int created = tbl_write_path(&R, t, path, &wr); TBL_KEEP_GOING = 0; v_case(seed * 31 + (uint64_t)variant); v_count("refused_batch_histories");
    snprintf(tag, sizeof tag, "structure-only refused-batch seed=%llu variant=%d first_bad=%s/%d", (unsigned long long)seed, variant, wr.first_bad_call ? wr.first_bad_call : "none", wr.first_bad_status);
    if (created && wr.close_called && wr.close_status == CARQUET_OK) { v_count(wr.all_ok ? "int96_tables_written_completely" : "refused_batch_then_close_ok");
        carquet_error_t err = CARQUET_ERROR_INIT; carquet_reader_t* rd = carquet_reader_open(path, NULL, &err); if (!rd) v_viol("refused-batch:close-ok-but-file-does-not-open", "%s: %s", tag, err.message); else carquet_reader_close(rd);
        if (KEEP && getenv("CQV_KEEP_STRUCTURE_ONLY")) {   /* only C05 knows what to do with a file whose model is not the table */ char dst[600], cmd[1400]; snprintf(dst, sizeof dst, "%s/case_%lld", KEEP, (long long)KEPT++); snprintf(cmd, sizeof cmd, "%s.tdmp", dst); tbl_dump(t, cmd); snprintf(cmd, sizeof cmd, "%s.parquet", dst); rename(path, cmd);
            snprintf(cmd, sizeof cmd, "%s.meta", dst); FILE* f = fopen(cmd, "w"); if (f) { fprintf(f, "codec=%d page_size=%lld nrg=%d ncols=%d tag=%s\n", t->codec, (long long)t->page_size, t->nrg, t->ncols, tag); fclose(f); } } }
    else v_count("refused_batch_then_close_refused");
    unlink(path); tbl_free(t); } }

/* tables at the size limits of the footer parser (10000 schema elements / columns per row group, 100000 row groups): whatever the writer
 * accepts with OK on every call must re-open and give the same table */
static table_t* wide_int_table(int ncols, int nrg) { table_t* t = (table_t*)calloc(1, sizeof *t); t->ncols = ncols; t->nrg = nrg; t->cols = (tcol_t*)calloc((size_t)ncols, sizeof(tcol_t)); t->codec = CARQUET_COMPRESSION_UNCOMPRESSED; t->page_size = 1 << 20; t->page_size_default = 1;
    for (int c = 0; c < ncols; c++) { tcol_t* col = &t->cols[c]; col->type = CARQUET_PHYSICAL_INT32; col->rep = CARQUET_REPETITION_REQUIRED; snprintf(col->name, sizeof col->name, "c%d", c); }
    t->rg = (tchunk_t**)calloc((size_t)nrg, sizeof(tchunk_t*)); t->rg_rows = (int64_t*)calloc((size_t)nrg, 8);
    for (int g = 0; g < nrg; g++) { t->rg_rows[g] = 1; t->rg[g] = (tchunk_t*)calloc((size_t)ncols, sizeof(tchunk_t)); for (int c = 0; c < ncols; c++) { tchunk_t* k = &t->rg[g][c]; k->nlevels = 1; k->nvals = 1; k->def = (int16_t*)calloc(2, 2); k->rep = (int16_t*)calloc(2, 2); k->fixed = (uint8_t*)malloc(4); int32_t v = g * 31 + c; memcpy(k->fixed, &v, 4); k->nbatches = 1; k->batch_rows = (int64_t*)malloc(8); k->batch_rows[0] = 1; } }
    return t; }
static void limits_cases(const char* dir, int big) { static const int SH[][2] = {{9999, 1}, {10000, 1}, {10001, 1}, {1, 100000}, {1, 100001}}; char tag[120];
    for (int q = 0; q < (big ? 5 : 3); q++) { table_t* t = wide_int_table(SH[q][0], SH[q][1]); snprintf(tag, sizeof tag, "limits cols=%d row_groups=%d", SH[q][0], SH[q][1]); { const char* keep_was = KEEP; if (SH[q][1] > 1000) KEEP = NULL;   /* 100000 row groups are for carquet's own round trip; the Python reader of C05 would need hours for them */ run_case(t, dir, 600000 + q * 2, tag); KEEP = keep_was; } v_count("tables_at_parser_limits"); tbl_free(t); } }

/* 2^31 rows (thorough tier): an OPTIONAL INT32 column that is NULL throughout, written in 128 batches of 2^24 rows. The file is a few KiB,
 * every 64-bit count in the footer (file rows, row-group rows, chunk values) is beyond 32 bits. C05 checks the counts page by page. */
static void rows_beyond_32_bits_case(const char* dir) { char path[512]; snprintf(path, sizeof path, "%s/c.parquet", dir); unlink(path); carquet_error_t err = CARQUET_ERROR_INIT; carquet_schema_t* s = carquet_schema_create(&err); if (!s) return;
    if (carquet_schema_add_column(s, "always_null", CARQUET_PHYSICAL_INT32, NULL, CARQUET_REPETITION_OPTIONAL, 0) != CARQUET_OK) { carquet_schema_free(s); return; }
    carquet_writer_options_t wo; carquet_writer_options_init(&wo); wo.compression = CARQUET_COMPRESSION_UNCOMPRESSED; carquet_writer_t* w = carquet_writer_create(path, s, &wo, &err); if (!w) { carquet_schema_free(s); return; }
    const int64_t B = 1 << 24; int16_t* defs = (int16_t*)calloc((size_t)B, 2); int32_t dummy = 0; int ok = 1; int64_t rows = 0; for (int q = 0; q < 128 && ok; q++) { if (carquet_writer_write_batch(w, 0, &dummy, B, defs, NULL) != CARQUET_OK) ok = 0; else rows += B; }
    carquet_status_t cs = carquet_writer_close(w); carquet_schema_free(s); free(defs); v_case(77); v_count("tables_with_2^31_rows");
    if (!ok || cs != CARQUET_OK) { v_count("writer_refused"); unlink(path); return; }
    carquet_reader_t* rd = carquet_reader_open(path, NULL, &err); if (!rd) v_viol("roundtrip:reopen-failed", "2^31 null rows: code=%d msg=%s", err.code, err.message); else { if (carquet_reader_num_rows(rd) != rows) v_viol("roundtrip:row-count", "2^31 null rows: got=%lld want=%lld", (long long)carquet_reader_num_rows(rd), (long long)rows); carquet_reader_close(rd); }
    if (KEEP && getenv("CQV_KEEP_STRUCTURE_ONLY")) { char dst[600], cmd[1400]; snprintf(dst, sizeof dst, "%s/case_%lld", KEEP, (long long)KEPT++); snprintf(cmd, sizeof cmd, "%s.tdmp", dst); FILE* f = fopen(cmd, "w"); if (f) fclose(f); snprintf(cmd, sizeof cmd, "%s.parquet", dst); rename(path, cmd);
        snprintf(cmd, sizeof cmd, "%s.meta", dst); f = fopen(cmd, "w"); if (f) { fprintf(f, "codec=0 page_size=0 nrg=1 ncols=1 tag=counts-only rows=%lld\n", (long long)rows); fclose(f); } }
    unlink(path); }

static void codec_boundary_cases(const char* dir, uint64_t seed, int count) { char tag[160];
    static const int64_t RS[] = {1, 3, 4, 8, 11, 12, 13, 14, 15, 16, 17, 59, 60, 61, 254, 255, 256, 269, 270, 271, 524, 525, 526, 779, 780, 781, 1034, 1035, 2047, 2048, 2049, 4095, 4096, 32767, 32768, 32769, 65534, 65535, 65536, 65537};
    static const int64_t LS[] = {4, 5, 6, 7, 8, 11, 12, 14, 15, 16, 18, 19, 20, 33, 59, 60, 61, 63, 64, 65, 66, 67, 68, 69, 128, 129, 130, 131, 132, 273, 274, 275, 528, 1000, 4096, 70000};
    static const int64_t TS[] = {0, 0, 1, 3, 4, 5, 6, 11, 12, 13, 14, 15, 16, 270, 525};
    { static const int64_t CR[] = {2047, 2048, 2049, 65535, 65536, 65537}; static const int64_t CL[] = {4, 8, 64}; /* every critical match distance x a few lengths x Snappy and LZ4, always */
      for (int a = 0; a < 6; a++) for (int b2 = 0; b2 < 3; b2++) for (int cd = 0; cd < 2; cd++) { int64_t r = CR[a], L = CL[b2], tl = 13; int64_t n = r + L + tl; uint8_t* b = (uint8_t*)malloc((size_t)n + 1); vrng_bytes(&R, b, (size_t)r); for (int64_t i = r; i < r + L; i++) b[i] = b[i - r]; vrng_bytes(&R, b + r + L, (size_t)tl);
          table_t* t = bytes_table(cd ? CARQUET_COMPRESSION_LZ4 : CARQUET_COMPRESSION_SNAPPY, b, n); snprintf(tag, sizeof tag, "codec-boundary seed=%llu codec=%d literal=%lld match_len=%lld (fixed set)", (unsigned long long)seed, t->codec, (long long)r, (long long)L); run_case(t, dir, 250000 + a * 6 + b2 * 2 + cd, tag); v_count("codec_boundary_pages"); tbl_free(t); free(b); } }
    { /* pages that are one single literal of a critical length (incompressible bytes): the literal-length forms change at 60/61, 256/257, 65536/65537 and 2^24/2^24+1 bytes */
      static const int64_t WL[] = {59, 60, 61, 62, 255, 256, 257, 258, 65535, 65536, 65537, 65538, 16777216, 16777217}; int nwl = (count >= 600 && seed % 1000 == 0) ? 14 : 12;   /* the two 16 MiB literals once per run (first shard), not in every shard */
      for (int a = 0; a < nwl; a++) for (int cd = 0; cd < 2; cd++) { int64_t n = WL[a]; uint8_t* b = (uint8_t*)malloc((size_t)n + 1); vrng_bytes(&R, b, (size_t)n); table_t* t = bytes_table(cd ? CARQUET_COMPRESSION_LZ4 : CARQUET_COMPRESSION_SNAPPY, b, n); t->page_size = 1 << 26;
          snprintf(tag, sizeof tag, "codec-boundary seed=%llu codec=%d whole page one literal of %lld bytes", (unsigned long long)seed, t->codec, (long long)n); run_case(t, dir, 260000 + a * 2 + cd, tag); v_count("codec_boundary_pages"); v_count("pages_of_one_critical_length_literal"); tbl_free(t); free(b); } }
    for (int q = 0; q < count; q++) { int codec = T_CODECS[1 + q % 4]; int64_t r = vrng_chance(&R, 2, 3) ? RS[vrng_below(&R, sizeof RS / sizeof *RS)] : 1 + (int64_t)vrng_below(&R, 3000); int64_t L = vrng_chance(&R, 2, 3) ? LS[vrng_below(&R, sizeof LS / sizeof *LS)] : 4 + (int64_t)vrng_below(&R, 400); int64_t tl = TS[vrng_below(&R, sizeof TS / sizeof *TS)];
        int64_t n = r + L + tl; uint8_t* b = (uint8_t*)malloc((size_t)n + 1); vrng_bytes(&R, b, (size_t)r); for (int64_t i = r; i < r + L; i++) b[i] = b[i - r]; vrng_bytes(&R, b + r + L, (size_t)tl);
        if (vrng_chance(&R, 1, 4)) { /* a second match further on, so that one sequence follows another */ int64_t off2 = 1 + (int64_t)vrng_below(&R, (uint64_t)(r < 1 ? 1 : r)); for (int64_t i = r + L; i < n; i++) b[i] = b[i - off2]; }
        table_t* t = bytes_table(codec, b, n); snprintf(tag, sizeof tag, "codec-boundary seed=%llu codec=%d literal=%lld match_len=%lld tail=%lld", (unsigned long long)seed, codec, (long long)r, (long long)L, (long long)tl); run_case(t, dir, 200000 + q, tag); v_count("codec_boundary_pages"); tbl_free(t); free(b); } }

/* uncompressed pages whose bytes contain, at many places, a 32-bit little-endian number followed by "PAR1": every such place is a
 * possible file tail if the write is cut right behind it. The numbers are hostile footer lengths: 0xFFFFFFF8..0xFFFFFFFF (wrap
 * around in size arithmetic), 0..12, sign-bit values and lengths that point back to plausible places inside the file. */
static void lookalike_cases(const char* dir, uint64_t seed, int count) { char tag[160];
    for (int q = 0; q < count; q++) { int64_t n = 0; uint8_t* b = (uint8_t*)malloc(6000); int marks = 6 + (int)vrng_below(&R, 30);
        for (int m = 0; m < marks && n < 5000; m++) { int gap = (int)vrng_below(&R, 40); vrng_bytes(&R, b + n, (size_t)gap); n += gap; uint32_t L; int kind = (int)vrng_below(&R, 6);
            if (vrng_chance(&R, 1, 3)) { /* a genuine-looking FileMetaData fragment in front of the marker, with the marker's length pointing exactly at it: complete, without its
                                          * STOP byte, or lacking one or more of the required fields (version 1, schema 2, num_rows 3, row_groups 4) */
                static const uint8_t PV[] = {0x02}; static const uint8_t PS[] = {0x2C, 0x48, 0x06, 's', 'c', 'h', 'e', 'm', 'a', 0x15, 0x02, 0x00, 0x15, 0x02, 0x25, 0x00, 0x18, 0x01, 'a', 0x00}; static const uint8_t PN[] = {0x00}; static const uint8_t PG[] = {0x0C};
                static const struct { int id; int type; const uint8_t* p; int n; } F[4] = {{1, 5, PV, 1}, {2, 9, PS, 20}, {3, 6, PN, 1}, {4, 9, PG, 1}};
                int mask = (int)vrng_below(&R, 16); if (vrng_chance(&R, 1, 2)) mask = 15; int stop = vrng_chance(&R, 2, 3); int64_t f0 = n; int last = 0;
                /* variants of a complete footer that a strict reader refuses: one required field carrying a foreign wire type (its id is there, the field is not),
                 * or the schema / row_groups lists declared with a foreign element type (list<binary> whose only element spells a root SchemaElement, list<i32>) */
                int mistype = mask == 15 && vrng_chance(&R, 1, 3) ? 1 + (int)vrng_below(&R, 4) : 0; int elemconf = mask == 15 && !mistype && vrng_chance(&R, 1, 3);
                static const uint8_t PS_BIN[] = {0x18, 0x48, 0x44, 0x73, 0x63, 0x68, 0x65, 0x6D, 0x61, 0x5F, 0x70, 0x61, 0x64, 0x64, 0x65, 0x64, 0x5F, 0x74, 0x6F, 0x5F, 0x36, 0x38, 0x5F, 0x62, 0x79, 0x74, 0x65, 0x73, 0x5F, 0x78, 0x78, 0x78, 0x78, 0x78, 0x78, 0x78, 0x78, 0x78, 0x78, 0x78, 0x78, 0x78, 0x78, 0x78, 0x78, 0x78, 0x78, 0x78, 0x78, 0x78, 0x78, 0x78, 0x78, 0x78, 0x78, 0x78, 0x78, 0x78, 0x78, 0x78, 0x78, 0x78, 0x78, 0x78, 0x78, 0x78, 0x78, 0x78, 0x78, 0x78, 0x78, 0x15, 0x00, 0x00}; static const uint8_t PG_I32[] = {0x05};
                for (int q = 0; q < 4; q++) if (mask & (1 << q)) { int ty = F[q].type; const uint8_t* pp = F[q].p; int pn = F[q].n; static const uint8_t ZERO[] = {0x00};
                    if (mistype == q + 1) { ty = (F[q].type == 5) ? 6 : (F[q].type == 6) ? 5 : 8; pp = ZERO; pn = 1; /* i32<->i64 (one varint byte), a list becomes an empty binary */ }
                    if (elemconf && q == 1) { pp = PS_BIN; pn = (int)sizeof PS_BIN; } if (elemconf && q == 3 && vrng_chance(&R, 1, 2)) { pp = PG_I32; pn = 1; }
                    b[n++] = (uint8_t)(((F[q].id - last) << 4) | ty); memcpy(b + n, pp, (size_t)pn); n += pn; last = F[q].id; }
                if (mistype || elemconf) v_count("footer_fragments_with_foreign_types");
                if (stop) b[n++] = 0x00; L = (uint32_t)(n - f0); memcpy(b + n, &L, 4); memcpy(b + n + 4, "PAR1", 4); n += 8; v_count("footer_fragments_embedded"); continue; }
            if (kind == 0) L = 0xFFFFFFFFu - (uint32_t)vrng_below(&R, 16); else if (kind == 1) L = (uint32_t)vrng_below(&R, 14); else if (kind == 2) L = (uint32_t)n + (uint32_t)vrng_below(&R, 60); else if (kind == 3) L = (uint32_t)n - (uint32_t)vrng_below(&R, (uint64_t)n + 1);
            else if (kind == 4) { static const uint32_t S[] = {0x7FFFFFFFu, 0x80000000u, 0x80000001u, 0xFFFF0000u, 0x00010000u, 0x7FFFFFF8u}; L = S[vrng_below(&R, 6)]; } else L = (uint32_t)vrng_u64(&R);
            memcpy(b + n, &L, 4); memcpy(b + n + 4, "PAR1", 4); n += 8; }
        table_t* t = bytes_table(CARQUET_COMPRESSION_UNCOMPRESSED, b, n); snprintf(tag, sizeof tag, "footer-lookalike seed=%llu marks=%d", (unsigned long long)seed, marks); run_case(t, dir, 300000 + q, tag); v_count("footer_lookalike_pages"); tbl_free(t); free(b); } }

static void run_case(table_t* t, const char* dir, int64_t ci, const char* tag) {
    char path[512]; snprintf(path, sizeof path, "%s/c.parquet", dir); unlink(path); history_noise(dir, ci);
    vrng_t r_before = R; twrite_result_t wr; int created = tbl_write_path(&R, t, path, &wr);
    /* every 6th table is also written, with the same write history, through a stream the caller owns that cannot seek or tell (a pipe):
     * the bytes that arrive must be the very file the path-based writer produced (offsets in the footer must not come from the stream position) */
    if (created && wr.all_ok && ci % 6 == 2) { char sp[560], cmd[700]; snprintf(sp, sizeof sp, "%s/c.stream.parquet", dir); unlink(sp); snprintf(cmd, sizeof cmd, "cat > '%s'", sp); FILE* pf = popen(cmd, "w");
        if (pf) { vrng_t r2 = r_before; twrite_result_t w2; int c2 = tbl_write_stream(&r2, t, pf, &w2); int prc = pclose(pf); v_count("tables_also_written_through_a_pipe");
            if (c2 && w2.all_ok && prc == 0) { size_t an = 0, bn = 0; uint8_t* a = slurp_file(path, &an); uint8_t* b = slurp_file(sp, &bn); if (!a || !b || an != bn || memcmp(a, b, an)) { size_t q = 0; while (a && b && q < an && q < bn && a[q] == b[q]) q++; v_viol("stream-writer:bytes-differ-from-path-writer", "%s: path writer %zu bytes, pipe %zu bytes, first difference at %zu", tag, an, bn, q); } free(a); free(b); }
            else if (!(c2 && w2.all_ok)) v_viol("stream-writer:refused-table-the-path-writer-accepted", "%s: %s status %d", tag, w2.first_bad_call ? w2.first_bad_call : "?", w2.first_bad_status); }
        unlink(sp); }
    uint64_t h = (uint64_t)ci * 0x9E3779B97F4A7C15ULL; for (int g = 0; g < t->nrg; g++) for (int c = 0; c < t->ncols; c++) { h = v_hash(t->rg[g][c].def, (size_t)t->rg[g][c].nlevels * 2, h); h = v_hash(t->rg[g][c].batch_rows, (size_t)t->rg[g][c].nbatches * 8, h); }
    int64_t total = 0; for (int g = 0; g < t->nrg; g++) total += t->rg_rows[g];
    v_case(total >= 1 ? h : 0);
    if (!created || !wr.all_ok) { v_count("writer_refused"); unlink(path); return; }
    count_shapes(t);
    check_case(t, path, (int)(ci & 1), tag);
    if (KEEP) { char dst[600], cmd[1400]; snprintf(dst, sizeof dst, "%s/case_%lld", KEEP, (long long)KEPT++); snprintf(cmd, sizeof cmd, "%s.tdmp", dst); tbl_dump(t, cmd); snprintf(cmd, sizeof cmd, "%s.parquet", dst); rename(path, cmd);
        snprintf(cmd, sizeof cmd, "%s.meta", dst); FILE* f = fopen(cmd, "w"); if (f) { fprintf(f, "codec=%d page_size=%lld nrg=%d ncols=%d tag=%s\n", t->codec, (long long)t->page_size, t->nrg, t->ncols, tag); fclose(f); } }
    unlink(path);
}

int main(int argc, char** argv) {
    if (argc < 5) { fprintf(stderr, "usage: c01 gen|enum seed scale workdir [keepdir]\n"); return 2; }
    const char* mode = argv[1]; uint64_t seed = strtoull(argv[2], 0, 10); int scale = atoi(argv[3]); const char* dir = argv[4]; if (argc > 5) KEEP = argv[5];
    vrng_seed(&R, seed * 2654435761ULL + (uint64_t)mode[0]); (void)carquet_init(); char tag[128];
    if (!strcmp(mode, "gen")) { int64_t cases = scale >= 3 ? 2500 : scale >= 2 ? 1200 : 150; tgen_t gp = {8, 400, scale >= 2, -1, -1, -1, 0, 0};
        for (int64_t ci = 0; ci < cases; ci++) { table_t* t = tbl_generate(&R, &gp); snprintf(tag, sizeof tag, "gen seed=%llu case=%lld", (unsigned long long)seed, (long long)ci); run_case(t, dir, ci, tag); tbl_free(t); }
        /* shape sweep: column counts and row-group counts around the places where footer lists change representation (15 elements:
         * short vs long list header; 64/128: capacity doublings), with few rows so that the sweep stays cheap */
        { static const int NC[] = {9, 10, 11, 12, 13, 14, 15, 16, 17, 18, 31, 32, 33, 63, 64, 65, 127, 128, 129}; static const int NG[] = {5, 6, 7, 8, 13, 14, 15, 16, 17, 31, 32, 33};
          for (int q = 0; q < (int)(sizeof NC / sizeof *NC) + (int)(sizeof NG / sizeof *NG); q++) { int wide = q < (int)(sizeof NC / sizeof *NC); tgen_t g2 = {8, 12, 0, -1, -1, -1, 0, wide ? 1 + (int)vrng_below(&R, 2) : NG[q - (int)(sizeof NC / sizeof *NC)], wide ? NC[q] : 1 + (int)vrng_below(&R, 3)};
              table_t* t = tbl_generate(&R, &g2); snprintf(tag, sizeof tag, "shape seed=%llu cols=%d row_groups=%d", (unsigned long long)seed, t->ncols, t->nrg); run_case(t, dir, 100000 + q, tag); v_count(wide ? "shape_sweep_wide_tables" : "shape_sweep_many_row_groups"); tbl_free(t); } }
        codec_boundary_cases(dir, seed, scale >= 2 ? 600 : 120); lookalike_cases(dir, seed, scale >= 2 ? 60 : 12); level_run_cases(dir, seed, scale >= 2); create_close_only_case(dir, seed); refused_batch_case(dir, seed); if (scale >= 1) limits_cases(dir, scale >= 2); if ((scale >= 2 || getenv("CQV_ROWS_2_31")) && (seed % 1000) == 0) rows_beyond_32_bits_case(dir);   /* once per run: the first shard */
        v_sample("gen: %lld random tables: 1..8 columns over 7 physical types x REQUIRED/OPTIONAL, 1..4 row groups, rows 0..400 (some up to 60000), 5 codecs, page_size {1,64,1024,65536,default}, batch partitions {single,1-row,small,random incl. 0-row,halving}, interleaved columns", (long long)cases);
    } else if (!strcmp(mode, "enum")) {
        /* all (null pattern x batch partition) pairs for one OPTIONAL column of n rows; all batch partitions for a boolean column */
        int maxn = scale >= 2 ? 9 : 7; int64_t ci = 0;
        for (int n = 1; n <= maxn; n++) for (uint32_t nulls = 0; nulls < (1u << n); nulls++) for (uint32_t part = 0; part < (1u << (n - 1)); part++) {
            table_t* t = (table_t*)calloc(1, sizeof *t); t->ncols = 1; t->nrg = 1; t->cols = (tcol_t*)calloc(1, sizeof(tcol_t)); tcol_t* col = &t->cols[0];
            static const int ty[] = {CARQUET_PHYSICAL_INT32, CARQUET_PHYSICAL_BYTE_ARRAY, CARQUET_PHYSICAL_BOOLEAN, CARQUET_PHYSICAL_DOUBLE}; col->type = ty[(nulls + part) % 4]; col->rep = CARQUET_REPETITION_OPTIONAL; col->max_def = 1; strcpy(col->name, "v");
            t->codec = T_CODECS[(nulls * 7 + part) % 5]; t->page_size = (part & 1) ? 1 : 65536; if (n == 1) t->page_size = 65536;
            t->rg = (tchunk_t**)calloc(1, sizeof(tchunk_t*)); t->rg[0] = (tchunk_t*)calloc(1, sizeof(tchunk_t)); t->rg_rows = (int64_t*)calloc(1, 8); t->rg_rows[0] = n; tchunk_t* k = &t->rg[0][0];
            k->nlevels = n; k->def = (int16_t*)v_exact((size_t)n * 2); k->rep = (int16_t*)calloc((size_t)n, 2); int64_t nv = 0; for (int i = 0; i < n; i++) { k->def[i] = (int16_t)(((nulls >> i) & 1) ? 0 : 1); if (k->def[i]) nv++; } k->nvals = nv;
            if (col->type == CARQUET_PHYSICAL_BYTE_ARRAY) t_fill_ba(&R, k, nv, 0); else { k->fixed = (uint8_t*)v_exact((size_t)nv * t_elem_size(col) + 1); t_fill_fixed(&R, col, k->fixed, nv, 0); }
            k->batch_rows = (int64_t*)v_exact((size_t)n * 8 + 8); k->nbatches = 0; int64_t cur = 1; for (int i = 1; i < n; i++) { if ((part >> (i - 1)) & 1) { k->batch_rows[k->nbatches++] = cur; cur = 1; } else cur++; } k->batch_rows[k->nbatches++] = cur;
            if (nulls == 0 && (part & 2)) k->null_def_levels = 1;
            snprintf(tag, sizeof tag, "enum n=%d nulls=0x%x part=0x%x", n, nulls, part); run_case(t, dir, ci++, tag); tbl_free(t); }
        v_count_n("enum_optional_max_rows", (uint64_t)maxn);
        int maxb = scale >= 2 ? 14 : 11;
        for (int n = 1; n <= maxb; n++) for (uint32_t part = 0; part < (1u << (n - 1)); part++) for (int opt = 0; opt < 2; opt++) {
            table_t* t = (table_t*)calloc(1, sizeof *t); t->ncols = 1; t->nrg = 1; t->cols = (tcol_t*)calloc(1, sizeof(tcol_t)); tcol_t* col = &t->cols[0]; col->type = CARQUET_PHYSICAL_BOOLEAN; col->rep = opt; col->max_def = (int16_t)opt; strcpy(col->name, "b");
            t->codec = T_CODECS[part % 5]; t->page_size = 65536; t->rg = (tchunk_t**)calloc(1, sizeof(tchunk_t*)); t->rg[0] = (tchunk_t*)calloc(1, sizeof(tchunk_t)); t->rg_rows = (int64_t*)calloc(1, 8); t->rg_rows[0] = n; tchunk_t* k = &t->rg[0][0];
            k->nlevels = n; k->def = (int16_t*)v_exact((size_t)n * 2); k->rep = (int16_t*)calloc((size_t)n, 2); for (int i = 0; i < n; i++) k->def[i] = (int16_t)opt; k->nvals = n; k->fixed = (uint8_t*)v_exact((size_t)n); t_fill_fixed(&R, col, k->fixed, n, 0);
            k->batch_rows = (int64_t*)v_exact((size_t)n * 8 + 8); k->nbatches = 0; int64_t cur = 1; for (int i = 1; i < n; i++) { if ((part >> (i - 1)) & 1) { k->batch_rows[k->nbatches++] = cur; cur = 1; } else cur++; } k->batch_rows[k->nbatches++] = cur;
            snprintf(tag, sizeof tag, "enum-bool n=%d part=0x%x opt=%d", n, part, opt); run_case(t, dir, ci++, tag); tbl_free(t); }
        v_count_n("enum_boolean_max_rows", (uint64_t)maxb);
        v_sample("enum: every (null pattern x batch partition) of one OPTIONAL column up to %d rows (types rotate INT32/BYTE_ARRAY/BOOLEAN/DOUBLE, codecs rotate, page_size 1 or 64 KiB); every batch partition of a BOOLEAN column up to %d rows", maxn, maxb);
    } else return 2;
    v_finish(); return 0;
}
