/* Read-side monitors shared by C02 / C03 / C06 / C07: reference cursor over a model table,
 * column-reader call histories, batch-reader checker, and a mode-independent transcript. */
#ifndef RDCHK_H
#define RDCHK_H
#include "tbl.h"
#include "reader/reader_internal.h"
#include <stdbool.h>
#include <unistd.h>
#include <sys/stat.h>

enum { IO_FREAD = 0, IO_MMAP = 1, IO_BUFFER = 2 };
static const char* IO_NAME[] = {"fread", "mmap", "buffer"};

typedef struct { carquet_reader_t* rd; uint8_t* buf; size_t buf_n; int mode; } ropen_t;
static uint8_t* rd_slurp(const char* path, size_t* n) { FILE* f = fopen(path, "rb"); if (!f) return NULL; fseek(f, 0, SEEK_END); long L = ftell(f); fseek(f, 0, SEEK_SET); uint8_t* b = (uint8_t*)v_exact((size_t)L); if (L && fread(b, 1, (size_t)L, f) != (size_t)L) { fclose(f); free(b); return NULL; } fclose(f); *n = (size_t)L; return b; }
static int rd_open(ropen_t* o, const char* path, int mode, int verify, int threads, carquet_error_t* err) {
    memset(o, 0, sizeof *o); o->mode = mode; carquet_reader_options_t ro; carquet_reader_options_init(&ro); ro.use_mmap = mode == IO_MMAP; ro.verify_checksums = verify != 0; ro.num_threads = threads;
    { static const size_t BS[] = {65536, 0, 1, 4, 7, 8, 13, 4096, 1u << 20}; static unsigned bsi = 0; ro.buffer_size = BS[bsi++ % 9]; }   /* a tuning knob: any value must give the same content */
    if (mode == IO_BUFFER) { o->buf = rd_slurp(path, &o->buf_n); if (!o->buf) return 0; o->rd = carquet_reader_open_buffer(o->buf, o->buf_n, &ro, err); } else o->rd = carquet_reader_open(path, &ro, err);
    if (!o->rd) { free(o->buf); o->buf = NULL; return 0; } return 1;
}
static void rd_close(ropen_t* o) { if (o->rd) carquet_reader_close(o->rd); free(o->buf); memset(o, 0, sizeof *o); }

/* map model row groups to file row groups (1:1 for reference-written files; empty groups tolerated for carquet-written ones) */
static int rd_map_groups(carquet_reader_t* rd, const table_t* t, int* map) {
    int fg = carquet_reader_num_row_groups(rd); int j = 0;
    if (fg == t->nrg) { for (int g = 0; g < fg; g++) map[g] = g; return 1; }
    int* ne = (int*)calloc((size_t)fg + 1, sizeof(int)); int nf = 0;
    for (int g = 0; g < fg; g++) { carquet_row_group_metadata_t m; if (carquet_reader_row_group_metadata(rd, g, &m) == CARQUET_OK && m.num_rows > 0) ne[nf++] = g; }
    for (int g = 0; g < t->nrg; g++) { if (t->rg_rows[g] == 0) { map[g] = -1; continue; } if (j >= nf) { free(ne); return 0; } map[g] = ne[j++]; }
    free(ne); return j == nf;
}

/* ---- column-reader histories against a reference cursor -------------------------------------------- */
typedef struct { char op; int64_t k; int with_levels; } hop_t;   /* op: 'r' read_batch, 's' skip, 'h' has_next, 'm' remaining, 'c' re-create, 'z' read_batch(0) */
static void hist_fmt(char* out, size_t cap, const hop_t* h, int n) { size_t o = 0; out[0] = 0; for (int i = 0; i < n && o + 24 < cap; i++) o += (size_t)snprintf(out + o, cap - o, "%c%lld%s ", h[i].op, (long long)h[i].k, h[i].op == 'r' && !h[i].with_levels ? "n" : ""); }

/* runs one history on chunk (file rg frg, column c) and checks every observation. returns number of violations recorded */
static int hist_run(carquet_reader_t* rd, int frg, int c, const tcol_t* col, const tchunk_t* k, const hop_t* h, int nh, const char* ctx, const char* keyprefix) {
    char key[160], hs[400]; int bad = 0; carquet_error_t err = CARQUET_ERROR_INIT;
    carquet_column_reader_t* cr = carquet_reader_get_column(rd, frg, c, &err);
    if (!cr) { snprintf(key, sizeof key, "%s:get-column-failed", keyprefix); v_viol(key, "%s code=%d %s", ctx, err.code, err.message); return 1; }
    int64_t pos = 0, vpos = 0, rows = k->nlevels; size_t aes = t_api_elem_size(col);
    for (int i = 0; i < nh && !bad; i++) { const hop_t* op = &h[i];
        if (op->op == 'c') { carquet_column_reader_free(cr); cr = carquet_reader_get_column(rd, frg, c, &err); pos = 0; vpos = 0; if (!cr) { bad = 1; snprintf(key, sizeof key, "%s:recreate-failed", keyprefix); hist_fmt(hs, sizeof hs, h, i + 1); v_viol(key, "%s history=%s", ctx, hs); break; } v_count("hist_recreations"); }
        else if (op->op == 'h') { bool hn = carquet_column_has_next(cr); if (hn != (rows - pos > 0)) { bad = 1; snprintf(key, sizeof key, "%s:has_next-wrong", keyprefix); hist_fmt(hs, sizeof hs, h, i + 1); v_viol(key, "%s pos=%lld rows=%lld history=%s", ctx, (long long)pos, (long long)rows, hs); } }
        else if (op->op == 'm') { int64_t rm = carquet_column_remaining(cr); if (rm != rows - pos) { bad = 1; snprintf(key, sizeof key, "%s:remaining-wrong", keyprefix); hist_fmt(hs, sizeof hs, h, i + 1); v_viol(key, "%s remaining=%lld expect=%lld history=%s", ctx, (long long)rm, (long long)(rows - pos), hs); } }
        else if (op->op == 's') { int64_t want = op->k < rows - pos ? op->k : rows - pos; if (want < 0) want = 0; int64_t got = carquet_column_skip(cr, op->k);
            if (got != want) { bad = 1; snprintf(key, sizeof key, "%s:skip-count", keyprefix); hist_fmt(hs, sizeof hs, h, i + 1); v_viol(key, "%s skip(%lld) returned %lld expect %lld pos=%lld rows=%lld history=%s", ctx, (long long)op->k, (long long)got, (long long)want, (long long)pos, (long long)rows, hs); }
            else { for (int64_t q = 0; q < got; q++) if (k->def[pos + q] == col->max_def) vpos++; pos += got; if (pos > 0 && pos < rows) v_count("hist_skip_inside_chunk"); } }
        else { /* 'r' / 'z' */ int64_t kk = op->op == 'z' ? 0 : op->k; void* vals = v_exact((size_t)kk * aes); int16_t* defs = op->with_levels ? (int16_t*)v_exact((size_t)kk * 2) : NULL; int16_t* reps = (op->with_levels && col->max_rep > 0) ? (int16_t*)v_exact((size_t)kk * 2) : NULL;
            int64_t n = carquet_column_read_batch(cr, vals, kk, defs, reps); int64_t avail = rows - pos; int64_t mx = kk < avail ? kk : avail;
            if (n < 0 || n > mx || (n == 0 && mx > 0)) { bad = 1; snprintf(key, sizeof key, "%s:read-count", keyprefix); hist_fmt(hs, sizeof hs, h, i + 1); v_viol(key, "%s read_batch(%lld) returned %lld with %lld rows remaining history=%s", ctx, (long long)kk, (long long)n, (long long)avail, hs); }
            else { int64_t nn = 0; for (int64_t q = 0; q < n; q++) if (k->def[pos + q] == col->max_def) nn++;
                if (defs) { for (int64_t q = 0; q < n; q++) if (defs[q] != k->def[pos + q]) { bad = 1; snprintf(key, sizeof key, "%s:def-levels-differ", keyprefix); hist_fmt(hs, sizeof hs, h, i + 1); v_viol(key, "%s row=%lld got=%d want=%d history=%s", ctx, (long long)(pos + q), defs[q], k->def[pos + q], hs); break; } }
                if (!bad && reps) { for (int64_t q = 0; q < n; q++) if (reps[q] != k->rep[pos + q]) { bad = 1; snprintf(key, sizeof key, "%s:rep-levels-differ", keyprefix); hist_fmt(hs, sizeof hs, h, i + 1); v_viol(key, "%s row=%lld got=%d want=%d history=%s", ctx, (long long)(pos + q), reps[q], k->rep[pos + q], hs); break; } }
                if (!bad && !tbl_values_equal(col, k, vpos, nn, vals)) { bad = 1; snprintf(key, sizeof key, "%s:values-differ", keyprefix); hist_fmt(hs, sizeof hs, h, i + 1); v_viol(key, "%s rows %lld..%lld dense %lld..%lld history=%s", ctx, (long long)pos, (long long)(pos + n), (long long)vpos, (long long)(vpos + nn), hs); }
                if (!bad) (void)tbl_touch(col, vals, nn);
                if (n > 0 && n < avail) v_count("hist_partial_reads"); if (kk == 0) v_count("hist_k0_calls");
                pos += n; vpos += nn; }
            free(vals); free(defs); free(reps); }
        /* invariants after every call */
        if (!bad && cr) { int64_t rm = carquet_column_remaining(cr); bool hn = carquet_column_has_next(cr);
            if (rm != rows - pos || hn != (rows - pos > 0)) { bad = 1; snprintf(key, sizeof key, "%s:remaining-wrong", keyprefix); hist_fmt(hs, sizeof hs, h, i + 1); v_viol(key, "%s after op %d remaining=%lld has_next=%d expect=%lld history=%s", ctx, i, (long long)rm, (int)hn, (long long)(rows - pos), hs); } }
    }
    if (cr) carquet_column_reader_free(cr); v_count("histories_run"); return bad;
}

/* dot-separated path of a leaf (ancestors below the root, then the leaf), computed from the element list with an explicit stack; malloc'd */
static char* rd_leaf_path(const carquet_schema_t* s, int leaf_want) { int ne = s->num_elements; if (ne < 2) return NULL; int* rem = (int*)calloc((size_t)ne + 1, sizeof(int)); char** pre = (char**)calloc((size_t)ne + 1, sizeof(char*)); int depth = 0, leaf = 0; char* out = NULL; rem[0] = s->elements[0].num_children; pre[0] = strdup("");
    for (int e = 1; e < ne && !out; e++) { while (depth > 0 && rem[depth] <= 0) { free(pre[depth]); depth--; } rem[depth]--; const char* nm = s->elements[e].name ? s->elements[e].name : ""; size_t L = strlen(pre[depth]) + strlen(nm) + 2; char* full = (char*)malloc(L); snprintf(full, L, "%s%s%s", pre[depth], depth > 0 ? "." : "", nm);
        if (leaf < s->num_leaves && s->leaf_indices[leaf] == e) { if (leaf == leaf_want) out = full; else free(full); leaf++; } else { depth++; rem[depth] = s->elements[e].num_children; pre[depth] = full; } }
    while (depth >= 0) { free(pre[depth]); depth--; } free(rem); free(pre); return out; }

/* ---- batch reader checker ------------------------------------------------------------------------------- */
/* proj: list of model column indices (may repeat); by_name: resolve through column_names. learned polarity: -1 unknown, 1 bit set means null, 0 bit set means present */
static int G_polarity = -1;
static int batch_check(carquet_reader_t* rd, const table_t* t, const int* map, int batch_size, const int* proj, int nproj, int by_name, int threads, const char* ctx, const char* keyprefix) {
    char key[160]; carquet_error_t err = CARQUET_ERROR_INIT; carquet_batch_reader_config_t cfg; carquet_batch_reader_config_init(&cfg); cfg.batch_size = batch_size; cfg.num_threads = threads;
    int32_t* idx = NULL; const char** names = NULL; static char* G_paths[64]; static int G_npaths = 0; while (G_npaths > 0) free(G_paths[--G_npaths]);   /* path strings of the previous call */
    if (proj && !by_name) { idx = (int32_t*)v_exact((size_t)nproj * 4); for (int i = 0; i < nproj; i++) idx[i] = proj[i]; cfg.column_indices = idx; cfg.num_columns = nproj; }
    else if (proj) { names = (const char**)v_exact((size_t)nproj * sizeof(char*)); for (int i = 0; i < nproj; i++) names[i] = t->cols[proj[i]].name;
        if (by_name == 2) { /* by dot-separated path, unless some leaf's own name is that very string (own names win) */ const carquet_schema_t* sc = carquet_reader_schema(rd); for (int i = 0; i < nproj; i++) { char* pth = rd_leaf_path(sc, proj[i]); int shadow = !pth; for (int q = 0; pth && q < sc->num_leaves; q++) { const char* on = sc->elements[sc->leaf_indices[q]].name; if (on && !strcmp(on, pth) && q != proj[i]) shadow = 1; } if (!shadow && G_npaths < 64) { names[i] = pth; G_paths[G_npaths++] = pth; v_count("projections_by_dotted_path"); } else free(pth); } }
        cfg.column_names = names; cfg.num_column_names = nproj; }
    int np = proj ? nproj : t->ncols;
    carquet_batch_reader_t* br = carquet_batch_reader_create(rd, &cfg, &err);
    if (!br) { snprintf(key, sizeof key, "%s:batch-reader-create-failed", keyprefix); v_viol(key, "%s code=%d %s", ctx, err.code, err.message); free(idx); free(names); return 1; }
    int bad = 0; int g = 0; while (g < t->nrg && map[g] < 0) g++;
    int64_t* pos = (int64_t*)calloc((size_t)np, 8); int64_t* vpos = (int64_t*)calloc((size_t)np, 8); int64_t total = 0, want_total = 0; for (int q = 0; q < t->nrg; q++) want_total += t->rg_rows[q];
    int guard = 0;
    /* a consumer may collect batches and look at them later ("pointers remain valid until the batch is freed"): up to three
     * batches are kept while the reader moves on (other pages, other row groups) and are compared again before they are freed */
    struct { carquet_row_batch_t* b; int g; int64_t nr; int64_t* pos0; int64_t* vpos0; } held[3]; int nheld = 0; int hold = batch_size % 4; if (hold > 3) hold = 3;
#define RD_RECHECK_HELD(h_) do { for (int i_ = 0; i_ < np && !bad; i_++) { int mc_ = proj ? proj[i_] : i_; const tcol_t* col_ = &t->cols[mc_]; const tchunk_t* k_ = &t->rg[(h_).g][mc_]; const void* d_ = NULL; const uint8_t* bm_ = NULL; int64_t nv_ = -1; \
        if (carquet_row_batch_column((h_).b, i_, &d_, &bm_, &nv_) != CARQUET_OK || nv_ != (h_).nr) { bad = 1; snprintf(key, sizeof key, "%s:held-batch-changed", keyprefix); v_viol(key, "%s col=%d", ctx, i_); break; } \
        int64_t nn_ = 0; for (int64_t q_ = 0; q_ < (h_).nr; q_++) if (k_->def[(h_).pos0[i_] + q_] == col_->max_def) nn_++; \
        if (!tbl_values_equal(col_, k_, (h_).vpos0[i_], nn_, d_)) { bad = 1; snprintf(key, sizeof key, "%s:held-batch-values-changed", keyprefix); v_viol(key, "%s batch_size=%d col=%d type=%d: a batch kept while %d later batches were fetched no longer holds its values", ctx, batch_size, i_, col_->type, hold); } } \
        v_count("held_batches_rechecked"); carquet_row_batch_free((h_).b); free((h_).pos0); free((h_).vpos0); } while (0)
    while (!bad) { carquet_row_batch_t* b = NULL; carquet_status_t st = carquet_batch_reader_next(br, &b);
        if (st == CARQUET_ERROR_END_OF_DATA) break;
        if (st != CARQUET_OK || !b) { bad = 1; snprintf(key, sizeof key, "%s:batch-next-error", keyprefix); v_viol(key, "%s status=%d after %lld rows", ctx, st, (long long)total); break; }
        if (++guard > 4000000) { bad = 1; snprintf(key, sizeof key, "%s:batch-reader-does-not-terminate", keyprefix); v_viol(key, "%s", ctx); carquet_row_batch_free(b); break; }
        int64_t nr = carquet_row_batch_num_rows(b);
        if (carquet_row_batch_num_columns(b) != np) { bad = 1; snprintf(key, sizeof key, "%s:batch-column-count", keyprefix); v_viol(key, "%s got=%d want=%d", ctx, carquet_row_batch_num_columns(b), np); }
        if (nr == 0) { carquet_row_batch_free(b); v_count("empty_batches"); continue; }   /* an empty row group may yield an empty batch */
        /* advance to the row group that still has rows */
        while (g < t->nrg && (map[g] < 0 || pos[0] >= t->rg_rows[g])) { g++; for (int i = 0; i < np; i++) { pos[i] = 0; vpos[i] = 0; } }
        if (g >= t->nrg) { bad = 1; snprintf(key, sizeof key, "%s:batch-extra-rows", keyprefix); v_viol(key, "%s batch of %lld rows after the table was exhausted", ctx, (long long)nr); carquet_row_batch_free(b); break; }
        if (nr > t->rg_rows[g] - pos[0] || nr > batch_size) { bad = 1; snprintf(key, sizeof key, "%s:batch-row-count", keyprefix); v_viol(key, "%s batch rows=%lld batch_size=%d left in group=%lld", ctx, (long long)nr, batch_size, (long long)(t->rg_rows[g] - pos[0])); carquet_row_batch_free(b); break; }
        if (pos[0] + nr < t->rg_rows[g] || pos[0] > 0) v_count("batches_splitting_row_group");
        int64_t* pos0 = NULL, *vpos0 = NULL; if (hold) { pos0 = (int64_t*)malloc((size_t)np * 8); vpos0 = (int64_t*)malloc((size_t)np * 8); memcpy(pos0, pos, (size_t)np * 8); memcpy(vpos0, vpos, (size_t)np * 8); }
        for (int i = 0; i < np && !bad; i++) { int mc = proj ? proj[i] : i; const tcol_t* col = &t->cols[mc]; const tchunk_t* k = &t->rg[g][mc];
            const void* data = NULL; const uint8_t* bm = NULL; int64_t nv = -1; carquet_status_t cs = carquet_row_batch_column(b, i, &data, &bm, &nv);
            if (cs != CARQUET_OK) { bad = 1; snprintf(key, sizeof key, "%s:batch-column-error", keyprefix); v_viol(key, "%s col=%d status=%d", ctx, i, cs); break; }
            if (nv != nr) { bad = 1; snprintf(key, sizeof key, "%s:batch-columns-misaligned", keyprefix); v_viol(key, "%s batch_size=%d column %d has %lld values, batch has %lld rows (type=%d rep=%d)", ctx, batch_size, i, (long long)nv, (long long)nr, col->type, col->rep); break; }
            int64_t nn = 0; for (int64_t q = 0; q < nr; q++) if (k->def[pos[i] + q] == col->max_def) nn++;
            if (col->max_def > 0 && bm) { for (int64_t q = 0; q < nr && !bad; q++) { int bit = (bm[q / 8] >> (q % 8)) & 1; int isnull = k->def[pos[i] + q] < col->max_def;
                    if (G_polarity < 0 && nn != nr && nn != 0) { /* learn from a batch that has both kinds */ G_polarity = (bit == isnull) ? 1 : 0; }
                    if (G_polarity >= 0 && bit != (G_polarity ? isnull : !isnull)) { bad = 1; snprintf(key, sizeof key, "%s:null-bitmap-differs-from-def-levels", keyprefix); v_viol(key, "%s col=%d row=%lld bit=%d isnull=%d polarity=%d", ctx, i, (long long)(pos[i] + q), bit, isnull, G_polarity); } } v_count("null_bitmaps_checked"); }
            else if (col->max_def > 0 && !bm) { bad = 1; snprintf(key, sizeof key, "%s:null-bitmap-missing", keyprefix); v_viol(key, "%s col=%d", ctx, i); }
            else if (bm) { for (int64_t q = 0; q < nr && !bad; q++) { int bit = (bm[q / 8] >> (q % 8)) & 1; if (G_polarity >= 0 && bit != (G_polarity ? 0 : 1)) { bad = 1; snprintf(key, sizeof key, "%s:null-bitmap-marks-required-null", keyprefix); v_viol(key, "%s col=%d row=%lld", ctx, i, (long long)q); } } }
            if (!bad && !tbl_values_equal(col, k, vpos[i], nn, data)) { bad = 1; snprintf(key, sizeof key, "%s:batch-values-differ", keyprefix); v_viol(key, "%s batch_size=%d col=%d type=%d rep=%d rows %lld..%lld", ctx, batch_size, i, col->type, col->rep, (long long)pos[i], (long long)(pos[i] + nr)); }
            if (!bad) (void)tbl_touch(col, data, nn);
            pos[i] += nr; vpos[i] += nn; }
        total += nr; v_count("batches_checked");
        if (!hold || bad) { carquet_row_batch_free(b); free(pos0); free(vpos0); }
        else { if (nheld == hold) { RD_RECHECK_HELD(held[0]); for (int q = 1; q < nheld; q++) held[q - 1] = held[q]; nheld--; } held[nheld].b = b; held[nheld].g = g; held[nheld].nr = nr; held[nheld].pos0 = pos0; held[nheld].vpos0 = vpos0; nheld++; } }
    for (int q = 0; q < nheld; q++) { if (!bad) RD_RECHECK_HELD(held[q]); else { carquet_row_batch_free(held[q].b); free(held[q].pos0); free(held[q].vpos0); } }
#undef RD_RECHECK_HELD
    if (!bad && total != want_total) { bad = 1; snprintf(key, sizeof key, "%s:batch-total-rows", keyprefix); v_viol(key, "%s batch_size=%d delivered=%lld table=%lld", ctx, batch_size, (long long)total, (long long)want_total); }
    carquet_batch_reader_free(br); free(pos); free(vpos); free(idx); free(names); return bad;
}

/* ---- mode-independent transcript (C03 / C07) ------------------------------------------------------------ */
typedef struct { char* p; size_t n, cap; } tx_t;
static void tx_add(tx_t* x, const char* fmt, ...) { char buf[512]; va_list ap; va_start(ap, fmt); int L = vsnprintf(buf, sizeof buf, fmt, ap); va_end(ap); if (L < 0) return; if ((size_t)L >= sizeof buf) L = sizeof buf - 1;
    if (x->n + (size_t)L + 2 > x->cap) { x->cap = x->cap ? x->cap * 2 + (size_t)L : 4096; x->p = (char*)realloc(x->p, x->cap); } memcpy(x->p + x->n, buf, (size_t)L); x->n += (size_t)L; x->p[x->n++] = '\n'; x->p[x->n] = 0; }
static uint64_t tx_hash_values(int type, int32_t tl, const void* data, int64_t n) {
    if (type == CARQUET_PHYSICAL_BYTE_ARRAY) { const carquet_byte_array_t* a = (const carquet_byte_array_t*)data; uint64_t h = 7; for (int64_t i = 0; i < n; i++) { h = v_hash(&a[i].length, 4, h); h = v_hash(a[i].data, (size_t)(a[i].length > 0 ? a[i].length : 0), h); } return h; }
    size_t es = type == CARQUET_PHYSICAL_BOOLEAN ? 1 : type == CARQUET_PHYSICAL_INT32 || type == CARQUET_PHYSICAL_FLOAT ? 4 : type == CARQUET_PHYSICAL_INT64 || type == CARQUET_PHYSICAL_DOUBLE ? 8 : type == CARQUET_PHYSICAL_INT96 ? 12 : (size_t)(tl > 0 ? tl : 0);
    return v_hash(data, (size_t)n * es, 11);
}
#endif
