/* C02: what a reader returns does not depend on how the caller consumes it.
 * usage: c02 gen <seed> <scale> <workdir>
 *        c02 file <seed> <scale> <parquet> <tdmp> [<parquet> <tdmp> ...]   (reference-written files) */
#include "rdchk.h"

static vrng_t R;
static int EXH_LEN = 3; static int64_t EXH_BUDGET = 60; static int RAND_HIST = 6;

static int build_alphabet(hop_t* a, int64_t rows) {
    int n = 0; static const int64_t rk[] = {1, 2, 3, 7, 8, 9}; for (size_t i = 0; i < 6; i++) if (rk[i] < rows + 2) { a[n].op = 'r'; a[n].k = rk[i]; a[n].with_levels = 1; n++; }
    a[n].op = 'r'; a[n].k = rows; a[n].with_levels = 1; n++; a[n].op = 'r'; a[n].k = rows + 5; a[n].with_levels = 0; n++;
    a[n].op = 'z'; a[n].k = 0; a[n].with_levels = 1; n++;
    static const int64_t sk[] = {1, 2, 3, 8}; for (size_t i = 0; i < 4; i++) if (sk[i] < rows + 2) { a[n].op = 's'; a[n].k = sk[i]; n++; }
    a[n].op = 's'; a[n].k = rows + 5; n++; a[n].op = 'c'; a[n].k = 0; n++; a[n].op = 'm'; a[n].k = 0; n++;
    return n;
}
static void exhaustive_histories(carquet_reader_t* rd, int frg, int c, const tcol_t* col, const tchunk_t* k, const char* ctx) {
    hop_t alpha[24]; int na = build_alphabet(alpha, k->nlevels); hop_t h[8]; int idx[8];
    for (int len = 1; len <= EXH_LEN; len++) { for (int i = 0; i < len; i++) idx[i] = 0;
        for (;;) { for (int i = 0; i < len; i++) h[i] = alpha[idx[i]];
            uint64_t hh = v_hash(idx, (size_t)len * sizeof(int), (uint64_t)k->nlevels * 131 + (uint64_t)col->type * 7 + (uint64_t)col->rep + v_hash(k->def, (size_t)k->nlevels * 2, 3)); v_case(hh);
            if (hist_run(rd, frg, c, col, k, h, len, ctx, "history")) return;
            int p = len - 1; while (p >= 0 && ++idx[p] == na) { idx[p] = 0; p--; } if (p < 0) break; } }
    v_count("chunks_with_exhaustive_histories");
}
static void random_histories(carquet_reader_t* rd, int frg, int c, const tcol_t* col, const tchunk_t* k, const char* ctx, int count) {
    for (int rep = 0; rep < count; rep++) { hop_t h[40]; int n = 1 + (int)vrng_below(&R, 30); int64_t rows = k->nlevels;
        for (int i = 0; i < n; i++) { int o = (int)vrng_below(&R, 20); int64_t kk; int kc = (int)vrng_below(&R, 8);
            kk = kc == 0 ? 1 : kc == 1 ? 1 + (int64_t)vrng_below(&R, 9) : kc == 2 ? 63 + (int64_t)vrng_below(&R, 3) : kc == 3 ? rows : kc == 4 ? rows + 5 : kc == 5 ? (int64_t)vrng_below(&R, (uint64_t)rows + 1) : kc == 6 ? 1000 + (int64_t)vrng_below(&R, 50) : 2 + (int64_t)vrng_below(&R, 300);
            if (o < 10) { h[i].op = 'r'; h[i].k = kk; h[i].with_levels = (int)vrng_below(&R, 4) != 0; } else if (o < 15) { h[i].op = 's'; h[i].k = kk; if (vrng_chance(&R, 1, 7)) { static const int64_t HUGE_K[] = {2147483647LL, 2147483648LL, 4294967296LL + 7, 3000000000LL, INT64_MAX, INT64_MAX - 1, 1LL << 40}; h[i].k = HUGE_K[vrng_below(&R, 7)]; } }   /* skip(k) = min(k, remaining) for every k */ else if (o < 16) { h[i].op = 'c'; h[i].k = 0; } else if (o < 17) { h[i].op = 'z'; h[i].k = 0; h[i].with_levels = 1; } else if (o < 18) { h[i].op = 'h'; h[i].k = 0; } else { h[i].op = 'm'; h[i].k = 0; } }
        /* finish by draining so the end of the chunk is always reached by some history */
        if (n < 39 && rep % 2 == 0) { h[n].op = 'r'; h[n].k = rows + 1; h[n].with_levels = 1; n++; }
        v_case(v_hash(h, (size_t)n * sizeof(hop_t), (uint64_t)rows + v_hash(k->def, (size_t)k->nlevels * 2, 5)));
        if (hist_run(rd, frg, c, col, k, h, n, ctx, "history")) return; }
}

static void check_table(const table_t* t, const char* path, int64_t ci, const char* tag) {
    char ctx[300]; carquet_error_t err = CARQUET_ERROR_INIT; int mode = (int)(ci % 3); ropen_t o;
    if (!rd_open(&o, path, mode, 1, 1, &err)) { v_viol("open-failed", "%s mode=%s code=%d %s", tag, IO_NAME[mode], err.code, err.message); return; }
    int* map = (int*)calloc((size_t)t->nrg + 1, sizeof(int));
    if (carquet_reader_num_columns(o.rd) != t->ncols || !rd_map_groups(o.rd, t, map)) { v_viol("layout-differs-from-model", "%s mode=%s", tag, IO_NAME[mode]); rd_close(&o); free(map); return; }
    for (int g = 0; g < t->nrg; g++) { if (map[g] < 0) continue; for (int c = 0; c < t->ncols; c++) { const tchunk_t* k = &t->rg[g][c]; const tcol_t* col = &t->cols[c];
        snprintf(ctx, sizeof ctx, "%s mode=%s rg=%d col=%d type=%d rep=%d rows=%lld page=%lld codec=%d", tag, IO_NAME[mode], g, c, col->type, col->rep, (long long)k->nlevels, (long long)t->page_size, t->codec);
        if (k->nlevels >= 1 && k->nlevels <= 12 && EXH_BUDGET > 0) { EXH_BUDGET--; exhaustive_histories(o.rd, map[g], c, col, k, ctx); }
        if (k->nlevels >= 1) random_histories(o.rd, map[g], c, col, k, ctx, RAND_HIST); } }
    /* batch reader: batch sizes x projections (columns with repetition have more level entries than rows: the batch reader's row alignment is defined for flat data only) */
    for (int c = 0; c < t->ncols; c++) if (t->cols[c].max_rep > 0) { v_count("files_with_repeated_columns"); free(map); rd_close(&o); return; }
    int64_t maxrows = 0; for (int g = 0; g < t->nrg; g++) if (t->rg_rows[g] > maxrows) maxrows = t->rg_rows[g];
    int bss[] = {1, 2, 3, 7, 8, 9, 63, 64, 65, (int)(maxrows > 0 ? maxrows : 1), (int)maxrows + 1, 65536}; int nbs = (int)(sizeof bss / sizeof *bss);
    int64_t total = 0; for (int g = 0; g < t->nrg; g++) total += t->rg_rows[g];
    for (int bi = 0; bi < nbs; bi++) { int bs = bss[bi]; if (total > 3000 && bs < 7) continue;
        snprintf(ctx, sizeof ctx, "%s mode=%s batch_size=%d proj=all", tag, IO_NAME[mode], bs); v_case(v_hash(ctx, strlen(ctx), 1));
        if (batch_check(o.rd, t, map, bs, NULL, 0, 0, 1, ctx, "batch")) break; }
    /* projections at two batch sizes */
    int pbs[2] = {7, 65536};
    for (int pi = 0; pi < 2; pi++) { int bs = pbs[pi]; if (total > 3000 && bs < 64) continue; int proj[16];
        for (int c = 0; c < t->ncols; c++) { proj[0] = c; snprintf(ctx, sizeof ctx, "%s mode=%s batch_size=%d proj=single(%d) by_%s", tag, IO_NAME[mode], bs, c, (c % 3 == 1) ? "name" : (c % 3 == 2) ? "path" : "index"); v_case(v_hash(ctx, strlen(ctx), 2)); int unique_name = 1; for (int d = 0; d < t->ncols; d++) if (d != c && !strcmp(t->cols[d].name, t->cols[c].name)) unique_name = 0; if (batch_check(o.rd, t, map, bs, proj, 1, c % 3 == 1 ? unique_name : c % 3 == 2 ? 2 : 0, 1, ctx, "batch-projection")) break; v_count("projections_checked"); }
        for (int c = 0; c < t->ncols; c++) proj[c] = t->ncols - 1 - c; snprintf(ctx, sizeof ctx, "%s mode=%s batch_size=%d proj=reversed", tag, IO_NAME[mode], bs); v_case(v_hash(ctx, strlen(ctx), 3)); (void)batch_check(o.rd, t, map, bs, proj, t->ncols, 0, 1, ctx, "batch-projection"); v_count("projections_checked");
        if (t->ncols >= 1) { proj[0] = 0; proj[1] = t->ncols - 1; proj[2] = 0; snprintf(ctx, sizeof ctx, "%s mode=%s batch_size=%d proj=duplicates", tag, IO_NAME[mode], bs); v_case(v_hash(ctx, strlen(ctx), 4)); (void)batch_check(o.rd, t, map, bs, proj, 3, 0, 1, ctx, "batch-projection"); v_count("projections_checked"); } }
    free(map); rd_close(&o);
}

int main(int argc, char** argv) {
    if (argc < 5) { fprintf(stderr, "usage\n"); return 2; } const char* mode = argv[1]; uint64_t seed = strtoull(argv[2], 0, 10); int scale = atoi(argv[3]);
    vrng_seed(&R, seed * 40503 + (uint64_t)mode[0]); (void)carquet_init(); if (scale >= 2) { EXH_LEN = 4; EXH_BUDGET = 25; RAND_HIST = 12; }
    if (!strcmp(mode, "gen")) { const char* dir = argv[4]; char path[512], tag[128]; snprintf(path, sizeof path, "%s/c.parquet", dir); int64_t cases = scale >= 2 ? 260 : 45;
        for (int64_t ci = 0; ci < cases; ci++) { static const int64_t pgs[] = {1, 64, 1024, 0}; tgen_t gp = {5, ci % 7 == 6 ? 3000 : 60, 0, -1, -1, -1, pgs[ci % 4], 0}; table_t* t = tbl_generate(&R, &gp); twrite_result_t wr; unlink(path);
            if (tbl_write_path(&R, t, path, &wr) && wr.all_ok) { snprintf(tag, sizeof tag, "gen seed=%llu case=%lld", (unsigned long long)seed, (long long)ci); check_table(t, path, ci, tag); int mp = 0; for (int g = 0; g < t->nrg; g++) for (int c = 0; c < t->ncols; c++) if (t->rg[g][c].nbatches > 1 && t->page_size <= 64) mp = 1; if (mp) v_count("files_with_multi_page_chunks"); } else v_count("writer_refused");
            unlink(path); tbl_free(t); }
        v_sample("c02 gen: %lld carquet-written tables (page sizes 1/64/1024/default so chunks span 1..many pages), per chunk: all histories up to length %d over {read 1,2,3,7,8,9,rows,rows+5; read 0; skip 1,2,3,8,rows+5; re-create; remaining} for small chunks + %d random histories (<=31 ops); batch reader at 12 batch sizes x {all, each single column by index/name, reversed, duplicates}", (long long)cases, EXH_LEN, RAND_HIST);
    } else if (!strcmp(mode, "file")) { for (int i = 4; i + 1 < argc; i += 2) { table_t* t = tbl_load(argv[i + 1]); char tag[300]; snprintf(tag, sizeof tag, "file=%s", strrchr(argv[i], '/') ? strrchr(argv[i], '/') + 1 : argv[i]); check_table(t, argv[i], (int64_t)(i / 2) + (int64_t)seed, tag); v_count("reference_written_files"); tbl_free(t); }
        v_sample("c02 file: reference-written files (dictionary pages, multi-page chunks, nested levels) checked against their TDMP model");
    } else return 2;
    v_finish(); return 0;
}
