/* C19: allocation failure gives a clean error or the correct result, nothing else.
 * Link with -Wl,--wrap=malloc,--wrap=calloc,--wrap=realloc,--wrap=strdup (carquet objects and static libz/libzstd).
 * usage: c19 count <scenario> <tmpdir> [file tdmp]         -> prints K
 *        c19 run <scenario> <k> <tmpdir> [file tdmp]        -> exit 0 clean / VIOL lines / sanitizer abort / LSan exit code */
#include "rdchk.h"
#include "thrift/parquet_types.h"
#include "core/arena.h"
#include "core/buffer.h"
#include <stdbool.h>
#ifndef VERIF_COV
void __lsan_disable(void); void __lsan_enable(void);
#endif

static long g_count = 0, g_fail_at = -1; static int g_armed = 0; static int g_failed = 0;
#define MAX_SITES 4096
static void* g_sites[MAX_SITES]; static int g_nsites = 0;
void __sanitizer_print_stack_trace(void);
static void on_fail(void) { g_failed = 1; if (getenv("C19_TRACE")) { fprintf(stderr, "INJECTED-FAILURE at allocation #%ld\n", g_count); __sanitizer_print_stack_trace(); } }
/* call-stack signature of every allocation request of the fault-free run (frame-pointer walk, 8 frames): the check uses it to
 * fail at least the first, second and last request of every distinct stack, so that rare contexts of a common allocator
 * (a buffer growing inside one particular field writer) are reached even when the long histories are sampled */
static uint64_t* g_sigs = NULL; static long g_nsigs = 0, g_capsigs = 0; static int g_sigs_on = 0;
void* __real_realloc(void*, size_t);
extern void* __libc_stack_end;
__attribute__((no_sanitize_address)) static void note_sig(void** fp) { if (!g_sigs_on) return; uint64_t h = 1469598103934665603ULL; char* lo = (char*)fp; char* hi = (char*)__libc_stack_end - 16; if (lo > hi || hi - lo > (8 << 20)) hi = lo + 8;   /* not the main thread's stack: first frame only */
    for (int i = 0; i < 8; i++) { if ((char*)fp < lo || (char*)fp > hi || ((uintptr_t)fp & 7)) break; void* ra = fp[1]; h = (h ^ (uint64_t)(uintptr_t)ra) * 1099511628211ULL; void** nx = (void**)fp[0]; if (nx <= fp) break; fp = nx; }
    if (g_nsigs == g_capsigs) { g_capsigs = g_capsigs ? g_capsigs * 2 : 4096; g_sigs = __real_realloc(g_sigs, (size_t)g_capsigs * 8); } g_sigs[g_nsigs++] = h; }
static void note_site(void* ra) { note_sig((void**)__builtin_frame_address(0)); for (int i = 0; i < g_nsites; i++) if (g_sites[i] == ra) return; if (g_nsites < MAX_SITES) g_sites[g_nsites++] = ra; }
void* __real_malloc(size_t); void* __real_calloc(size_t, size_t); void* __real_realloc(void*, size_t); char* __real_strdup(const char*);
void* __wrap_malloc(size_t n) { if (g_armed) { note_site(__builtin_return_address(0)); if (++g_count == g_fail_at) { on_fail(); return NULL; } } return __real_malloc(n); }
void* __wrap_calloc(size_t a, size_t b) { if (g_armed) { note_site(__builtin_return_address(0)); if (++g_count == g_fail_at) { on_fail(); return NULL; } } return __real_calloc(a, b); }
void* __wrap_realloc(void* p, size_t n) { if (g_armed) { note_site(__builtin_return_address(0)); if (++g_count == g_fail_at) { on_fail(); return NULL; } } return __real_realloc(p, n); }
char* __wrap_strdup(const char* s) { if (g_armed) { note_site(__builtin_return_address(0)); if (++g_count == g_fail_at) { on_fail(); return NULL; } } return __real_strdup(s); }
#define ARM() do { g_armed = 1; } while (0)
#define DISARM() do { g_armed = 0; } while (0)

carquet_status_t carquet_delta_length_encode(const carquet_byte_array_t*, int32_t, carquet_buffer_t*);
carquet_status_t carquet_delta_strings_encode(const carquet_byte_array_t*, int32_t, carquet_buffer_t*);
carquet_status_t carquet_delta_length_decode(const uint8_t*, size_t, carquet_byte_array_t*, int32_t, size_t*);
typedef struct carquet_statistics_builder carquet_statistics_builder_t;
carquet_statistics_builder_t* carquet_statistics_builder_create(carquet_physical_type_t, int32_t);
void carquet_statistics_builder_destroy(carquet_statistics_builder_t*);
carquet_status_t carquet_statistics_add_values(carquet_statistics_builder_t*, const void*, int64_t);
carquet_status_t carquet_statistics_build(const carquet_statistics_builder_t*, carquet_arena_t*, parquet_statistics_t*);
carquet_bloom_filter_t* carquet_bloom_filter_create(size_t); void carquet_bloom_filter_destroy(carquet_bloom_filter_t*); void carquet_bloom_filter_insert_i64(carquet_bloom_filter_t*, int64_t); bool carquet_bloom_filter_check_i64(const carquet_bloom_filter_t*, int64_t);
carquet_status_t carquet_bloom_filter_read(carquet_bloom_filter_t**, const uint8_t*, size_t); size_t carquet_bloom_filter_size(const carquet_bloom_filter_t*); const uint8_t* carquet_bloom_filter_data(const carquet_bloom_filter_t*);
carquet_status_t carquet_dictionary_encode_int32(const int32_t*, int64_t, carquet_buffer_t*, carquet_buffer_t*);

static const char* TMP = "/tmp";
static int WIDE_VARIANT = 0;
static table_t* make_table(int codec, int wide) { __lsan_disable(); vrng_t r; vrng_seed(&r, 4242 + (uint64_t)codec * 7 + (uint64_t)wide); tgen_t gp = {wide == 1 ? 1 : wide == 2 ? 3 : 5, wide == 1 ? 6 : wide == 2 ? 150 : 30, 0, wide == 2 ? (int)CARQUET_PHYSICAL_BYTE_ARRAY : -1, -1, codec, 64, wide == 1 ? 3 : 2};   /* wide == 2: BYTE_ARRAY columns whose chunks span many 64-byte pages */ table_t* t = tbl_generate(&r, &gp);
    if (wide == 1) { /* widen to many columns so that the writer's 4 KiB arena and the footer arenas must grow */ int nc = 260; tcol_t* cols = calloc((size_t)nc, sizeof(tcol_t)); for (int c = 0; c < nc; c++) { cols[c] = t->cols[0]; snprintf(cols[c].name, sizeof cols[c].name, "wide_column_with_a_long_name_%0*d", 4 + WIDE_VARIANT * 3, c);   /* the variant moves every arena block boundary of the footer parser onto other allocations */ }
        for (int g = 0; g < t->nrg; g++) { tchunk_t* ch = calloc((size_t)nc, sizeof(tchunk_t)); for (int c = 0; c < nc; c++) { ch[c] = t->rg[g][0]; } /* chunks alias column 0's arrays; never freed individually */ t->rg[g] = ch; } t->cols = cols; t->ncols = nc; }
    __lsan_enable(); return t; }

/* compare what an open reader delivers with the model; returns 0 equal, 1 differs, -1 an error was reported */
static int read_and_compare(carquet_reader_t* rd, const table_t* t, int use_batch) {
    int map[16]; if (t->nrg > 15) return -1; if (carquet_reader_num_columns(rd) != t->ncols || !rd_map_groups(rd, t, map)) return 1; carquet_error_t err = CARQUET_ERROR_INIT;
    if (use_batch != 1) { for (int g = 0; g < t->nrg; g++) { if (map[g] < 0) continue; for (int c = 0; c < t->ncols; c++) { const tcol_t* col = &t->cols[c]; const tchunk_t* k = &t->rg[g][c]; carquet_column_reader_t* cr = carquet_reader_get_column(rd, map[g], c, &err); if (!cr) return -1;
                int64_t rows = k->nlevels, pos = 0, vpos = 0; int rc = 0; while (pos < rows && !rc) { int64_t kk = use_batch == 2 ? rows - pos : rows - pos < 9 ? rows - pos : 9;   /* whole chunk in one call: several pages behind one batch of returned pointers */ void* vals = __real_malloc((size_t)kk * t_api_elem_size(col) + 1); int16_t* defs = __real_malloc((size_t)kk * 2 + 2); int64_t n = carquet_column_read_batch(cr, vals, kk, defs, NULL);
                    if (n <= 0) rc = -1; else { int64_t nn = 0; for (int64_t q = 0; q < n; q++) { if ((defs[q] == col->max_def) != (k->def[pos + q] == col->max_def)) rc = 1; if (k->def[pos + q] == col->max_def) nn++; } if (!rc && !tbl_values_equal(col, k, vpos, nn, vals)) rc = 1; pos += n; vpos += nn; } free(vals); free(defs); }
                carquet_column_reader_free(cr); if (rc) return rc; } } return 0; }
    carquet_batch_reader_config_t cfg; carquet_batch_reader_config_init(&cfg); cfg.batch_size = 7; cfg.num_threads = 1; carquet_batch_reader_t* br = carquet_batch_reader_create(rd, &cfg, &err); if (!br) return -1;
    int g = 0; int64_t pos = 0; int64_t* vpos = __real_calloc((size_t)t->ncols + 1, 8); int rc = 0; while (g < t->nrg && map[g] < 0) g++;
    for (;;) { carquet_row_batch_t* b = NULL; carquet_status_t st = carquet_batch_reader_next(br, &b); if (st == CARQUET_ERROR_END_OF_DATA) break; if (st != CARQUET_OK || !b) { rc = -1; break; } int64_t nr = carquet_row_batch_num_rows(b);
        if (nr == 0) { carquet_row_batch_free(b); continue; } while (g < t->nrg && (map[g] < 0 || pos >= t->rg_rows[g])) { g++; pos = 0; for (int c = 0; c < t->ncols; c++) vpos[c] = 0; } if (g >= t->nrg || nr > t->rg_rows[g] - pos) { rc = 1; carquet_row_batch_free(b); break; }
        for (int c = 0; c < t->ncols && !rc; c++) { const void* d; const uint8_t* bm; int64_t nv; if (carquet_row_batch_column(b, c, &d, &bm, &nv) != CARQUET_OK || nv != nr) { rc = 1; break; } const tcol_t* col = &t->cols[c]; const tchunk_t* k = &t->rg[g][c]; int64_t nn = 0; for (int64_t q = 0; q < nr; q++) if (k->def[pos + q] == col->max_def) nn++;
            if (!tbl_values_equal(col, k, vpos[c], nn, d)) rc = 1; vpos[c] += nn;
            /* null bitmap: one polarity for the whole run (fixed by the first bit seen), every bit must agree with the model; a missing bitmap says "no nulls" */
            if (col->max_def > 0) { if (!bm) { if (nn != nr) rc = 1; } else for (int64_t q = 0; q < nr; q++) { int bit = (bm[q / 8] >> (q % 8)) & 1, isnull = k->def[pos + q] != col->max_def; static int pol = -1; if (pol < 0) pol = bit ^ isnull; if ((bit ^ isnull) != pol) rc = 1; } } }
        pos += nr; carquet_row_batch_free(b); if (rc) break; }
    if (!rc) { int64_t left = 0; for (int q = g; q < t->nrg; q++) if (map[q] >= 0) left += t->rg_rows[q] - (q == g ? pos : 0); if (left != 0) rc = 1; }
    free(vpos); carquet_batch_reader_free(br); return rc; }

/* ---- scenarios: return 0 ok (clean error or correct success), 1 violation (message in msg) ------------------ */
static char msg[512];
static int sc_schema(void) { ARM(); carquet_error_t err = CARQUET_ERROR_INIT; carquet_schema_t* s = carquet_schema_create(&err); int rc = 0;
    if (s) { int added = 0; for (int i = 0; i < 150; i++) { char nm[64]; snprintf(nm, sizeof nm, "column_number_%d_with_some_length", i); if (carquet_schema_add_column(s, nm, (carquet_physical_type_t)(i % 8 == 3 ? 1 : i % 8), NULL, (carquet_field_repetition_t)(i % 2), i % 8 == 7 ? 5 : 0) != CARQUET_OK) break; added++; }
        DISARM(); if (carquet_schema_num_columns(s) != added) { snprintf(msg, sizeof msg, "schema reports %d columns after %d successful add_column calls", carquet_schema_num_columns(s), added); rc = 1; }
        for (int i = 0; i < added && !rc; i++) { const carquet_schema_node_t* n = carquet_schema_get_element(s, i + 1); char nm[64]; snprintf(nm, sizeof nm, "column_number_%d_with_some_length", i); if (!n || !carquet_schema_node_name(n) || strcmp(carquet_schema_node_name(n), nm)) { snprintf(msg, sizeof msg, "column %d lost its name after an allocation failure", i); rc = 1; } }
        carquet_schema_free(s); }
    DISARM(); return rc; }

/* the same builder history, but the application treats a failed add_column as "that column is not in the schema" and carries on with the
 * handle (which the error left valid): the schema must hold exactly the columns whose call returned OK, in order, with their levels */
static int sc_schema_on(void) { ARM(); carquet_error_t err = CARQUET_ERROR_INIT; carquet_schema_t* s = carquet_schema_create(&err); int rc = 0;
    if (s) { int added = 0; int which[160]; for (int i = 0; i < 150; i++) { char nm[64]; snprintf(nm, sizeof nm, "column_number_%d_with_some_length", i); if (carquet_schema_add_column(s, nm, (carquet_physical_type_t)(i % 8 == 3 ? 1 : i % 8), NULL, (carquet_field_repetition_t)(i % 2), i % 8 == 7 ? 5 : 0) == CARQUET_OK) which[added++] = i; }
        DISARM(); if (carquet_schema_num_columns(s) != added) { snprintf(msg, sizeof msg, "schema reports %d columns after %d successful add_column calls (application went on after a failed one)", carquet_schema_num_columns(s), added); rc = 1; }
        for (int k = 0; k < added && !rc; k++) { int i = which[k]; const carquet_schema_node_t* n = carquet_schema_get_element(s, k + 1); char nm[64]; snprintf(nm, sizeof nm, "column_number_%d_with_some_length", i);
            if (!n || !carquet_schema_node_name(n) || strcmp(carquet_schema_node_name(n), nm) || (int)carquet_schema_node_physical_type(n) != (i % 8 == 3 ? 1 : i % 8) || carquet_schema_node_max_def_level(n) != i % 2 || carquet_schema_find_column(s, nm) != k) { snprintf(msg, sizeof msg, "column %d (slot %d) is not what was added, after going on past a failed add_column", i, k); rc = 1; } }
        carquet_schema_free(s); }
    DISARM(); return rc; }

static int sc_write(int codec, int wide) { table_t* t = make_table(codec, wide); char path[600], ref[600]; snprintf(path, sizeof path, "%s/w_%d_%d_%ld.parquet", TMP, codec, wide, (long)getpid()); snprintf(ref, sizeof ref, "%s/ref_%d_%d.parquet", TMP, codec, wide);
    twrite_result_t res; vrng_t r; vrng_seed(&r, 7); unlink(path); ARM(); int created = tbl_write_path(&r, t, path, &res); DISARM(); int rc = 0;
    if (created && res.all_ok) { /* success reported: the file must read back to the intended table */ carquet_error_t err = CARQUET_ERROR_INIT; ropen_t o; if (!rd_open(&o, path, IO_FREAD, 1, 1, &err)) { snprintf(msg, sizeof msg, "every writer call returned OK but the file cannot be opened (%s); allocation #%ld failed", err.message, g_fail_at); rc = 1; }
        else { int cmp = read_and_compare(o.rd, t, 0); if (cmp) { snprintf(msg, sizeof msg, "every writer call returned OK but the file reads back %s; allocation #%ld failed", cmp < 0 ? "with an error" : "to a different table", g_fail_at); rc = 1; } rd_close(&o); }
        if (!rc && g_fail_at < 0) { rename(path, ref); } }
    unlink(path); return rc; }

/* an application that does not stop at the first failed call: it keeps writing and closes normally. If close then says OK the file must be
 * readable to the end of every column (what it holds is the application's business, that it is a consistent file is the writer's) */
static int sc_write_on(int codec) { table_t* t = make_table(codec, 0); char path[600]; snprintf(path, sizeof path, "%s/wo_%d_%ld.parquet", TMP, codec, (long)getpid());
    twrite_result_t res; vrng_t r; vrng_seed(&r, 7); unlink(path); TBL_KEEP_GOING = 1; ARM(); int created = tbl_write_path(&r, t, path, &res); DISARM(); TBL_KEEP_GOING = 0; int rc = 0;
    if (created && res.close_called && res.close_status == CARQUET_OK) { carquet_error_t err = CARQUET_ERROR_INIT; ropen_t o; if (!rd_open(&o, path, IO_FREAD, 1, 1, &err)) { snprintf(msg, sizeof msg, "close returned OK (after %s failed) but the file cannot be opened (%s); allocation #%ld failed", res.first_bad_call ? res.first_bad_call : "nothing", err.message, g_fail_at); rc = 1; }
        else { int ng = carquet_reader_num_row_groups(o.rd), nc = carquet_reader_num_columns(o.rd); if (nc > t->ncols) nc = t->ncols;
            for (int g = 0; g < ng && !rc; g++) for (int c = 0; c < nc && !rc; c++) { carquet_column_reader_t* cr = carquet_reader_get_column(o.rd, g, c, &err); if (!cr) { snprintf(msg, sizeof msg, "close returned OK after %s failed, but column [%d,%d] of the file cannot be read (%s); allocation #%ld failed", res.first_bad_call ? res.first_bad_call : "nothing", g, c, err.message, g_fail_at); rc = 1; break; }
                const tcol_t* col = &t->cols[c < t->ncols ? c : 0]; size_t es = col->type == CARQUET_PHYSICAL_BYTE_ARRAY ? sizeof(carquet_byte_array_t) : t_elem_size(col); if (es < 16) es = 16;
                void* vals = malloc(es * 512 + 16); int16_t dl[512];
                while (carquet_column_has_next(cr)) { int64_t n = carquet_column_read_batch(cr, vals, 512, dl, NULL); if (n < 0) { snprintf(msg, sizeof msg, "close returned OK after %s failed, but reading column [%d,%d] of the file fails; allocation #%ld failed", res.first_bad_call ? res.first_bad_call : "nothing", g, c, g_fail_at); rc = 1; break; } if (n == 0) break; }
                free(vals); carquet_column_reader_free(cr); }
            rd_close(&o); } }
    unlink(path); return rc; }

static int sc_read(const table_t* t, const char* file, int mode, int use_batch) { carquet_error_t err = CARQUET_ERROR_INIT; ropen_t o; ARM(); int opened = rd_open(&o, file, mode, 1, 1, &err); int rc = 0;
    if (opened) { int cmp = read_and_compare(o.rd, t, use_batch); DISARM(); if (cmp > 0) { snprintf(msg, sizeof msg, "%s read (%s) reported success with different content; allocation #%ld failed", use_batch == 1 ? "batch" : use_batch == 2 ? "whole-chunk column" : "column", IO_NAME[mode], g_fail_at); rc = 1; } rd_close(&o); }
    else { DISARM(); if (err.code == CARQUET_OK && g_failed) { snprintf(msg, sizeof msg, "open failed with error code OK"); rc = 1; } }
    DISARM(); return rc; }

static int sc_misc(void) { int rc = 0; ARM();
    /* statistics builder */ { carquet_statistics_builder_t* b = carquet_statistics_builder_create(CARQUET_PHYSICAL_INT64, 0); if (b) { int64_t v[5] = {5, -3, 9, 0, 7}; (void)carquet_statistics_add_values(b, v, 5); parquet_statistics_t s; carquet_arena_t a; if (carquet_arena_init(&a) == CARQUET_OK) { if (carquet_statistics_build(b, &a, &s) == CARQUET_OK) { if (s.min_value && s.min_value_len == 8) { int64_t mn; memcpy(&mn, s.min_value, 8); if (mn != -3) { snprintf(msg, sizeof msg, "statistics min wrong after allocation failure"); rc = 1; } } } carquet_arena_destroy(&a); } carquet_statistics_builder_destroy(b); } }
    /* bloom filter */ { carquet_bloom_filter_t* f = carquet_bloom_filter_create(256); if (f) { for (int64_t i = 0; i < 20; i++) carquet_bloom_filter_insert_i64(f, i * 7919); carquet_bloom_filter_t* g = NULL; if (carquet_bloom_filter_read(&g, carquet_bloom_filter_data(f), carquet_bloom_filter_size(f)) == CARQUET_OK && g) { for (int64_t i = 0; i < 20; i++) if (!carquet_bloom_filter_check_i64(g, i * 7919)) { snprintf(msg, sizeof msg, "bloom filter false negative after allocation failure"); rc = 1; } carquet_bloom_filter_destroy(g); } carquet_bloom_filter_destroy(f); } }
    /* byte-array delta encoders + dictionary encoder */ { carquet_byte_array_t a[6]; static const char* w[] = {"alpha", "alphabet", "", "beta", "betamax", "b"}; for (int i = 0; i < 6; i++) { a[i].data = (uint8_t*)w[i]; a[i].length = (int32_t)strlen(w[i]); }
        carquet_buffer_t b1; carquet_buffer_init(&b1); carquet_status_t st = carquet_delta_length_encode(a, 6, &b1); if (st == CARQUET_OK) { carquet_byte_array_t o[6]; size_t used = 0; uint8_t* cp = __real_malloc(b1.size + 1); memcpy(cp, b1.data, b1.size); if (carquet_delta_length_decode(cp, b1.size, o, 6, &used) == CARQUET_OK) { for (int i = 0; i < 6; i++) if (o[i].length != a[i].length || memcmp(o[i].data, a[i].data, (size_t)a[i].length)) { snprintf(msg, sizeof msg, "delta-length encoder reported OK with wrong output"); rc = 1; } } free(cp); } carquet_buffer_destroy(&b1);
        carquet_buffer_t b2; carquet_buffer_init(&b2); (void)carquet_delta_strings_encode(a, 6, &b2); carquet_buffer_destroy(&b2);
        int32_t iv[300]; for (int i = 0; i < 300; i++) iv[i] = (i * 37) % 41; carquet_buffer_t d, x; carquet_buffer_init(&d); carquet_buffer_init(&x); (void)carquet_dictionary_encode_int32(iv, 300, &d, &x); carquet_buffer_destroy(&d); carquet_buffer_destroy(&x); }
    DISARM(); return rc; }

static int run_scenario(const char* sc, const char* file, const char* tdmp) {
    if (!strncmp(sc, "sa_", 3)) { setenv("CARQUET_VERIF_ARENA_BLOCK", "48", 1); sc += 3; }   /* hook: arenas grow 48 bytes at a time, so every arena allocation site meets "the arena cannot grow" */
    if (!strcmp(sc, "schema")) return sc_schema();
    if (!strcmp(sc, "schemaon")) return sc_schema_on();
    if (!strncmp(sc, "write", 5)) { int codec = atoi(sc + 5); return sc_write(T_CODECS[codec % 5], 0); }
    if (!strcmp(sc, "widewrite")) return sc_write(CARQUET_COMPRESSION_UNCOMPRESSED, 1);
    if (!strncmp(sc, "goon", 4)) { int codec = atoi(sc + 4); return sc_write_on(T_CODECS[codec % 5]); }
    if (!strcmp(sc, "misc")) return sc_misc();
    if (!strncmp(sc, "wideread", 8)) { int mode = atoi(sc + 8) % 3; WIDE_VARIANT = (atoi(sc + 8) / 3) % 10; table_t* t = make_table(CARQUET_COMPRESSION_UNCOMPRESSED, 1); char ref[600]; snprintf(ref, sizeof ref, "%s/ref_wide_%d.parquet", TMP, WIDE_VARIANT);
        if (access(ref, F_OK) != 0) { twrite_result_t res; vrng_t r; vrng_seed(&r, 7); if (!tbl_write_path(&r, t, ref, &res) || !res.all_ok) { fprintf(stderr, "driver: cannot prepare wide reference file\n"); exit(2); } }
        return sc_read(t, ref, mode, 0); }
    if (!strncmp(sc, "read", 4) || !strncmp(sc, "batch", 5) || !strncmp(sc, "dict", 4) || !strncmp(sc, "whole", 5)) { int use_batch = sc[0] == 'b' ? 1 : sc[0] == 'w' ? 2 : 0; int mode = atoi(sc + (sc[0] == 'b' || sc[0] == 'w' ? 5 : 4)); table_t* t; char ref[600];
        if (sc[0] == 'd') { __lsan_disable(); t = tbl_load(tdmp); __lsan_enable(); return sc_read(t, file, mode, 0); }
        int codec = T_CODECS[(mode / 3) % 5]; mode %= 3; t = make_table(codec, use_batch == 2 ? 2 : 0); snprintf(ref, sizeof ref, "%s/ref_%d_%d.parquet", TMP, codec, use_batch == 2 ? 2 : 0);
        if (access(ref, F_OK) != 0) { twrite_result_t res; vrng_t r; vrng_seed(&r, 7); if (!tbl_write_path(&r, t, ref, &res) || !res.all_ok) { fprintf(stderr, "driver: cannot prepare reference file\n"); exit(2); } }
        return sc_read(t, ref, mode, use_batch); }
    fprintf(stderr, "unknown scenario %s\n", sc); exit(2);
}

int main(int argc, char** argv) {
    if (argc < 4) return 2; (void)carquet_init();
    if (!strcmp(argv[1], "count")) { TMP = argv[3]; g_fail_at = -1; g_sigs_on = getenv("C19_SIGMAP") != NULL; int rc = run_scenario(argv[2], argc > 4 ? argv[4] : NULL, argc > 5 ? argv[5] : NULL); if (rc) { printf("VIOL fault-free-run-fails:%s | %s\n", argv[2], msg); } if (g_sigs_on) { FILE* sf = fopen(getenv("C19_SIGMAP"), "wb"); if (sf) { fwrite(g_sigs, 8, (size_t)g_nsigs, sf); fclose(sf); } } printf("K %ld SITES %d\n", g_count, g_nsites); return 0; }
    if (!strcmp(argv[1], "run") && argc >= 5) { TMP = argv[4]; g_fail_at = atol(argv[3]); int rc = run_scenario(argv[2], argc > 5 ? argv[5] : NULL, argc > 6 ? argv[6] : NULL);
        if (rc) printf("VIOL alloc-failure:wrong-result-reported-as-success:%s | k=%ld %s\n", argv[2], g_fail_at, msg);
        printf("OUTCOME %s k=%ld failed_injected=%d sites=%d\n", argv[2], g_fail_at, g_failed, g_nsites); return 0; }
    return 2;
}
