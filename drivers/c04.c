/* C04: no input file can make the reader memory-unsafe, hang or leak.
 * usage: c04 <listfile> <seed> <start_index>
 * listfile: one input path per line. For every input the driver prints "BEGIN <i>" / "END <i>"; an abort after a BEGIN
 * identifies the culprit and the runner resumes behind it. A per-input CPU timer turns hangs into "HANG <i>". */
#define _GNU_SOURCE
#include "rdchk.h"
#include <signal.h>
#include <sys/time.h>

static vrng_t R; static volatile long CURI = -1; static const char* CURPATH = "";
static void on_timer(int sig) { (void)sig; char b[64]; int n = snprintf(b, sizeof b, "HANG %ld\n", CURI); if (write(1, b, (size_t)n)) {} _exit(41); }
static void viol(const char* key, const char* fmt, ...) { char d[400]; va_list ap; va_start(ap, fmt); vsnprintf(d, sizeof d, fmt, ap); va_end(ap); v_viol(key, "input=%ld %s", CURI, d);
#ifdef FZ_MODE
    fprintf(stderr, "API-CONTRACT %s %s\n", key, d); abort();   /* make libFuzzer keep the input; the verdict comes from replaying it through the list driver */
#endif
}

static void check_err(const char* api, const carquet_error_t* e) { char key[96];
    if (e->code == CARQUET_OK) { snprintf(key, sizeof key, "api:failure-with-OK-error-code:%s", api); viol(key, ""); }
    if (!memchr(e->message, 0, sizeof e->message)) { snprintf(key, sizeof key, "api:error-message-not-terminated:%s", api); viol(key, ""); } }

static size_t user_elem_size(int type, int32_t tl) { switch (type) { case CARQUET_PHYSICAL_BOOLEAN: return 1; case CARQUET_PHYSICAL_INT32: case CARQUET_PHYSICAL_FLOAT: return 4; case CARQUET_PHYSICAL_INT64: case CARQUET_PHYSICAL_DOUBLE: return 8; case CARQUET_PHYSICAL_INT96: return 12; case CARQUET_PHYSICAL_BYTE_ARRAY: return sizeof(carquet_byte_array_t); case CARQUET_PHYSICAL_FIXED_LEN_BYTE_ARRAY: return tl > 0 && tl <= (1 << 20) ? (size_t)tl : 0; default: return 0; } }
static uint64_t touch_values(int type, size_t es, const void* vals, int64_t n) { uint64_t acc = 0; if (type == CARQUET_PHYSICAL_BYTE_ARRAY) { const carquet_byte_array_t* a = vals; for (int64_t i = 0; i < n; i++) { for (int32_t j = 0; j < a[i].length; j++) acc += a[i].data[j]; } } else { const uint8_t* p = vals; for (size_t i = 0; i < (size_t)n * es; i++) acc += p[i]; } return acc; }

static void exercise(carquet_reader_t* rd, const char* modename) { carquet_error_t err; char key[128]; (void)modename;
    int64_t nrows = carquet_reader_num_rows(rd); int ng = carquet_reader_num_row_groups(rd), nc = carquet_reader_num_columns(rd); (void)nrows; (void)carquet_reader_is_mmap(rd);
    const carquet_schema_t* s = carquet_reader_schema(rd); int ne = s ? carquet_schema_num_elements(s) : 0; int ncs = s ? carquet_schema_num_columns(s) : 0; (void)ncs;
    /* leaf table from the public accessors, as a user would build it */
    int cap = nc > 0 && nc < 4000 ? nc : (nc > 0 ? 4000 : 0); int* ltype = calloc((size_t)cap + 1, sizeof(int)); int32_t* ltl = calloc((size_t)cap + 1, 4); int* lrep = calloc((size_t)cap + 1, sizeof(int)); int16_t* lmaxd = calloc((size_t)cap + 1, 2); int leaf = 0;
    for (int e = 0; e < ne && e < 20000; e++) { const carquet_schema_node_t* n = carquet_schema_get_element(s, e); if (!n) continue; const char* nm = carquet_schema_node_name(n); size_t L = nm ? strlen(nm) : 0; (void)L; (void)carquet_schema_node_logical_type(n); (void)carquet_schema_node_max_def_level(n); (void)carquet_schema_node_max_rep_level(n);
        if (nm && e < 300) (void)carquet_schema_find_column(s, nm);
        if (carquet_schema_node_is_leaf(n) && leaf < cap) { ltype[leaf] = (int)carquet_schema_node_physical_type(n); ltl[leaf] = carquet_schema_node_type_length(n); lrep[leaf] = (int)carquet_schema_node_repetition(n); lmaxd[leaf] = carquet_schema_node_max_def_level(n); leaf++; } }
    if (s) { if (carquet_schema_get_element(s, -1) || carquet_schema_get_element(s, ne)) viol("api:out-of-range-index-not-reported:schema_get_element", ""); }
    /* invalid indices */
    { carquet_row_group_metadata_t m; if (carquet_reader_row_group_metadata(rd, -1, &m) == CARQUET_OK || carquet_reader_row_group_metadata(rd, ng, &m) == CARQUET_OK) viol("api:out-of-range-index-not-reported:row_group_metadata", "ng=%d", ng);
      int bad_idx[4][2] = {{-1, 0}, {ng, 0}, {0, -1}, {0, nc}}; for (int q = 0; q < 4; q++) { memset(&err, 0, sizeof err); carquet_column_reader_t* cr = carquet_reader_get_column(rd, bad_idx[q][0], bad_idx[q][1], &err); if (cr) { viol("api:out-of-range-index-not-reported:get_column", "rg=%d col=%d of %d/%d", bad_idx[q][0], bad_idx[q][1], ng, nc); carquet_column_reader_free(cr); } else check_err("get_column", &err);
          carquet_column_statistics_t cs; if (carquet_reader_column_statistics(rd, bad_idx[q][0], bad_idx[q][1], &cs) == CARQUET_OK) viol("api:out-of-range-index-not-reported:column_statistics", "rg=%d col=%d", bad_idx[q][0], bad_idx[q][1]); (void)carquet_reader_can_zero_copy(rd, bad_idx[q][0], bad_idx[q][1]); } }
    for (int g = 0; g < ng && g < 50; g++) { carquet_row_group_metadata_t m; (void)carquet_reader_row_group_metadata(rd, g, &m); }
    /* column readers */
    for (int g = 0; g < ng && g < 5; g++) for (int c = 0; c < nc && c < 10 && c < cap; c++) { size_t es = user_elem_size(ltype[c], ltl[c]); (void)carquet_reader_can_zero_copy(rd, g, c); if (es == 0) { v_count("columns_skipped_no_valid_user_buffer"); continue; }
        memset(&err, 0, sizeof err); carquet_column_reader_t* cr = carquet_reader_get_column(rd, g, c, &err); if (!cr) { check_err("get_column", &err); v_count("get_column_errors"); continue; }
        int ops = 0; int64_t delivered = 0; while (ops++ < 60 && carquet_column_has_next(cr)) { int op = (int)vrng_below(&R, 8); int64_t k = (int64_t)(vrng_chance(&R, 1, 6) ? vrng_below(&R, 4096) : vrng_below(&R, 40)); int64_t rem = carquet_column_remaining(cr); (void)rem;
            if (op == 7) { int64_t sk = carquet_column_skip(cr, k); if (sk < 0 || sk > k) { viol("api:skip-returns-out-of-range-count", "k=%lld got=%lld", (long long)k, (long long)sk); break; } if (sk == 0 && k > 0) break; delivered += sk; continue; }
            void* vals = v_exact((size_t)k * es); int16_t* defs = (op & 1) ? v_exact((size_t)k * 2) : NULL; int16_t* reps = (op & 2) ? v_exact((size_t)k * 2) : NULL;
            int64_t n = carquet_column_read_batch(cr, vals, k, defs, reps);
            if (n > k) { viol("api:read_batch-returns-more-than-requested", "k=%lld n=%lld", (long long)k, (long long)n); free(vals); free(defs); free(reps); break; }
            if (n > 0) { /* a user reads what was delivered: levels for n rows, values for the rows whose definition level is the column's maximum */ int64_t nn = n;
                if (lmaxd[c] > 0) { nn = 0; if (defs) for (int64_t q = 0; q < n; q++) if (defs[q] == lmaxd[c]) nn++; }   /* without levels a user cannot know which values exist */
                (void)touch_values(ltype[c], es, vals, nn); if (reps) for (int64_t q = 0; q < n; q++) (void)reps[q]; delivered += n; v_count("rows_delivered_from_mutants"); }
            free(vals); free(defs); free(reps); if (n <= 0) { if (n < 0) v_count("read_errors"); break; } }
        carquet_column_reader_free(cr); v_count("column_readers_exercised"); }
    /* lookups of names that are not in the schema, of lengths that put the formatted message at and beyond every edge of the error
     * struct (message[256] inside a 304-byte struct): the struct lives in an exact-size heap block, so a byte written past it is seen */
    if (vrng_chance(&R, 1, 4)) { static const int LEN[] = {1, 237, 238, 239, 281, 282, 283, 285, 700, 5000}; carquet_error_t* e2 = v_exact(sizeof *e2);
        for (int q = 0; q < 10; q++) { char* nm = malloc((size_t)LEN[q] + 1); memset(nm, 'q', (size_t)LEN[q]); nm[LEN[q]] = 0; const char* names[1] = {nm}; carquet_batch_reader_config_t cfg; carquet_batch_reader_config_init(&cfg); cfg.column_names = names; cfg.num_column_names = 1; memset(e2, 0, sizeof *e2);
            carquet_batch_reader_t* br = carquet_batch_reader_create(rd, &cfg, e2); v_count("unknown_long_name_lookups"); if (br) { if (s && carquet_schema_find_column(s, nm) < 0) viol("api:batch-reader-created-for-unknown-column-name", "len=%d", LEN[q]); carquet_batch_reader_free(br); } else check_err("batch_reader_create(by unknown name)", e2);
            free(nm); }
        free(e2); }
    /* batch reader */
    for (int variant = 0; variant < 3; variant++) { carquet_batch_reader_config_t cfg; carquet_batch_reader_config_init(&cfg); static const int bss[] = {1, 64, 65536}; cfg.batch_size = bss[variant]; cfg.num_threads = 1; int32_t proj[1] = {0}; if (variant == 1 && nc > 0) { cfg.column_indices = proj; cfg.num_columns = 1; }
        int usable = 1; for (int c = 0; c < nc && c < cap; c++) if (user_elem_size(ltype[c], ltl[c]) == 0) usable = 0; if (nc > cap) usable = 0; if (!usable && variant != 1) continue; if (variant == 1 && (nc == 0 || user_elem_size(ltype[0], ltl[0]) == 0)) continue;
        memset(&err, 0, sizeof err); carquet_batch_reader_t* br = carquet_batch_reader_create(rd, &cfg, &err); if (!br) { check_err("batch_reader_create", &err); continue; }
        for (int it = 0; it < 300; it++) { carquet_row_batch_t* b = NULL; carquet_status_t st = carquet_batch_reader_next(br, &b); if (st != CARQUET_OK || !b) { if (st == CARQUET_OK && !b) viol("api:batch-next-OK-without-batch", "");
                /* a caller may well ask again after an error or after the end: the answer must be another status, never a crash or a batch out of nowhere */
                for (int again = 0; again < 2; again++) { carquet_row_batch_t* b2 = NULL; carquet_status_t st2 = carquet_batch_reader_next(br, &b2); v_count("batch_next_calls_after_error_or_end"); if (st2 == CARQUET_OK && b2) { if (st == CARQUET_ERROR_END_OF_DATA) viol("api:batch-delivered-after-END_OF_DATA", "rows=%lld", (long long)carquet_row_batch_num_rows(b2)); carquet_row_batch_free(b2); } else if (b2) { viol("api:batch-returned-with-error-status", "status=%d", st2); } }
                break; }
            int64_t nr = carquet_row_batch_num_rows(b); int bc = carquet_row_batch_num_columns(b); (void)nr;
            for (int c = 0; c < bc; c++) { const void* d = NULL; const uint8_t* bm = NULL; int64_t nv = 0; if (carquet_row_batch_column(b, c, &d, &bm, &nv) != CARQUET_OK) continue; int fc = variant == 1 ? 0 : c; if (fc >= cap || nv < 0 || nv > 65536) { if (nv < 0 || nv > 65536) viol("api:batch-column-count-out-of-range", "nv=%lld", (long long)nv); continue; }
                int64_t nulls = 0; if (bm) for (int64_t q = 0; q < nv; q++) nulls += (bm[q / 8] >> (q % 8)) & 1; if (d && nv - nulls > 0) (void)touch_values(ltype[fc], user_elem_size(ltype[fc], ltl[fc]), d, nv - nulls); }
            { const void* d; const uint8_t* bm; int64_t nv; if (carquet_row_batch_column(b, -1, &d, &bm, &nv) == CARQUET_OK || carquet_row_batch_column(b, bc, &d, &bm, &nv) == CARQUET_OK) viol("api:out-of-range-index-not-reported:row_batch_column", ""); }
            carquet_row_batch_free(b); v_count("batches_from_mutants"); }
        carquet_batch_reader_free(br); }
    /* statistics and pruning with probes of the schema type's size */
    for (int g = 0; g < ng && g < 4; g++) for (int c = 0; c < nc && c < 8 && c < cap; c++) { carquet_column_statistics_t cs; memset(&cs, 0, sizeof cs); if (carquet_reader_column_statistics(rd, g, c, &cs) == CARQUET_OK && cs.has_min_max) { uint64_t acc = 0; for (int32_t q = 0; q < cs.min_value_size; q++) acc += ((const uint8_t*)cs.min_value)[q]; for (int32_t q = 0; q < cs.max_value_size; q++) acc += ((const uint8_t*)cs.max_value)[q]; (void)acc; v_count("statistics_read"); }
        size_t ps = ltype[c] == CARQUET_PHYSICAL_BYTE_ARRAY ? 1 + vrng_below(&R, 9) : user_elem_size(ltype[c], ltl[c]); if (ps == 0 || ps > 4096) continue; uint8_t* probe = v_exact(ps); vrng_bytes(&R, probe, ps);
        for (int op = 0; op < 6; op++) { bool mm = true; (void)carquet_reader_row_group_matches(rd, g, c, (carquet_compare_op_t)op, probe, (int32_t)ps, &mm); }
        if (g == 0) { int m = 1 + (int)vrng_below(&R, 5); int32_t* out = v_exact((size_t)m * 4); int32_t got = carquet_reader_filter_row_groups(rd, c, (carquet_compare_op_t)vrng_below(&R, 6), probe, (int32_t)ps, out, m); if (got > m) viol("api:filter_row_groups-exceeds-max_indices", "got=%d max=%d", got, m); for (int32_t q = 0; q < got && q < m; q++) if (out[q] < 0 || out[q] >= ng) { viol("api:filter_row_groups-returns-invalid-index", "idx=%d ng=%d", out[q], ng); break; } free(out); }
        free(probe); }
    free(ltype); free(ltl); free(lrep); free(lmaxd); (void)key;
}

int main(int argc, char** argv) {
    if (argc < 4) return 2; (void)carquet_init(); uint64_t seed = strtoull(argv[2], 0, 10); long start = atol(argv[3]);
    FILE* lf = fopen(argv[1], "r"); if (!lf) return 2; char line[1024]; long idx = -1; signal(SIGVTALRM, on_timer);
    while (fgets(line, sizeof line, lf)) { idx++; size_t L = strlen(line); while (L && (line[L - 1] == '\n' || line[L - 1] == '\r')) line[--L] = 0; if (idx < start || !L) continue;
        CURI = idx; CURPATH = line; printf("BEGIN %ld\n", idx); fflush(stdout);
        size_t fn = 0; uint8_t* fb = rd_slurp(line, &fn);
        /* the bound is proportional to the input: 20 CPU-seconds plus 15 per MiB (an API program makes a few hundred calls, each of which may look at the whole file) */
        struct itimerval tv = {{0, 0}, {20 + (long)(fn >> 20) * 15, 0}}; setitimer(ITIMER_VIRTUAL, &tv, NULL); v_case(fb ? v_hash(fb, fn, 7) : 0);
        vrng_seed(&R, seed * 31 + (fb ? v_hash(fb, fn, 7) : (uint64_t)idx));   /* the API program is a function of (seed, file content): the libFuzzer target derives the same program */
        for (int mode = 0; mode < 3; mode++) { carquet_error_t err; memset(&err, 0, sizeof err); carquet_reader_options_t ro; carquet_reader_options_init(&ro); ro.use_mmap = mode == IO_MMAP; ro.verify_checksums = (idx + mode) % 2 == 0; carquet_reader_t* rd;
            if (mode == IO_BUFFER) rd = fb ? carquet_reader_open_buffer(fb, fn, &ro, &err) : NULL; else rd = carquet_reader_open(line, &ro, &err);
            if (!rd) { if (fb || mode != IO_BUFFER) check_err("open", &err); v_count("open_rejected"); continue; }
            v_count("open_succeeded"); exercise(rd, IO_NAME[mode]); carquet_reader_close(rd); }
        free(fb); struct itimerval off = {{0, 0}, {0, 0}}; setitimer(ITIMER_VIRTUAL, &off, NULL);
        printf("END %ld\n", idx); fflush(stdout); if (idx % 500 == 499 && __lsan_do_recoverable_leak_check()) viol("lsan:leak-after-close", "recoverable leak check fired around input %ld", idx); }
    fclose(lf); if (__lsan_do_recoverable_leak_check()) viol("lsan:leak-after-close", "leak check at end of shard"); v_finish(); return 0;
}
