/* Reference Snappy / LZ4 block decoders and grammar-driven stream builders, written from the
 * format documents (snappy format_description.txt, lz4_Block_format.md). No carquet code. */
#ifndef REF_CODECS_H
#define REF_CODECS_H
#include "vdrv.h"

typedef struct { uint8_t* p; size_t n, cap; } vbuf_t;
static inline void vb_init(vbuf_t* b) { b->p = NULL; b->n = b->cap = 0; }
static inline void vb_reserve(vbuf_t* b, size_t extra) {
    if (b->n + extra > b->cap) { size_t nc = b->cap ? b->cap * 2 : 256; while (nc < b->n + extra) nc *= 2; b->p = (uint8_t*)realloc(b->p, nc); if (!b->p) exit(2); b->cap = nc; }
}
static inline void vb_put(vbuf_t* b, uint8_t x) { vb_reserve(b, 1); b->p[b->n++] = x; }
static inline void vb_append(vbuf_t* b, const void* s, size_t n) { vb_reserve(b, n); if (n) memcpy(b->p + b->n, s, n); b->n += n; }
static inline void vb_free(vbuf_t* b) { free(b->p); vb_init(b); }

/* ---- strict Snappy raw block decoder. returns 0 ok, <0 error class ------------------------- */
enum { RS_OK = 0, RS_BAD_PREAMBLE = -1, RS_TRUNCATED = -2, RS_OFFSET_ZERO = -3, RS_OFFSET_BEYOND = -4, RS_LEN_MISMATCH = -5, RS_TRAILING = -6 };
static int ref_snappy_decode(const uint8_t* s, size_t n, vbuf_t* out) {
    size_t i = 0; uint64_t ulen = 0; int shift = 0; int ok = 0;
    while (i < n && shift <= 28) { uint8_t b = s[i++]; ulen |= (uint64_t)(b & 0x7F) << shift; if (!(b & 0x80)) { ok = 1; break; } shift += 7; }
    if (!ok || ulen > 0xFFFFFFFFULL) return RS_BAD_PREAMBLE;
    out->n = 0;
    while (i < n) {
        if (out->n == ulen) return RS_TRAILING;            /* complete payload followed by more bytes: not classified */
        uint8_t tag = s[i++];
        if ((tag & 3) == 0) {
            size_t len = (size_t)(tag >> 2) + 1;
            if (len > 60) { size_t nb = len - 60; if (i + nb > n) return RS_TRUNCATED; size_t v = 0; for (size_t k = 0; k < nb; k++) v |= (size_t)s[i + k] << (8 * k); i += nb; len = v + 1; }
            if (len > n - i) return RS_TRUNCATED;
            if (out->n + len > ulen) return RS_LEN_MISMATCH;
            vb_append(out, s + i, len); i += len;
        } else {
            size_t len, off;
            if ((tag & 3) == 1) { if (i + 1 > n) return RS_TRUNCATED; len = 4 + ((tag >> 2) & 7); off = ((size_t)(tag >> 5) << 8) | s[i]; i += 1; }
            else if ((tag & 3) == 2) { if (i + 2 > n) return RS_TRUNCATED; len = 1 + (tag >> 2); off = s[i] | ((size_t)s[i + 1] << 8); i += 2; }
            else { if (i + 4 > n) return RS_TRUNCATED; len = 1 + (tag >> 2); off = s[i] | ((size_t)s[i + 1] << 8) | ((size_t)s[i + 2] << 16) | ((size_t)s[i + 3] << 24); i += 4; }
            if (off == 0) return RS_OFFSET_ZERO;
            if (off > out->n) return RS_OFFSET_BEYOND;
            if (out->n + len > ulen) return RS_LEN_MISMATCH;
            vb_reserve(out, len);
            for (size_t k = 0; k < len; k++) { out->p[out->n] = out->p[out->n - off]; out->n++; }
        }
    }
    if (out->n != ulen) return RS_LEN_MISMATCH;
    return RS_OK;
}

/* ---- strict LZ4 block decoder. Also reports conformance to the end-of-block rules -------- */
enum { RL_OK = 0, RL_TRUNCATED = -2, RL_OFFSET_ZERO = -3, RL_OFFSET_BEYOND = -4, RL_EMPTY = -7 };
typedef struct { int ends_with_literals; size_t last_literals; size_t last_match_start; int had_match; size_t sequences; } ref_lz4_info_t;
static int ref_lz4_decode(const uint8_t* s, size_t n, vbuf_t* out, ref_lz4_info_t* info) {
    size_t i = 0; out->n = 0; memset(info, 0, sizeof *info);
    if (n == 0) return RL_EMPTY;
    for (;;) {
        if (i >= n) return RL_TRUNCATED;                 /* a sequence must start with a token */
        uint8_t tok = s[i++]; info->sequences++;
        size_t ll = tok >> 4;
        if (ll == 15) { uint8_t b; do { if (i >= n) return RL_TRUNCATED; b = s[i++]; ll += b; } while (b == 255); }
        if (ll > n - i) return RL_TRUNCATED;
        vb_append(out, s + i, ll); i += ll;
        if (i == n) { info->ends_with_literals = 1; info->last_literals = ll; return RL_OK; }
        if (i + 2 > n) return RL_TRUNCATED;
        size_t off = s[i] | ((size_t)s[i + 1] << 8); i += 2;
        if (off == 0) return RL_OFFSET_ZERO;
        if (off > out->n) return RL_OFFSET_BEYOND;
        size_t ml = (tok & 15);
        if (ml == 15) { uint8_t b; do { if (i >= n) return RL_TRUNCATED; b = s[i++]; ml += b; } while (b == 255); }
        ml += 4;
        info->had_match = 1; info->last_match_start = out->n;
        vb_reserve(out, ml);
        for (size_t k = 0; k < ml; k++) { out->p[out->n] = out->p[out->n - off]; out->n++; }
        if (i == n) { info->ends_with_literals = 0; info->last_literals = 0; return RL_OK; }   /* ends on a match: parsable, non-conforming */
    }
}
/* end-of-block rules for a compressor's output (lz4_Block_format.md "End of block restrictions") */
static const char* ref_lz4_end_rules(const ref_lz4_info_t* in, size_t total) {
    if (!in->ends_with_literals) return "last-sequence-has-match";
    if (in->had_match) {
        if (in->last_literals < 5) return "last-5-bytes-not-literals";
        if (in->last_match_start + 12 > total) return "last-match-starts-within-12-bytes-of-end";
    }
    return NULL;
}

/* ---- grammar-driven Snappy stream builder. Produces stream + expected output ---------------- */
typedef struct { uint64_t lit_forms[6], copy1, copy2, copy4, overlap, nonminimal, offset1, big_literal; } snappy_gen_stats_t;
static void gen_put_literal_hdr(vbuf_t* st, size_t len, int form) {
    /* form 0: in-tag (len<=60), 1..4: that many extra bytes */
    if (form == 0) { vb_put(st, (uint8_t)((len - 1) << 2)); return; }
    vb_put(st, (uint8_t)((59 + form) << 2));
    for (int k = 0; k < form; k++) vb_put(st, (uint8_t)(((len - 1) >> (8 * k)) & 0xFF));
}
static void ref_snappy_build(vrng_t* r, size_t target, vbuf_t* st, vbuf_t* out, snappy_gen_stats_t* gs, int allow_nonminimal) {
    vbuf_t body; vb_init(&body); out->n = 0; st->n = 0;
    while (out->n < target) {
        size_t remain = target - out->n;
        int kind = out->n == 0 ? 0 : (int)vrng_below(r, 4);
        if (kind == 0) {
            size_t len; int c = (int)vrng_below(r, 10);
            if (c < 5) len = 1 + vrng_below(r, 60); else if (c < 7) len = 55 + vrng_below(r, 12); else if (c < 9) len = 250 + vrng_below(r, 12); else len = 1 + vrng_below(r, 70000);
            if (len > remain) len = remain;
            int minform = len <= 60 ? 0 : len <= 256 ? 1 : len <= 65536 ? 2 : len <= 16777216 ? 3 : 4;
            int form = minform;
            if (allow_nonminimal && vrng_chance(r, 1, 5)) { form = minform + 1 + (int)vrng_below(r, 4 - minform > 0 ? 4 - minform : 1); if (form > 4) form = 4; if (form < minform) form = minform; if (form != minform) gs->nonminimal++; }
            gen_put_literal_hdr(&body, len, form); gs->lit_forms[form]++;
            if (len > 65536) gs->big_literal++;
            vb_reserve(out, len);
            int law = (int)vrng_below(r, 3);
            for (size_t k = 0; k < len; k++) out->p[out->n + k] = law == 0 ? (uint8_t)vrng_u64(r) : law == 1 ? (uint8_t)('a' + (k % 7)) : 0;
            vb_append(&body, out->p + out->n, len); out->n += len;
        } else {
            size_t len, off;
            if (kind == 1) { len = 4 + vrng_below(r, 8); size_t mo = out->n < 2047 ? out->n : 2047; off = 1 + vrng_below(r, mo); }
            else if (kind == 2) { len = 1 + vrng_below(r, 64); size_t mo = out->n < 65535 ? out->n : 65535; off = 1 + vrng_below(r, mo); }
            else { len = 1 + vrng_below(r, 64); off = 1 + vrng_below(r, out->n); }
            if (vrng_chance(r, 1, 6)) off = 1; if (vrng_chance(r, 1, 8)) off = out->n;
            if (kind == 1 && off > 2047) off = 2047; if (kind == 2 && off > 65535) off = 65535;
            if (len > remain) { if (kind == 1) { if (remain < 4) continue; len = remain > 11 ? 11 : remain; } else len = remain > 64 ? 64 : remain; }
            if (kind == 1) { vb_put(&body, (uint8_t)(((off >> 8) << 5) | ((len - 4) << 2) | 1)); vb_put(&body, (uint8_t)(off & 0xFF)); gs->copy1++; }
            else if (kind == 2) { vb_put(&body, (uint8_t)(((len - 1) << 2) | 2)); vb_put(&body, (uint8_t)(off & 0xFF)); vb_put(&body, (uint8_t)(off >> 8)); gs->copy2++; }
            else { vb_put(&body, (uint8_t)(((len - 1) << 2) | 3)); for (int k = 0; k < 4; k++) vb_put(&body, (uint8_t)((off >> (8 * k)) & 0xFF)); gs->copy4++; }
            if (off < len) gs->overlap++; if (off == 1) gs->offset1++;
            vb_reserve(out, len);
            for (size_t k = 0; k < len; k++) { out->p[out->n] = out->p[out->n - off]; out->n++; }
        }
    }
    /* preamble */
    { uint32_t v = (uint32_t)out->n; while (v >= 0x80) { vb_put(st, (uint8_t)(v | 0x80)); v >>= 7; } vb_put(st, (uint8_t)v); }
    vb_append(st, body.p, body.n); vb_free(&body);
}

/* ---- grammar-driven LZ4 block builder (conforming to the end-of-block rules) ---------------- */
typedef struct { uint64_t lit_ext, lit_ext_255, match_ext, match_ext_255, overlap, offset1, offset_max, zero_lit_seq, literal_only, end_min_margin; } lz4_gen_stats_t;
static void gen_lz4_len(vbuf_t* st, size_t v) { /* v = value beyond 15 */ while (v >= 255) { vb_put(st, 255); v -= 255; } vb_put(st, (uint8_t)v); }
static void ref_lz4_build(vrng_t* r, size_t target, vbuf_t* st, vbuf_t* out, lz4_gen_stats_t* gs) {
    st->n = 0; out->n = 0;
    size_t final_lits = 5 + vrng_below(r, 16);
    if (target < 13 || vrng_chance(r, 1, 12)) final_lits = target;   /* literal-only block */
    if (final_lits > target) final_lits = target;
    size_t body = target - final_lits; size_t last_ml = 0; int any = 0;
    while (out->n < body) {
        size_t remain = body - out->n;
        size_t ll = out->n == 0 ? 1 + vrng_below(r, 40) : (vrng_chance(r, 1, 3) ? 0 : vrng_chance(r, 1, 10) ? 14 + vrng_below(r, 600) : vrng_below(r, 30));
        if (vrng_chance(r, 1, 30)) ll = 15 + 255 * vrng_below(r, 3);
        size_t ml = 4 + (vrng_chance(r, 1, 8) ? 14 + vrng_below(r, 800) : vrng_below(r, 30));
        if (vrng_chance(r, 1, 30)) ml = 4 + 15 + 255 * vrng_below(r, 3);
        if (ll + 4 > remain) break;                                  /* no room for a match: rest goes to final literals */
        if (ll + ml > remain) ml = remain - ll;
        uint8_t tok = (uint8_t)((ll >= 15 ? 15 : ll) << 4 | (ml - 4 >= 15 ? 15 : ml - 4));
        vb_put(st, tok);
        if (ll >= 15) { gen_lz4_len(st, ll - 15); gs->lit_ext++; if ((ll - 15) % 255 == 0) gs->lit_ext_255++; }
        if (ll == 0) gs->zero_lit_seq++;
        vb_reserve(out, ll);
        int law = (int)vrng_below(r, 3);
        for (size_t k = 0; k < ll; k++) out->p[out->n + k] = law == 0 ? (uint8_t)vrng_u64(r) : law == 1 ? (uint8_t)('A' + (k % 5)) : 0xFF;
        vb_append(st, out->p + out->n, ll); out->n += ll;
        size_t mo = out->n < 65535 ? out->n : 65535; size_t off = 1 + vrng_below(r, mo);
        if (vrng_chance(r, 1, 6)) off = 1; if (vrng_chance(r, 1, 8)) off = mo; if (vrng_chance(r, 1, 8)) off = 1 + vrng_below(r, 8 < mo ? 8 : mo);
        vb_put(st, (uint8_t)(off & 0xFF)); vb_put(st, (uint8_t)(off >> 8));
        if (ml - 4 >= 15) { gen_lz4_len(st, ml - 4 - 15); gs->match_ext++; if ((ml - 4 - 15) % 255 == 0) gs->match_ext_255++; }
        if (off < ml) gs->overlap++; if (off == 1) gs->offset1++; if (off == 65535) gs->offset_max++;
        vb_reserve(out, ml);
        for (size_t k = 0; k < ml; k++) { out->p[out->n] = out->p[out->n - off]; out->n++; }
        last_ml = ml; any = 1;
    }
    /* final literal-only sequence; enforce "last match starts >= 12 bytes before the end" */
    size_t fl = target - out->n;
    if (any && last_ml + fl < 12) { size_t add = 12 - (last_ml + fl); fl += add; target += add; }
    if (any && last_ml + fl == 12) gs->end_min_margin++;
    if (!any) gs->literal_only++;
    vb_put(st, (uint8_t)((fl >= 15 ? 15 : fl) << 4));
    if (fl >= 15) gen_lz4_len(st, fl - 15);
    vb_reserve(out, fl);
    for (size_t k = 0; k < fl; k++) out->p[out->n + k] = (uint8_t)vrng_u64(r);
    vb_append(st, out->p + out->n, fl); out->n += fl;
}
#endif
