/* C14: page checksums are IEEE CRC-32 and page damage is always detected.
 * usage: c14 crc <seed> <scale>
 *        c14 damage <seed> <stride> <parquet> <ranges.txt> <tmpdir>
 * ranges.txt: one line per data page: rg col page body_off body_len first_row nrows */
#include "rdchk.h"
#include <zlib.h>
#include <sys/mman.h>
uint32_t carquet_crc32(const uint8_t*, size_t);
uint32_t carquet_crc32_update(uint32_t, const uint8_t*, size_t);
static vrng_t R;

static void crc_section(int scale) {
    size_t maxlen = scale >= 2 ? 600 : 300;
    for (size_t len = 0; len <= maxlen; len++) for (size_t al = 0; al < 16; al++) for (int law = 0; law < 3; law++) {
        uint8_t* blk = v_exact(len + al); uint8_t* p = blk + al; if (law == 0) vrng_bytes(&R, p, len); else memset(p, law == 1 ? 0 : 0xFF, len);
        uint32_t a = carquet_crc32(p, len), b = (uint32_t)crc32(0L, p, (uInt)len); v_case(len >= 2 ? v_hash(p, len, al + (uint64_t)law * 17) : 0);
        if (a != b) { char key[64]; snprintf(key, sizeof key, "crc32:differs-from-zlib:%s", len >= 8 ? "len>=8" : "len<8"); v_viol(key, "len=%zu align=%zu law=%d got=%08x want=%08x", len, al, law, a, b); }
        free(blk); }
    /* incremental composition at every split point */
    for (size_t len = 0; len <= (scale >= 2 ? 200 : 80); len++) { uint8_t* p = v_exact(len); vrng_bytes(&R, p, len); uint32_t whole = (uint32_t)crc32(0L, p, (uInt)len);
        for (size_t cut = 0; cut <= len; cut++) { uint8_t* a = v_exact_copy(p, cut); uint8_t* b = v_exact_copy(p + cut, len - cut); uint32_t c1 = carquet_crc32(a, cut); uint32_t c2 = carquet_crc32_update(c1, b, len - cut); v_case(v_hash(&cut, sizeof cut, len * 1000003));
            if (c2 != whole) v_viol("crc32:incremental-update-does-not-compose", "len=%zu cut=%zu got=%08x want=%08x", len, cut, c2, whole); v_count("incremental_splits"); free(a); free(b); }
        /* three-way */
        if (len >= 2) { size_t c1 = vrng_below(&R, len), c2 = c1 + vrng_below(&R, len - c1); uint32_t x = carquet_crc32_update(0, p, c1); x = carquet_crc32_update(x, p + c1, c2 - c1); x = carquet_crc32_update(x, p + c2, len - c2); if (x != whole) v_viol("crc32:incremental-update-does-not-compose", "three-way len=%zu", len); }
        free(p); }
    for (int i = 0; i < (scale >= 2 ? 600 : 80); i++) { size_t len = vrng_below(&R, 1u << 20); uint8_t* p = v_exact(len); vrng_bytes(&R, p, len); uint32_t a = carquet_crc32(p, len), b = (uint32_t)crc32(0L, p, (uInt)len); v_case(v_hash(p, len < 128 ? len : 128, len)); if (a != b) v_viol("crc32:differs-from-zlib:large", "len=%zu", len); v_count("crc_large_inputs"); free(p); }
    if (scale >= 2) { /* lengths that do not fit 32 bits: 4 GiB + 9 bytes in one call and split across update() calls (anonymous mapping, sparse non-zero content) */
        size_t big = ((size_t)1 << 32) + 9; uint8_t* m = mmap(NULL, big, PROT_READ | PROT_WRITE, MAP_PRIVATE | MAP_ANONYMOUS | MAP_NORESERVE, -1, 0);
        if (m != MAP_FAILED) { for (size_t q = 0; q < big; q += 4099) m[q] = (uint8_t)(q * 31 + 7); memcpy(m + big - 9, "123456789", 9);
            uLong z = crc32(0L, Z_NULL, 0); for (size_t q = 0; q < big; q += (size_t)1 << 30) { size_t chunk = big - q < ((size_t)1 << 30) ? big - q : (size_t)1 << 30; z = crc32(z, m + q, (uInt)chunk); }
            uint32_t a = carquet_crc32(m, big); v_case(v_hash("4GiB+9", 6, 1)); v_count("crc_inputs_of_4GiB_and_more"); if (a != (uint32_t)z) v_viol("crc32:differs-from-zlib:len>=4GiB", "len=%zu got=%08x want=%08x", big, a, (uint32_t)z);
            uint32_t c1 = carquet_crc32(m, 100); uint32_t c2 = carquet_crc32_update(c1, m + 100, big - 100); if (c2 != (uint32_t)z) v_viol("crc32:update-composition:len>=4GiB", "crc(100) then update(%zu): got=%08x want=%08x", big - 100, c2, (uint32_t)z);
            munmap(m, big); } else v_count("crc_4GiB_mapping_unavailable"); }
    v_sample("crc: every length 0..%zu x 16 alignments x {random,zeros,ones} against zlib crc32(); crc(a||b) = update(crc(a), b) at every split of strings up to %d bytes; random inputs to 1 MiB", maxlen, scale >= 2 ? 200 : 80);
}

typedef struct { int rg, col, page; long off, len; long first_row, nrows; } prange_t;

/* read the whole file through the given open reader; returns 1 when some call reported an error before the data of the damaged chunk was exhausted */
static void check_mutant(const char* what, ropen_t* o, const prange_t* pr, int verify, const char* bn, long bit) {
    char key[160]; carquet_error_t err = CARQUET_ERROR_INIT;
    const carquet_schema_t* s = carquet_reader_schema(o->rd); int nc = carquet_reader_num_columns(o->rd);
    /* column reader on the damaged chunk */
    carquet_column_reader_t* cr = carquet_reader_get_column(o->rd, pr->rg, pr->col, &err);
    if (cr) { const carquet_schema_node_t* nd = NULL; int leaf = -1; for (int e = 0; e < carquet_schema_num_elements(s); e++) { const carquet_schema_node_t* n = carquet_schema_get_element(s, e); if (n && carquet_schema_node_is_leaf(n) && ++leaf == pr->col) { nd = n; break; } }
        int type = nd ? (int)carquet_schema_node_physical_type(nd) : 1; int32_t tl = nd ? carquet_schema_node_type_length(nd) : 0; size_t aes = type == CARQUET_PHYSICAL_BYTE_ARRAY ? sizeof(carquet_byte_array_t) : type == 0 ? 1 : type == 1 || type == 4 ? 4 : type == 3 ? 12 : type == 7 ? (size_t)tl : 8;
        int64_t delivered = 0; int saw_error = 0; int64_t step = (bit % 2) ? 7 : 1000000; int guard = 0;
        /* every 4th mutant: a skip that ends inside the damaged page comes first; rows handed out afterwards are counted from the skip position */
        if (verify && bit % 4 == 3) { int64_t want = (int64_t)pr->first_row + 1 + (bit % 3); int64_t sk = carquet_column_skip(cr, want); v_count("mutants_read_after_a_skip_into_the_damaged_page"); if (sk < 0) saw_error = 1; else delivered = sk; }
        while (carquet_column_has_next(cr) && guard++ < 100000) { int64_t rem = carquet_column_remaining(cr); int64_t k = step < rem ? step : rem; void* vals = v_exact((size_t)k * aes); int16_t* defs = v_exact((size_t)k * 2);
            int64_t n = carquet_column_read_batch(cr, vals, k, defs, NULL); if (n > 0 && type == CARQUET_PHYSICAL_BYTE_ARRAY && !verify) { /* touch what was handed back */ int64_t nn = 0; for (int64_t q = 0; q < n; q++) if (defs[q] > 0 || carquet_schema_node_repetition(nd) == CARQUET_REPETITION_REQUIRED) nn++; (void)nn; }
            free(vals); free(defs); if (n < 0) { saw_error = 1; break; } if (n == 0) break; delivered += n; }
        if (verify) { if (!saw_error) { snprintf(key, sizeof key, "damage-undetected:column-reader:%s:page%s", what, pr->page == 0 ? "0" : ">=1"); v_viol(key, "%s rg=%d col=%d page=%d bit=%ld: all %lld rows delivered without an error", bn, pr->rg, pr->col, pr->page, bit, (long long)delivered); }
            else if (delivered > pr->first_row) { snprintf(key, sizeof key, "damaged-page-data-delivered:column-reader:%s", what); v_viol(key, "%s rg=%d col=%d page=%d bit=%ld: %lld rows delivered, the damaged page starts at row %ld", bn, pr->rg, pr->col, pr->page, bit, (long long)delivered, pr->first_row); }
            v_count("column_reader_mutants"); }
        carquet_column_reader_free(cr); }
    else if (verify) v_count("rejected_at_get_column");
    /* batch reader over the whole file */
    (void)nc; carquet_batch_reader_config_t cfg; carquet_batch_reader_config_init(&cfg); cfg.batch_size = (bit % 3 == 0) ? 64 : 65536; cfg.num_threads = 1; carquet_batch_reader_t* br = carquet_batch_reader_create(o->rd, &cfg, &err);
    if (br) { int saw_error = 0; int guard = 0; for (;;) { carquet_row_batch_t* b = NULL; carquet_status_t st = carquet_batch_reader_next(br, &b); if (st == CARQUET_ERROR_END_OF_DATA) break; if (st != CARQUET_OK || !b) { saw_error = 1; break; }
            if (!verify) { for (int c = 0; c < carquet_row_batch_num_columns(b); c++) { const void* d; const uint8_t* bm; int64_t nv; (void)carquet_row_batch_column(b, c, &d, &bm, &nv); } }
            carquet_row_batch_free(b); if (++guard > 1000000) break; }
        if (verify) { if (!saw_error) { snprintf(key, sizeof key, "damage-undetected:batch-reader:%s:%s", what, pr->page == 0 && pr->col == 0 ? "first-page-of-first-column" : pr->page == 0 ? "first-page-of-later-column" : "later-page"); v_viol(key, "%s rg=%d col=%d page=%d bit=%ld: every next() returned OK until END_OF_DATA", bn, pr->rg, pr->col, pr->page, bit); } v_count("batch_reader_mutants"); }
        carquet_batch_reader_free(br); }
}

static void damage_section(const char* path, const char* ranges, long stride, const char* tmpdir) {
    size_t n = 0; uint8_t* orig = rd_slurp(path, &n); if (!orig) exit(2); const char* bn = strrchr(path, '/') ? strrchr(path, '/') + 1 : path;
    FILE* rf = fopen(ranges, "r"); if (!rf) exit(2); prange_t pr[512]; int np = 0; while (np < 512 && fscanf(rf, "%d %d %d %ld %ld %ld %ld", &pr[np].rg, &pr[np].col, &pr[np].page, &pr[np].off, &pr[np].len, &pr[np].first_row, &pr[np].nrows) == 7) np++; fclose(rf);
    char tmp[600]; snprintf(tmp, sizeof tmp, "%s/m.parquet", tmpdir);
    /* the undamaged file must read without any checksum complaint */
    { carquet_error_t err = CARQUET_ERROR_INIT; ropen_t o; for (int mode = 0; mode < 3; mode++) { if (!rd_open(&o, path, mode, 1, 1, &err)) { v_viol("undamaged-file-rejected", "%s mode=%s %s", bn, IO_NAME[mode], err.message); continue; }
            for (int i = 0; i < np; i++) { carquet_column_reader_t* cr = carquet_reader_get_column(o.rd, pr[i].rg, pr[i].col, &err); if (!cr) continue; int64_t rem = carquet_column_remaining(cr); if (rem > 0) { void* v = v_exact((size_t)rem * 64); int16_t* d = v_exact((size_t)rem * 2); int64_t got = carquet_column_read_batch(cr, v, rem, d, NULL); if (got != rem) v_viol("undamaged-file-reports-error", "%s mode=%s rg=%d col=%d got=%lld of %lld", bn, IO_NAME[mode], pr[i].rg, pr[i].col, (long long)got, (long long)rem); free(v); free(d); } carquet_column_reader_free(cr); }
            rd_close(&o); v_count("undamaged_reads"); } }
    long counter = 0;
    for (int i = 0; i < np; i++) { if (pr[i].len <= 0) continue; v_count("pages_targeted"); if (pr[i].page >= 1) v_count("pages_targeted_index_ge_1");
        for (long bit = 0; bit < pr[i].len * 8; bit++) { counter++; int kind = 0; /* 0 single bit */
            if (stride > 1 && (counter % stride) != 0) continue;
            uint8_t* m = v_exact_copy(orig, n); m[pr[i].off + bit / 8] ^= (uint8_t)(1u << (bit % 8));
            if (counter % 11 == 0) { /* burst of 2..32 bits starting here */ int bl = 2 + (int)vrng_below(&R, 31); for (int q = 1; q < bl; q++) { long bb = bit + q; if (bb < pr[i].len * 8 && vrng_chance(&R, 1, 2)) m[pr[i].off + bb / 8] ^= (uint8_t)(1u << (bb % 8)); } kind = 1; }
            else if (counter % 13 == 0) { uint8_t old = orig[pr[i].off + bit / 8]; uint8_t nv; do { nv = (uint8_t)vrng_u64(&R); } while (nv == old); m[pr[i].off + bit / 8] = nv; kind = 2; }
            if (!memcmp(m, orig, n)) { free(m); continue; }
            v_case(v_hash(&bit, sizeof bit, (uint64_t)i * 1000003 + (uint64_t)kind + v_hash(bn, strlen(bn), 7))); v_count(kind == 0 ? "single_bit_mutants" : kind == 1 ? "burst_mutants" : "byte_mutants");
            carquet_error_t err = CARQUET_ERROR_INIT; carquet_reader_options_t ro; carquet_reader_options_init(&ro);
            for (int verify = 1; verify >= 0; verify--) { if (!verify && counter % 5) continue; ro.verify_checksums = verify != 0; ropen_t o; memset(&o, 0, sizeof o); o.mode = IO_BUFFER; o.rd = carquet_reader_open_buffer(m, n, &ro, &err); if (!o.rd) { v_count("rejected_at_open"); continue; } check_mutant("buffer", &o, &pr[i], verify, bn, bit); carquet_reader_close(o.rd); }
            if (counter % 7 == 0) { FILE* f = fopen(tmp, "wb"); if (f) { fwrite(m, 1, n, f); fclose(f); for (int mode = 0; mode < 2; mode++) { ropen_t o; if (rd_open(&o, tmp, mode, 1, 1, &err)) { check_mutant(IO_NAME[mode], &o, &pr[i], 1, bn, bit); rd_close(&o); } } } }
            free(m); } }
    unlink(tmp); free(orig);
}

/* first use of the CRC by several threads at once (the tables are built lazily): every thread must get the IEEE value */
#include <pthread.h>
typedef struct { pthread_barrier_t* bar; const uint8_t* p; size_t n; uint32_t got; } crc_arg_t;
static void* crc_thread(void* a) { crc_arg_t* x = a; pthread_barrier_wait(x->bar); x->got = carquet_crc32(x->p, x->n); return NULL; }
static void crc_first_use(int nthreads) { size_t n = 4096 + vrng_below(&R, 4096); uint8_t* p = v_exact(n); vrng_bytes(&R, p, n); uint32_t want = (uint32_t)crc32(0L, p, (uInt)n); pthread_barrier_t bar; pthread_barrier_init(&bar, NULL, (unsigned)nthreads); crc_arg_t a[32]; pthread_t th[32];
    for (int i = 0; i < nthreads; i++) { a[i].bar = &bar; a[i].p = p; a[i].n = n; a[i].got = 0; pthread_create(&th[i], NULL, crc_thread, &a[i]); } for (int i = 0; i < nthreads; i++) pthread_join(th[i], NULL);
    for (int i = 0; i < nthreads; i++) { v_case(v_hash(&a[i].got, 4, (uint64_t)i + n)); v_count("crc_values_from_concurrent_first_use"); if (a[i].got != want) { v_viol("crc32:differs-from-zlib:concurrent-first-use", "thread %d of %d: got %08x want %08x (len %zu)", i, nthreads, a[i].got, want, n); break; } }
    free(p); }

int main(int argc, char** argv) {
    if (argc >= 4 && !strcmp(argv[1], "crcfirst")) { /* no carquet call before the threads start */ vrng_seed(&R, strtoull(argv[2], 0, 10) * 977 + 5); crc_first_use(atoi(argv[3])); v_finish(); return 0; }
    if (argc < 4) return 2; (void)carquet_init(); uint64_t seed = strtoull(argv[2], 0, 10); vrng_seed(&R, seed * 3571 + 11);
    if (!strcmp(argv[1], "crc")) crc_section(atoi(argv[3])); else if (!strcmp(argv[1], "damage") && argc >= 7) damage_section(argv[4], argv[5], atol(argv[3]), argv[6]); else return 2;
    v_finish(); return 0;
}
