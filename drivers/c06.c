/* C06 (lenient part): files using features carquet does not implement must be rejected or decoded correctly,
 * never decoded to different values. usage: c06 <seed> <parquet> <tdmp> [<parquet> <tdmp> ...] */
#include "rdchk.h"
int main(int argc, char** argv) {
    if (argc < 4) return 2; (void)carquet_init();
    for (int a = 2; a + 1 < argc; a += 2) { const char* path = argv[a]; table_t* t = tbl_load(argv[a + 1]); const char* bn = strrchr(path, '/') ? strrchr(path, '/') + 1 : path;
        for (int mode = 0; mode < 3; mode += 2) { carquet_error_t err = CARQUET_ERROR_INIT; ropen_t o; v_case(v_hash(path, strlen(path), (uint64_t)mode + 3));
            if (!rd_open(&o, path, mode, 1, 1, &err)) { v_count("rejected_at_open"); continue; }
            if (carquet_reader_num_columns(o.rd) != t->ncols || carquet_reader_num_row_groups(o.rd) != t->nrg) { v_viol("unsupported-feature:layout-differs", "%s mode=%s", bn, IO_NAME[mode]); rd_close(&o); continue; }
            for (int g = 0; g < t->nrg; g++) for (int c = 0; c < t->ncols; c++) { const tcol_t* col = &t->cols[c]; const tchunk_t* k = &t->rg[g][c]; if (k->nlevels == 0) continue;
                carquet_column_reader_t* cr = carquet_reader_get_column(o.rd, g, c, &err); if (!cr) { v_count("rejected_at_get_column"); continue; }
                int64_t rows = k->nlevels, pos = 0, vpos = 0; int64_t step = (g + c) % 2 ? rows : 7; int bad = 0;
                while (pos < rows && !bad) { int64_t kk = step < rows - pos ? step : rows - pos; void* vals = v_exact((size_t)kk * t_api_elem_size(col)); int16_t* defs = (int16_t*)v_exact((size_t)kk * 2); int16_t* reps = (int16_t*)v_exact((size_t)kk * 2);
                    int64_t n = carquet_column_read_batch(cr, vals, kk, defs, reps);
                    if (n <= 0) { v_count("rejected_at_read"); free(vals); free(defs); free(reps); break; }
                    if (n > kk) { v_viol("unsupported-feature:read-count", "%s rg=%d col=%d", bn, g, c); free(vals); free(defs); free(reps); break; }
                    int64_t nn = 0; for (int64_t q = 0; q < n; q++) { if (defs[q] != k->def[pos + q] || (col->max_rep > 0 && reps[q] != k->rep[pos + q])) bad = 1; if (k->def[pos + q] == col->max_def) nn++; }
                    if (!bad && !tbl_values_equal(col, k, vpos, nn, vals)) bad = 2;
                    if (bad) { char key[128]; snprintf(key, sizeof key, "unsupported-feature:decoded-to-wrong-%s", bad == 1 ? "levels" : "values"); v_viol(key, "%s mode=%s rg=%d col=%d type=%d rows %lld.. returned OK", bn, IO_NAME[mode], g, c, col->type, (long long)pos); }
                    else v_count("decoded_correctly_reads");
                    pos += n; vpos += nn; free(vals); free(defs); free(reps); }
                carquet_column_reader_free(cr); }
            rd_close(&o); }
        v_count("unsupported_feature_files"); tbl_free(t); }
    v_finish(); return 0;
}
