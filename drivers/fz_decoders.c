/* libFuzzer target for C08 (coverage-guided stage): input = [family 0..11][24-bit parameter seed][payload]. The family code of
 * drivers/c08.c runs one iteration with its parameters (bit width, count, type, capacity ...) drawn from the parameter seed and
 * its input replaced by the payload, in exact-size heap blocks. Built with clang -fsanitize=fuzzer,address from /repo's tree. */
#define FZ_MODE 1
#define main c08_main
#include "c08.c"
#undef main
int LLVMFuzzerTestOneInput(const uint8_t* data, size_t size) {
    static int init = 0; if (!init) { (void)carquet_init(); init = 1; }
    if (size < 4 || size > 70000) return 0;
    int id = data[0] % 12; uint32_t ps = (uint32_t)data[1] | ((uint32_t)data[2] << 8) | ((uint32_t)data[3] << 16);
    vrng_seed(&R, ps); FZ_ON = 1; FZD = data + 4; FZN = size - 4; run_family(id, 1); return 0;
}
