/* Shared helpers for the verification drivers: PRNG, exact-size blocks, counters,
 * violation reporting. Output protocol (stdout, one record per line):
 *   VIOL <key> | <detail>
 *   COUNT <name> <value>
 *   SAMPLE <text>
 *   EVAL <evaluations> DISTINCT <distinct nontrivial>
 */
#ifndef VDRV_H
#define VDRV_H
#include <stdint.h>
#include <stddef.h>
#include <stdio.h>
#include <stdlib.h>
#include <string.h>
#include <stdarg.h>

/* ---- PRNG (splitmix64 -> xoshiro256**) ------------------------------------------- */
typedef struct { uint64_t s[4]; } vrng_t;
static inline uint64_t v_splitmix(uint64_t* x) {
    uint64_t z = (*x += 0x9E3779B97F4A7C15ULL);
    z = (z ^ (z >> 30)) * 0xBF58476D1CE4E5B9ULL;
    z = (z ^ (z >> 27)) * 0x94D049BB133111EBULL;
    return z ^ (z >> 31);
}
static inline void vrng_seed(vrng_t* r, uint64_t seed) {
    for (int i = 0; i < 4; i++) r->s[i] = v_splitmix(&seed);
}
static inline uint64_t v_rotl(uint64_t x, int k) { return (x << k) | (x >> (64 - k)); }
static inline uint64_t vrng_u64(vrng_t* r) {
    uint64_t* s = r->s;
    uint64_t result = v_rotl(s[1] * 5, 7) * 9, t = s[1] << 17;
    s[2] ^= s[0]; s[3] ^= s[1]; s[1] ^= s[2]; s[0] ^= s[3]; s[2] ^= t; s[3] = v_rotl(s[3], 45);
    return result;
}
static inline uint64_t vrng_below(vrng_t* r, uint64_t n) { return n ? vrng_u64(r) % n : 0; }
static inline int64_t vrng_range(vrng_t* r, int64_t lo, int64_t hi) { /* inclusive */
    return lo + (int64_t)vrng_below(r, (uint64_t)(hi - lo) + 1);
}
static inline int vrng_chance(vrng_t* r, int num, int den) { return (int)vrng_below(r, den) < num; }
static inline void vrng_bytes(vrng_t* r, void* p, size_t n) {
    uint8_t* b = (uint8_t*)p;
    while (n >= 8) { uint64_t v = vrng_u64(r); memcpy(b, &v, 8); b += 8; n -= 8; }
    if (n) { uint64_t v = vrng_u64(r); memcpy(b, &v, n); }
}

/* ---- exact-size heap blocks (ASan red zones start right after the last byte) ------ */
static inline void* v_exact(size_t n) {
    /* malloc(0) is legal but let every block be distinct and non-NULL */
    void* p = malloc(n ? n : 1);
    if (!p) { fprintf(stderr, "driver: out of memory (%zu)\n", n); exit(2); }
    return p;
}
static inline void* v_exact_copy(const void* src, size_t n) {
    void* p = v_exact(n);
    if (n) memcpy(p, src, n);
    return p;
}

/* ---- counters ------------------------------------------------------------------- */
#define V_MAX_COUNTERS 256
static const char* v_cnt_name[V_MAX_COUNTERS];
static uint64_t v_cnt_val[V_MAX_COUNTERS];
static int v_cnt_n = 0;
static inline void v_count_n(const char* name, uint64_t n) {
    for (int i = 0; i < v_cnt_n; i++) if (v_cnt_name[i] == name || strcmp(v_cnt_name[i], name) == 0) { v_cnt_val[i] += n; return; }
    if (v_cnt_n < V_MAX_COUNTERS) { v_cnt_name[v_cnt_n] = strdup(name); v_cnt_val[v_cnt_n++] = n; }
}
#define v_count(name) v_count_n((name), 1)

/* distinct case tracking: open addressing set of 64-bit hashes */
static uint64_t* v_set = NULL; static size_t v_set_cap = 0, v_set_n = 0; static uint64_t v_evals = 0;
static inline uint64_t v_hash(const void* p, size_t n, uint64_t h) {
    const uint8_t* b = (const uint8_t*)p;
    h ^= 0xcbf29ce484222325ULL;
    for (size_t i = 0; i < n; i++) { h ^= b[i]; h *= 0x100000001b3ULL; }
    h ^= h >> 29; h *= 0xBF58476D1CE4E5B9ULL; h ^= h >> 32;
    return h ? h : 1;
}
static inline void v_set_insert(uint64_t h) {
    if (v_set_n * 2 >= v_set_cap) {
        size_t nc = v_set_cap ? v_set_cap * 2 : (1u << 16);
        uint64_t* ns = (uint64_t*)calloc(nc, 8);
        for (size_t i = 0; i < v_set_cap; i++) if (v_set[i]) { size_t j = v_set[i] & (nc - 1); while (ns[j]) j = (j + 1) & (nc - 1); ns[j] = v_set[i]; }
        free(v_set); v_set = ns; v_set_cap = nc;
    }
    size_t j = h & (v_set_cap - 1);
    while (v_set[j]) { if (v_set[j] == h) return; j = (j + 1) & (v_set_cap - 1); }
    v_set[j] = h; v_set_n++;
}
/* one evaluated case; h = hash of the case content (0 => trivial, not counted as distinct) */
static inline void v_case(uint64_t h) { v_evals++; if (h) v_set_insert(h); }

/* ---- violations ------------------------------------------------------------------ */
static int v_viol_n = 0;
static inline void v_hex(char* out, size_t cap, const void* p, size_t n) {
    const uint8_t* b = (const uint8_t*)p; size_t o = 0;
    for (size_t i = 0; i < n && o + 2 < cap; i++) o += (size_t)snprintf(out + o, cap - o, "%02x", b[i]);
    if (cap) out[o < cap ? o : cap - 1] = 0;
}
static inline void v_viol(const char* key, const char* fmt, ...) {
    v_viol_n++;
    if (v_viol_n > 200) return; /* keep logs bounded; count still grows */
    char buf[4096]; va_list ap; va_start(ap, fmt); vsnprintf(buf, sizeof buf, fmt, ap); va_end(ap);
    for (char* c = buf; *c; c++) if (*c == '\n') *c = ' ';
    printf("VIOL %s | %s\n", key, buf); fflush(stdout);
}
static int v_sample_n = 0;
static inline void v_sample(const char* fmt, ...) {
    if (v_sample_n >= 4) return; v_sample_n++;
    char buf[1024]; va_list ap; va_start(ap, fmt); vsnprintf(buf, sizeof buf, fmt, ap); va_end(ap);
    printf("SAMPLE %s\n", buf);
}
static inline void v_finish(void) {
    for (int i = 0; i < v_cnt_n; i++) printf("COUNT %s %llu\n", v_cnt_name[i], (unsigned long long)v_cnt_val[i]);
    printf("COUNT violations_total %d\n", v_viol_n);
    printf("EVAL %llu DISTINCT %llu\n", (unsigned long long)v_evals, (unsigned long long)v_set_n);
    fflush(stdout);
}
#ifdef __SANITIZE_ADDRESS__
#ifdef VERIF_COV   /* coverage builds (bin/coverage.py) carry no sanitizer runtime: the LSan entry points become no-ops */
static int __lsan_do_recoverable_leak_check(void) { return 0; }
static void __lsan_do_leak_check(void) {}
#define __lsan_disable() ((void)0)
#define __lsan_enable() ((void)0)
#else
int __lsan_do_recoverable_leak_check(void);
void __lsan_do_leak_check(void);
#endif
#endif
#endif
