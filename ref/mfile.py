"""M_file: structure-aware mutator for Parquet files (works on the decoded footer / page-header trees of the
independent reader), plus byte-level damage, truncation and random bytes. Used by C04."""
import os, random, struct, sys
sys.path.insert(0, os.path.dirname(os.path.abspath(__file__)))
import thrift_compact as T
from thrift_compact import T_TRUE, T_FALSE, T_BYTE, T_I16, T_I32, T_I64, T_DOUBLE, T_BINARY, T_LIST, T_SET, T_MAP, T_STRUCT
import parquet_ref as P

BOUNDARY = [0, 1, -1, 2, 7, 8, 127, 128, 255, 256, 65535, 65536, 2**31 - 1, -2**31, 2**31, 2**32 - 1, 2**32, 2**63 - 1, -2**63, 10**9, 3, 4, 5, 6, 9, 12, 16]


def _paths(tree, prefix=()):
    """all (path, type, value) of scalar fields, lists and structs in a generic tree"""
    out = []
    for idx, (fid, t, v) in enumerate(tree):
        p = prefix + (idx,)
        out.append((p, t, v))
        if t == T_STRUCT:
            out += _paths(v, p + ('s',))
        elif t == T_LIST and v[0] == T_STRUCT:
            for i, it in enumerate(v[1]):
                out += _paths(it, p + ('l', i))
    return out


def _set(tree, path, newfield):
    """returns a copy of tree with the field at path replaced (newfield = (fid,t,v) or None to delete)"""
    idx = path[0]
    tree = list(tree)
    if len(path) == 1:
        if newfield is None:
            del tree[idx]
        else:
            tree[idx] = newfield
        return tree
    fid, t, v = tree[idx]
    if path[1] == 's':
        tree[idx] = (fid, t, _set(v, path[2:], newfield))
    else:
        items = list(v[1])
        items[path[2]] = _set(items[path[2]], path[3:], newfield)
        tree[idx] = (fid, t, (v[0], items))
    return tree


def nest(kind, depth):
    """bytes of an unknown field (id 100) holding `depth` nested structs or lists"""
    if kind == 'struct':
        # field header long form: type struct(12), id 100 ; then depth x (field 1 struct) ; then stops
        return bytes([0x0C]) + T.enc_varint(T.zigzag(100, 16)) + bytes([0x1C]) * depth + bytes([0x00]) * (depth + 1)
    if kind == 'list':
        # list of 1 list of 1 list ... innermost list<i32> of 0 elements
        return bytes([0x09]) + T.enc_varint(T.zigzag(100, 16)) + bytes([0x19]) * depth + bytes([0x05])
    # map<i32, map<i32, ...>>
    return bytes([0x0B]) + T.enc_varint(T.zigzag(100, 16)) + (bytes([0x01, 0x5B, 0x02])) * depth + bytes([0x00])


def rebuild(data, f, tree=None, footer_bytes=None):
    body = data[:f.footer_start]
    fb = footer_bytes if footer_bytes is not None else T.encode_struct(tree)
    return body + fb + struct.pack('<I', len(fb) & 0xFFFFFFFF) + b'PAR1'


def _shift_footer_offsets(tree, after, delta, chunk_key=None):
    """copy of the FileMetaData tree in which every page/chunk offset beyond `after` is moved by delta and the chunk
    identified by chunk_key=(row group, column) grows by delta (used after a page header was re-encoded with another length)"""
    out = []
    for fid, t, v in tree:
        if fid == 4 and t == T_LIST and v[0] == T_STRUCT:
            groups = []
            for gi, rg in enumerate(v[1]):
                nrg = []
                for f2, t2, v2 in rg:
                    if f2 == 1 and t2 == T_LIST and v2[0] == T_STRUCT:
                        cols = []
                        for ci, cc in enumerate(v2[1]):
                            ncc = []
                            for f3, t3, v3 in cc:
                                if f3 == 2 and t3 == T_I64 and v3 > after:
                                    v3 += delta
                                elif f3 == 3 and t3 == T_STRUCT:
                                    md = []
                                    for f4, t4, v4 in v3:
                                        if f4 in (9, 10, 11) and t4 == T_I64 and v4 > after:
                                            v4 += delta
                                        elif f4 == 7 and t4 == T_I64 and chunk_key == (gi, ci):
                                            v4 += delta
                                        md.append((f4, t4, v4))
                                    v3 = md
                                ncc.append((f3, t3, v3))
                            cols.append(ncc)
                        v2 = (v2[0], cols)
                    elif f2 == 5 and t2 == T_I64 and v2 > after:
                        v2 += delta
                    elif f2 == 6 and t2 == T_I64 and chunk_key is not None and chunk_key[0] == gi:
                        v2 += delta
                    nrg.append((f2, t2, v2))
                groups.append(nrg)
            v = (v[0], groups)
        out.append((fid, t, v))
    return out


def mutate_page_header_field(rng, data, f):
    """re-encodes one page header with one (or two) integer fields replaced by boundary values or values derived from the file
    geometry (bytes left to the end of the chunk / data region / file, counted from the header or from the body, +-2); the rest
    of the file is shifted and the footer offsets are corrected, so only the chosen inconsistency is present"""
    pages = []
    for gi, rg in enumerate(f.row_groups):
        for ci in range(len(rg['columns'])):
            try:
                pl = f.pages_of(gi, ci)
            except P.ParquetError:
                continue
            for pi, pg in enumerate(pl):
                pages.append((gi, ci, pi, pg, pl[-1].body + pl[-1].comp))
    if not pages:
        return None
    gi, ci, pi, pg, chunk_end = rng.choice(pages)
    fields = [x for x in _paths(pg.tree) if x[1] in (T_I32, T_I64, T_I16, T_BYTE)]
    if not fields:
        return None
    sizes = [x for x in fields if x[0] in ((1,), (2,)) or (len(x[0]) == 3 and x[0][1] == 's' and x[0][2] == 0)]   # (un)compressed size, num_values
    if rng.random() < 0.2:
        # two fields inflated consistently with each other (num_values and uncompressed_page_size = num_values x width) while the
        # compressed size stays true: checks that compare the wrong pair of fields are satisfied by this
        top = {fid: (i,) for i, (fid, t, v) in enumerate(pg.tree)}
        inner = None
        for i, (fid, t, v) in enumerate(pg.tree):
            if fid == 5 and t == T_STRUCT:
                for j, (f2, t2, v2) in enumerate(v):
                    if f2 == 1:
                        inner = (i, 's', j)
        if inner is not None and 2 in top:
            N = rng.choice([1000, 4096, 65536, 200000, pg.comp + 1, 2 * pg.comp + 7, rng.randrange(2, 300000)])
            w = rng.choice([1, 4, 8, 12, 16])
            t2 = _set(pg.tree, inner, (1, T_I32, N))
            t2 = _set(t2, top[2], (2, T_I32, min(2**31 - 1, N * w)))
            hdr = T.encode_struct(t2)
            delta = len(hdr) - pg.header_size
            tree = _shift_footer_offsets(f.tree, pg.offset, delta, (gi, ci)) if delta else f.tree
            if rng.random() < 0.5:
                # let the chunk metadata agree with the page (the reader clamps to the chunk's value count otherwise)
                try:
                    rgp = next(i for i, (fid, t, v) in enumerate(tree) if fid == 4)
                    cols = tree[rgp][2][1][gi]
                    ccp = next(i for i, (fid, t, v) in enumerate(cols) if fid == 1)
                    cc = cols[ccp][2][1][ci]
                    mdp = next(i for i, (fid, t, v) in enumerate(cc) if fid == 3)
                    nvp = next(i for i, (fid, t, v) in enumerate(cc[mdp][2]) if fid == 5)
                    tree = _set(tree, (rgp, 'l', gi, ccp, 'l', ci, mdp, 's', nvp), (5, T_I64, N))
                except StopIteration:
                    pass
            fb = T.encode_struct(tree)
            body = data[:pg.offset] + hdr + data[pg.body:f.footer_start]
            return body + fb + struct.pack('<I', len(fb)) + b'PAR1', 'page-header-consistent-inflation'
    n = 1 if rng.random() < 0.75 else 2
    plan = []
    for _ in range(n):
        pth, t, v = rng.choice(sizes) if sizes and rng.random() < 0.6 else rng.choice(fields)
        k = rng.random()
        if k < 0.5:
            plan.append((pth, t, ('geom', rng.choice(['body', 'offset']), rng.choice(['chunk', 'footer', 'file', 'file-8', 'file-4']), rng.choice([-2, -1, 0, 0, 1, 2]))))
        elif k < 0.8:
            plan.append((pth, t, ('const', rng.choice(BOUNDARY))))
        else:
            plan.append((pth, t, ('const', v + rng.choice([-1, 1, 2, -2, 7, 8, -8, 100]))))
    hs = pg.header_size
    flen = len(data) - f.footer_start - 8
    for _ in range(4):
        # geometry of the file as it will be after re-encoding (header and footer lengths feed back into the values)
        delta = hs - pg.header_size
        newlen = f.footer_start + delta + flen + 8
        ends = {'chunk': chunk_end + delta, 'footer': f.footer_start + delta, 'file': newlen, 'file-8': newlen - 8, 'file-4': newlen - 4}
        bases = {'body': pg.offset + hs, 'offset': pg.offset}
        t2 = pg.tree
        for pth, t, how in plan:
            nv = how[1] if how[0] == 'const' else ends[how[2]] - bases[how[1]] + how[3]
            if t == T_I32: nv = max(-2**31, min(2**31 - 1, nv))
            if t == T_I16: nv = max(-2**15, min(2**15 - 1, nv))
            if t == T_BYTE: nv = max(-128, min(127, nv))
            t2 = _set(t2, pth, (_get(t2, pth)[0], t, nv))
        hdr = T.encode_struct(t2)
        delta = len(hdr) - pg.header_size
        tree = _shift_footer_offsets(f.tree, pg.offset, delta, (gi, ci)) if delta else f.tree
        fb = T.encode_struct(tree)
        if len(hdr) == hs and len(fb) == flen:
            break
        hs, flen = len(hdr), len(fb)
    body = data[:pg.offset] + hdr + data[pg.body:f.footer_start]
    return body + fb + struct.pack('<I', len(fb)) + b'PAR1', 'page-header-field%s' % ('' if n == 1 else '-pair')


def mutate(rng, data, f):
    """one mutant of a valid file. returns (bytes, class name)"""
    if rng.random() < 0.15:
        r = mutate_page_header_field(rng, data, f)
        if r is not None:
            return r
    c = rng.random()
    tree = f.tree
    if c < 0.42:
        # single / double field inconsistency in the footer
        fields = [x for x in _paths(tree) if x[1] in (T_I32, T_I64, T_I16, T_BYTE)]
        n = 1 if rng.random() < 0.7 else 2
        t2 = tree
        for _ in range(n):
            p, t, v = rng.choice(fields)
            nv = rng.choice(BOUNDARY) if rng.random() < 0.7 else v + rng.choice([-1, 1, 2, -2, 100, -100])
            if t == T_I32: nv = max(-2**31, min(2**31 - 1, nv))
            if t == T_I16: nv = max(-2**15, min(2**15 - 1, nv))
            if t == T_BYTE: nv = max(-128, min(127, nv))
            fid = _get(t2, p)[0]
            t2 = _set(t2, p, (fid, t, nv))
        return rebuild(data, f, t2), 'footer-int-field%s' % ('' if n == 1 else '-pair')
    if c < 0.50:
        fields = [x for x in _paths(tree) if x[1] == T_BINARY]
        if fields:
            p, t, v = rng.choice(fields)
            k = rng.random()
            nv = b'' if k < 0.2 else v[:1] if k < 0.4 else v * 50 if k < 0.6 else bytes(rng.randrange(256) for _ in range(rng.randrange(1, 40))) if k < 0.8 else v + b'\x00' * 300
            return rebuild(data, f, _set(tree, p, (_get(tree, p)[0], t, nv))), 'footer-binary-field'
    if c < 0.56:
        # drop a field (required or optional) or duplicate a list element
        allp = _paths(tree)
        p, t, v = rng.choice(allp)
        if t == T_LIST and v[1] and rng.random() < 0.5:
            items = list(v[1])
            k = rng.random()
            if k < 0.4: items = items + [items[-1]]
            elif k < 0.7: items = items[:-1]
            else: items = items * 3
            return rebuild(data, f, _set(tree, p, (_get(tree, p)[0], t, (v[0], items)))), 'footer-list-length'
        return rebuild(data, f, _set(tree, p, None)), 'footer-field-dropped'
    if c < 0.60:
        # wire type confusion: same field id, different type
        fields = [x for x in _paths(tree) if x[1] in (T_I32, T_I64, T_BINARY)]
        p, t, v = rng.choice(fields)
        fid = _get(tree, p)[0]
        alt = rng.choice([(T_BINARY, b'xy'), (T_I64, 5), (T_TRUE, True), (T_LIST, (T_I32, [1, 2])), (T_STRUCT, [])])
        return rebuild(data, f, _set(tree, p, (fid, alt[0], alt[1]))), 'footer-wire-type-confusion'
    if c < 0.66:
        # unknown-field nesting depth
        depth = rng.choice([1, 10, 31, 32, 33, 64, 1000, 20000, 200000])
        kind = rng.choice(['struct', 'list', 'map'])
        fb = T.encode_struct(tree)
        fb = fb[:-1] + nest(kind, depth) + b'\x00'
        return rebuild(data, f, footer_bytes=fb), 'footer-unknown-nesting-%s' % kind
    if c < 0.80:
        # page header / page body damage (same length)
        pages = []
        for gi, rg in enumerate(f.row_groups):
            for ci in range(len(rg['columns'])):
                try:
                    pages += f.pages_of(gi, ci)
                except P.ParquetError:
                    pass
        if pages:
            pg = rng.choice(pages)
            b = bytearray(data)
            k = rng.random()
            if k < 0.5:
                # rewrite one varint of the header with a same-length encoding of a hostile value
                pos = pg.offset + rng.randrange(0, pg.header_size)
                L = 1
                while pos + L < pg.body and b[pos + L - 1] & 0x80 and L < 5:
                    L += 1
                val = rng.choice([0, 1, 2**(7 * L) - 1, 2**(7 * L - 1), rng.randrange(2**(7 * L))])
                for i in range(L):
                    b[pos + i] = ((val >> (7 * i)) & 0x7F) | (0x80 if i < L - 1 else 0)
                return bytes(b), 'page-header-varint'
            if k < 0.75 and pg.comp >= 4:
                # level-length prefix / first bytes of the body
                v = rng.choice([0, 1, pg.comp, pg.comp - 3, 0xFFFFFFFF, 0xFFFFFFFD, 0x7FFFFFFF, rng.randrange(2**32)])
                b[pg.body:pg.body + 4] = struct.pack('<I', v)
                return bytes(b), 'page-level-length-prefix'
            if pg.comp:
                for _ in range(rng.randrange(1, 6)):
                    b[pg.body + rng.randrange(pg.comp)] = rng.randrange(256)
                return bytes(b), 'page-body-bytes'
    if c < 0.88:
        # truncation at a structural boundary or anywhere
        cuts = [0, 3, 4, 7, 8, 11, 12, f.footer_start, f.footer_start + 1, len(data) - 9, len(data) - 8, len(data) - 5, len(data) - 4, len(data) - 1]
        cut = rng.choice(cuts) if rng.random() < 0.5 else rng.randrange(len(data))
        cut = max(0, min(len(data) - 1, cut))
        return data[:cut], 'truncation'
    if c < 0.94:
        b = bytearray(data)
        for _ in range(rng.randrange(1, 8)):
            pos = rng.randrange(len(b)) if rng.random() < 0.5 else rng.randrange(f.footer_start, len(b))
            b[pos] = rng.choice([0, 0xFF, 0x7F, 0x80, rng.randrange(256)])
        return bytes(b), 'random-byte-damage'
    if c < 0.97:
        # footer length field games
        b = bytearray(data)
        v = rng.choice([0, 1, 2, len(data), len(data) - 8, len(data) - 12, len(data) - 11, 0xFFFFFFFF, 0x7FFFFFFF, 0x80000000, rng.randrange(2**32)])
        b[-8:-4] = struct.pack('<I', v & 0xFFFFFFFF)
        return bytes(b), 'footer-length-field'
    n = rng.choice([0, 1, 4, 8, 11, 12, 13, 100, 5000])
    raw = bytes(rng.randrange(256) for _ in range(n))
    if rng.random() < 0.5 and n >= 12:
        raw = b'PAR1' + raw[4:-4] + b'PAR1'
    return raw, 'random-bytes'


def _get(tree, path):
    idx = path[0]
    fid, t, v = tree[idx]
    if len(path) == 1:
        return fid, t, v
    if path[1] == 's':
        return _get(v, path[2:])
    return _get(v[1][path[2]], path[3:])


def big_garbage_page(rng, data, f, pad_bytes=17 * 1024 * 1024, fill=0xFF):
    """a file of more than 16 MiB in which one chunk's first page offset points into a long stretch of garbage: whatever window a
    reader grows while looking for a page header, it must give up"""
    tree = f.tree
    try:
        rgp = next(i for i, (fid, t, v) in enumerate(tree) if fid == 4)
        gi = 0
        cols = tree[rgp][2][1][gi]
        ccp = next(i for i, (fid, t, v) in enumerate(cols) if fid == 1)
        ci = rng.randrange(len(cols[ccp][2][1]))
        cc = cols[ccp][2][1][ci]
        mdp = next(i for i, (fid, t, v) in enumerate(cc) if fid == 3)
        md = cc[mdp][2]
        dpp = next(i for i, (fid, t, v) in enumerate(md) if fid == 9)
    except (StopIteration, IndexError, ValueError):
        return None
    target = f.footer_start + rng.choice([0, 1, 100, 4096, pad_bytes // 2])
    t2 = _set(tree, (rgp, 'l', gi, ccp, 'l', ci, mdp, 's', dpp), (9, T_I64, target))
    md2 = _get(t2, (rgp, 'l', gi, ccp, 'l', ci, mdp))[2]
    for i, (fid, t, v) in enumerate(md2):
        if fid == 11:
            t2 = _set(t2, (rgp, 'l', gi, ccp, 'l', ci, mdp, 's', i), None)
            break
    fb = T.encode_struct(t2)
    pad = bytes([fill]) * pad_bytes if fill is not None else bytes(rng.randrange(256) for _ in range(4096)) * (pad_bytes // 4096)
    return data[:f.footer_start] + pad + fb + struct.pack('<I', len(fb)) + b'PAR1', 'file-over-16MiB-with-garbage-page'
