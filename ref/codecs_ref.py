"""Page codecs for the reference reader/writer: canonical system libraries through ctypes (+ zlib)."""
import ctypes, ctypes.util, zlib

UNCOMPRESSED, SNAPPY, GZIP, LZO, BROTLI, LZ4, ZSTD, LZ4_RAW = range(8)
NAMES = {0: 'UNCOMPRESSED', 1: 'SNAPPY', 2: 'GZIP', 3: 'LZO', 4: 'BROTLI', 5: 'LZ4', 6: 'ZSTD', 7: 'LZ4_RAW'}


def _load(name):
    p = ctypes.util.find_library(name)
    if not p:
        return None
    try:
        return ctypes.CDLL(p)
    except OSError:
        return None


_snappy = _load('snappy')
_lz4 = _load('lz4')
_zstd = _load('zstd')
if _zstd:
    _zstd.ZSTD_compressBound.restype = ctypes.c_size_t
    _zstd.ZSTD_compressBound.argtypes = [ctypes.c_size_t]
    _zstd.ZSTD_compress.restype = ctypes.c_size_t
    _zstd.ZSTD_compress.argtypes = [ctypes.c_void_p, ctypes.c_size_t, ctypes.c_void_p, ctypes.c_size_t, ctypes.c_int]
    _zstd.ZSTD_decompress.restype = ctypes.c_size_t
    _zstd.ZSTD_decompress.argtypes = [ctypes.c_void_p, ctypes.c_size_t, ctypes.c_void_p, ctypes.c_size_t]
    _zstd.ZSTD_isError.restype = ctypes.c_uint
    _zstd.ZSTD_isError.argtypes = [ctypes.c_size_t]
    try:
        _zstd.ZSTD_createCCtx.restype = ctypes.c_void_p
        _zstd.ZSTD_freeCCtx.argtypes = [ctypes.c_void_p]
        _zstd.ZSTD_CCtx_setParameter.restype = ctypes.c_size_t
        _zstd.ZSTD_CCtx_setParameter.argtypes = [ctypes.c_void_p, ctypes.c_int, ctypes.c_int]
        _zstd.ZSTD_compress2.restype = ctypes.c_size_t
        _zstd.ZSTD_compress2.argtypes = [ctypes.c_void_p, ctypes.c_void_p, ctypes.c_size_t, ctypes.c_void_p, ctypes.c_size_t]
    except AttributeError:
        pass
if _snappy:
    _snappy.snappy_max_compressed_length.restype = ctypes.c_size_t
    _snappy.snappy_max_compressed_length.argtypes = [ctypes.c_size_t]


def available():
    return {'snappy': bool(_snappy), 'lz4': bool(_lz4), 'zstd': bool(_zstd), 'gzip': True}


class CodecError(Exception):
    pass


def compress(codec, data):
    data = bytes(data)
    if codec == UNCOMPRESSED:
        return data
    if codec == GZIP:
        c = zlib.compressobj(6, zlib.DEFLATED, 31)
        return c.compress(data) + c.flush()
    if codec == SNAPPY:
        if not _snappy:
            raise CodecError('libsnappy missing')
        cap = _snappy.snappy_max_compressed_length(len(data))
        out = ctypes.create_string_buffer(cap)
        n = ctypes.c_size_t(cap)
        if _snappy.snappy_compress(data, ctypes.c_size_t(len(data)), out, ctypes.byref(n)) != 0:
            raise CodecError('snappy_compress failed')
        return out.raw[:n.value]
    if codec in (LZ4_RAW, LZ4):
        if not _lz4:
            raise CodecError('liblz4 missing')
        cap = _lz4.LZ4_compressBound(len(data))
        out = ctypes.create_string_buffer(max(cap, 1))
        n = _lz4.LZ4_compress_default(data, out, len(data), cap)
        if n <= 0 and len(data) > 0:
            raise CodecError('LZ4_compress_default failed')
        if len(data) == 0:
            return b'\x00'
        return out.raw[:n]
    if codec == ZSTD:
        if not _zstd:
            raise CodecError('libzstd missing')
        cap = _zstd.ZSTD_compressBound(len(data))
        out = ctypes.create_string_buffer(cap)
        global _zstd_flip
        _zstd_flip = not globals().get('_zstd_flip', False)
        if _zstd_flip and hasattr(_zstd, 'ZSTD_compress2'):
            # every other frame is written the way streaming producers (zstd-jni output streams) write it: without the optional
            # Frame_Content_Size field (ZSTD_c_contentSizeFlag = 200 set to 0)
            cctx = _zstd.ZSTD_createCCtx()
            _zstd.ZSTD_CCtx_setParameter(cctx, 200, 0)
            n = _zstd.ZSTD_compress2(cctx, out, cap, data, len(data))
            _zstd.ZSTD_freeCCtx(cctx)
        else:
            n = _zstd.ZSTD_compress(out, cap, data, len(data), 3)
        if _zstd.ZSTD_isError(n):
            raise CodecError('ZSTD_compress failed')
        return out.raw[:n]
    raise CodecError('codec %r unsupported by the reference writer' % codec)


def decompress(codec, data, uncompressed_size):
    data = bytes(data)
    if codec == UNCOMPRESSED:
        return data
    if codec == GZIP:
        try:
            d = zlib.decompressobj(31)
            out = d.decompress(data)
            if not d.eof:
                raise CodecError('gzip stream incomplete')
            return out
        except zlib.error as e:
            raise CodecError('gzip: %s' % e)
    if codec == SNAPPY:
        if not _snappy:
            raise CodecError('libsnappy missing')
        n = ctypes.c_size_t(0)
        if _snappy.snappy_uncompressed_length(data, ctypes.c_size_t(len(data)), ctypes.byref(n)) != 0:
            raise CodecError('snappy: bad preamble')
        out = ctypes.create_string_buffer(max(n.value, 1))
        m = ctypes.c_size_t(n.value)
        if _snappy.snappy_uncompress(data, ctypes.c_size_t(len(data)), out, ctypes.byref(m)) != 0:
            raise CodecError('snappy: invalid stream')
        return out.raw[:m.value]
    if codec in (LZ4_RAW, LZ4):
        if not _lz4:
            raise CodecError('liblz4 missing')
        cap = max(uncompressed_size, 1)
        out = ctypes.create_string_buffer(cap)
        n = _lz4.LZ4_decompress_safe(data, out, len(data), uncompressed_size)
        if n < 0 and codec == LZ4 and len(data) >= 8:
            # deprecated Hadoop framing: [be32 uncompressed][be32 compressed][block]...
            pos = 0
            res = b''
            try:
                while pos + 8 <= len(data):
                    ul = int.from_bytes(data[pos:pos + 4], 'big')
                    cl = int.from_bytes(data[pos + 4:pos + 8], 'big')
                    pos += 8
                    blk = data[pos:pos + cl]
                    pos += cl
                    o2 = ctypes.create_string_buffer(max(ul, 1))
                    k = _lz4.LZ4_decompress_safe(blk, o2, len(blk), ul)
                    if k != ul:
                        raise CodecError('lz4 hadoop block')
                    res += o2.raw[:k]
                return res
            except Exception:
                raise CodecError('lz4: invalid block')
        if n < 0:
            raise CodecError('lz4: invalid block')
        return out.raw[:n]
    if codec == ZSTD:
        if not _zstd:
            raise CodecError('libzstd missing')
        cap = max(uncompressed_size, 1)
        out = ctypes.create_string_buffer(cap)
        n = _zstd.ZSTD_decompress(out, cap, data, len(data))
        if _zstd.ZSTD_isError(n):
            raise CodecError('zstd: invalid frame or size')
        return out.raw[:n]
    raise CodecError('codec %r unsupported' % codec)
