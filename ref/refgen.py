"""Generator of reference-written Parquet files (independent writer) + TDMP models, and runners that feed
them to the C drivers. Used by C02, C03, C06, C16, C17."""
import os, random, struct, sys
HERE = os.path.dirname(os.path.abspath(__file__))
sys.path.insert(0, HERE); sys.path.insert(0, os.path.join(HERE, '..', 'bin'))
import parquet_ref as P
import codecs_ref as C

TYPES = [P.BOOLEAN, P.INT32, P.INT64, P.INT96, P.FLOAT, P.DOUBLE, P.BYTE_ARRAY, P.FLBA]


def rand_value(rng, ptype, tl, pool=None):
    if pool is not None:
        return rng.choice(pool)
    if ptype == P.BOOLEAN:
        return rng.randrange(2)
    if ptype == P.BYTE_ARRAY:
        c = rng.random()
        if c < 0.15:
            return b''
        if c < 0.3:
            return rng.choice([b'PAR1', b'a', b'\x00\x01\x00\x00\x00PAR1', b'\xff' * 3])
        return bytes(rng.randrange(256) for _ in range(rng.randrange(1, 20 if c < 0.95 else 300)))
    w = tl if ptype == P.FLBA else P.WIDTH[ptype]
    c = rng.random()
    if c < 0.1:
        return b'\xff' * w
    if c < 0.2:
        return b'\x00' * w
    if c < 0.3 and ptype in (P.FLOAT, P.DOUBLE):
        return struct.pack('<f', float('nan')) if ptype == P.FLOAT else struct.pack('<d', -0.0)
    return bytes(rng.randrange(256) for _ in range(w))


def gen_schema(rng, nested, max_leaves=5, no_repeated=False):
    """returns elements (DFS, root first)"""
    elems = [{'name': 'schema', 'type': None, 'repetition': None, 'num_children': 0}]

    def leaf(name):
        t = rng.choice(TYPES)
        return {'name': name, 'type': t, 'type_length': rng.randrange(1, 24) if t == P.FLBA else 0, 'repetition': rng.choice([0, 1, 1] + ([2] if nested and not no_repeated else [])), 'num_children': 0}
    count = [0]

    def group(depth):
        kids = []
        n = rng.randrange(1, 4)
        for _ in range(n):
            if count[0] >= max_leaves:
                break
            if nested and depth < 4 and rng.random() < (0.5 if no_repeated else 0.35):
                g = {'name': 'g%d' % len(elems_flat), 'type': None, 'repetition': rng.choice([0, 1] if no_repeated else [0, 1, 2]), 'num_children': 0}
                elems_flat.append(g)
                sub = group(depth + 1)
                if not sub:
                    elems_flat.pop()
                    continue
                g['num_children'] = sub
                kids.append(g)
            else:
                l = leaf('c%d' % count[0])
                count[0] += 1
                elems_flat.append(l)
                kids.append(l)
        return len(kids)
    elems_flat = elems
    n = 0
    while n == 0:
        del elems[1:]
        count[0] = 0
        n = group(1)
    if nested and rng.random() < 0.2:
        # a deep chain: k optional (one of them perhaps repeated) single-child groups above an optional leaf, so that the maximum
        # definition level is 7, 8, 9, 15, 16 or 17 - level widths change at the powers of two
        total = rng.choice([7, 8, 8, 9, 15, 16, 16, 17])
        reps = [1] * (total - 1)
        if rng.random() < 0.4:
            reps[rng.randrange(len(reps))] = 2
        for d, rp in enumerate(reps):
            elems.append({'name': 'd%d' % d, 'type': None, 'repetition': rp, 'num_children': 1})
        t = rng.choice([P.INT32, P.INT64, P.BYTE_ARRAY, P.DOUBLE])
        elems.append({'name': 'deep', 'type': t, 'type_length': 0, 'repetition': 1, 'num_children': 0})
        n += 1
    if rng.random() < 0.06:
        # a leaf whose name is the empty string (pandas/pyarrow write one for an unnamed column)
        lf = [e for e in elems[1:] if e['type'] is not None]
        rng.choice(lf)['name'] = ''
    elems[0]['num_children'] = n
    return elems


def gen_levels(rng, elems, leaf, nrecords):
    """valid (def, rep) sequence for `leaf`, by walking its path; returns defs, reps, record starts"""
    # path of repetition types from root's child down to the leaf
    path = []
    # reconstruct path from DFS list
    def find(idx, stack):
        e = elems[idx]
        nc = e.get('num_children') or 0
        here = stack + [e]
        if idx == leaf.elem_index:
            return here, idx + 1
        nxt = idx + 1
        for _ in range(nc):
            r, nxt = find(nxt, here)
            if r:
                return r, nxt
        return None, nxt
    r, _ = find(0, [])
    path = [e['repetition'] for e in r[1:]]
    defs, reps = [], []
    pnull = rng.choice([0.0, 0.1, 0.5, 0.9])

    def walk(i, d, rep_level, cur_rep):
        # i: index in path, d: def so far, rep_level: repetition depth so far, cur_rep: rep level to emit for the next entry
        if i == len(path):
            defs.append(d); reps.append(cur_rep)
            return
        t = path[i]
        if t == P.REQUIRED:
            walk(i + 1, d, rep_level, cur_rep)
        elif t == P.OPTIONAL:
            if rng.random() < pnull:
                defs.append(d); reps.append(cur_rep)
            else:
                walk(i + 1, d + 1, rep_level, cur_rep)
        else:
            n = rng.choice([0, 1, 1, 2, 3])
            if n == 0:
                defs.append(d); reps.append(cur_rep)
            else:
                for j in range(n):
                    walk(i + 1, d + 1, rep_level + 1, cur_rep if j == 0 else rep_level + 1)
    starts = []
    for _ in range(nrecords):
        starts.append(len(defs))
        walk(0, 0, 0, 0)
    return defs, reps, starts


def gen_file(rng, nested=False, features=None):
    """returns (bytes, leaves, model, info, feature dict)"""
    feat = dict(features or {})
    elems = gen_schema(rng, nested, no_repeated=bool((features or {}).get('no_repeated'))) if (features or {}).get('no_repeated') else gen_schema(rng, nested)
    leaves = P.schema_leaves(elems)
    codec = feat.get('codec', rng.choice([0, 1, 2, 6, 7]))
    opt = P.WriteOptions(codec=codec, crc=feat.get('crc', rng.random() < 0.6), long_fields=feat.get('long_fields', rng.choice([False, False, 'maybe', True])),
                         long_lists=feat.get('long_lists', rng.choice([False, 'maybe', True])), unknown_fields=feat.get('unknown_fields', rng.random() < 0.4),
                         dict_offset_present=feat.get('dict_offset_present', True), stats=feat.get('stats', rng.choice(['none', 'new', 'deprecated', 'both'])),
                         level_style=feat.get('level_style', rng.choice(['greedy', 'rle_only', 'bitpack_only', 'mixed', 'zero_runs', 'long_final', 'pad_nonzero'])),
                         index_style=feat.get('index_style', rng.choice(['greedy', 'rle_only', 'bitpack_only', 'mixed', 'zero_runs'])),
                         dict_encoding=rng.choice([P.ENC_PLAIN_DICT, P.ENC_PLAIN]), index_encoding=rng.choice([P.ENC_RLE_DICT, P.ENC_PLAIN_DICT]), rng=rng,
                         kv=[(b'k1', b'v1'), (b'', None)] if rng.random() < 0.3 else None)
    if str(feat.get('unsupported', '')).startswith('codec'):
        opt.codec_tag = int(feat['unsupported'][5:])
    ngroups = feat.get('ngroups', rng.choice([1, 1, 2, 3]))
    groups = []
    for g in range(ngroups):
        nrec = feat.get('records', rng.choice([0, 1, 5, 9, 40, 200]) if g else rng.choice([1, 7, 8, 9, 33, 120, 600]))
        cols = []
        for lf in leaves:
            defs, reps, starts = gen_levels(rng, elems, lf, nrec)
            if feat.get('unsupported') == 'BIT_PACKED_LEVELS' and lf.max_def == 1 and lf.max_rep == 0 and nrec >= 40 and rng.random() < 0.7:
                # make the packed bytes look like a plausible length prefix (small first byte, three zero bytes) to a reader that
                # mistakes them for the RLE form: such a reader then returns rows instead of failing
                b0 = rng.randrange(1, 12)
                defs[0:8] = [(b0 >> (7 - i)) & 1 for i in range(8)]
                defs[8:32] = [0] * 24
            nn = sum(1 for d in defs if d == lf.max_def)
            use_dict = feat.get('dict', rng.random() < 0.5) and lf.ptype != P.BOOLEAN
            dictionary = None
            if use_dict:
                dsz = rng.choice([1, 2, 3, 4, 5, 7, 8, 9, 15, 16, 17, 31, 33, 255, 257])
                seen = {}
                tries = 0
                while len(seen) < dsz and tries < dsz * 8 + 64:     # a 1-byte FLBA has only 256 distinct values: the request may be unsatisfiable
                    tries += 1
                    v = rand_value(rng, lf.ptype, lf.type_length)
                    seen[v] = 1
                    if lf.ptype == P.BYTE_ARRAY and len(seen) < dsz and rng.random() < 0.05:
                        break
                dictionary = list(seen)
                if nn == 0 and rng.random() < 0.7:
                    dictionary = []          # an all-null chunk: writers such as parquet-cpp emit a dictionary page with 0 entries (empty body when uncompressed)
                vals = [rng.choice(dictionary) for _ in range(nn)] if rng.random() < 0.7 else [dictionary[(i // rng.choice([1, 9, 40])) % len(dictionary)] for i in range(nn)]
            else:
                vals = [rand_value(rng, lf.ptype, lf.type_length) for _ in range(nn)]
            # split into pages at record boundaries
            npages = feat.get('pages', rng.choice([1, 1, 2, 3, 6]))
            if nrec == 0:
                cuts = []
            else:
                cuts = sorted(set([0] + [starts[rng.randrange(len(starts))] for _ in range(npages - 1)]))
            pages = []
            vpos = 0
            enc_plan = rng.choice(['all', 'all', 'fallback']) if use_dict else 'plain'
            for pi, s in enumerate(cuts):
                e = cuts[pi + 1] if pi + 1 < len(cuts) else len(defs)
                pd, prr = defs[s:e], reps[s:e]
                k = sum(1 for d in pd if d == lf.max_def)
                pv = vals[vpos:vpos + k]
                vpos += k
                pg = {'defs': pd, 'reps': prr, 'values': pv}
                if use_dict and not (enc_plan == 'fallback' and pi == len(cuts) - 1 and pi > 0):
                    pg['encoding'] = 'DICT'
                    pos = {v: i for i, v in enumerate(dictionary)}
                    pg['indices'] = [pos[v] for v in pv]
                    need = max(1, (len(dictionary) - 1).bit_length())
                    pg['index_width'] = need if rng.random() < 0.7 else min(20, need + rng.randrange(0, 8))
                    if len(dictionary) == 1 and rng.random() < 0.5:
                        pg['index_width'] = 0
                else:
                    pg['encoding'] = 'PLAIN'
                    un = feat.get('unsupported')
                    if un == 'DELTA' and lf.ptype in (P.INT32, P.INT64):
                        pg['encoding'] = 'DELTA'
                    elif un in ('DELTA_LEN', 'DELTA_BA') and lf.ptype == P.BYTE_ARRAY:
                        pg['encoding'] = un
                    elif un == 'BSS' and lf.ptype in (P.FLOAT, P.DOUBLE):
                        pg['encoding'] = 'BSS'
                if feat.get('unsupported') == 'v2':
                    pg['v2'] = True
                if feat.get('unsupported') == 'BIT_PACKED_LEVELS':
                    pg['bit_packed_levels'] = True
                if rng.random() < 0.3 and lf.ptype in (P.INT32, P.INT64, P.FLOAT, P.DOUBLE) and pv:
                    pg['stats'] = (min(pv), max(pv), len(pd) - k)   # byte-wise min/max: content is not asserted by C06
                    pg['stats_mode'] = rng.choice(['new', 'deprecated', 'both'])
                pages.append(pg)
            if feat.get('empty_pages', rng.random() < 0.12) and not feat.get('unsupported'):
                # a data page holding no value at all is legal (writers emit one when a flush happens between rows); first, in the middle or last
                ep = {'defs': [], 'reps': [], 'values': [], 'encoding': 'DICT' if (use_dict and dictionary and enc_plan == 'all') else 'PLAIN'}
                if ep['encoding'] == 'DICT':
                    ep['indices'] = []; ep['index_width'] = max(1, (len(dictionary) - 1).bit_length())
                pages.insert(rng.choice([0, len(pages), rng.randrange(len(pages) + 1)]), ep)
            cs = {'pages': pages, 'dictionary': dictionary}
            if vals and rng.random() < 0.5:
                cs['stats'] = (min(vals) if lf.ptype != P.BOOLEAN else bytes([min(vals)]), max(vals) if lf.ptype != P.BOOLEAN else bytes([max(vals)]), len(defs) - nn)
            cols.append(cs)
        groups.append({'num_rows': nrec, 'columns': cols})
    data, leaves, model, info = P.write_file(elems, groups, opt)
    feat_out = {'codec': codec, 'nested': nested, 'level_style': opt.level_style, 'index_style': opt.index_style, 'unknown_fields': opt.unknown_fields, 'long_fields': opt.long_fields,
                'crc': opt.crc, 'stats': opt.stats, 'dict_chunks': info['dict_chunks'], 'pages': info['pages'], 'max_depth': max((len(l.path) for l in leaves), default=0),
                'types': sorted(set(l.ptype for l in leaves)), 'dict_offset_present': opt.dict_offset_present, 'empty_pages': any(not pg['defs'] and not pg['values'] and nrec for g in groups for cs2 in g['columns'] for pg in cs2['pages'])}
    return data, leaves, model, info, feat_out


def write_case(dirpath, name, data, leaves, model):
    pq = os.path.join(dirpath, name + '.parquet')
    td = os.path.join(dirpath, name + '.tdmp')
    with open(pq, 'wb') as f:
        f.write(data)
    P.tdmp_write(td, leaves, model)
    return pq, td


def self_check(data, leaves, model):
    """the reference reader must read back what the reference writer wrote (harness sanity)"""
    f = P.ParquetFile(data)
    pr = f.validate()
    if pr:
        raise RuntimeError('reference writer/reader disagree: %s' % pr[:3])
    for gi, (nrows, cols) in enumerate(model):
        for ci, (defs, reps, vals) in enumerate(cols):
            ch = f.read_chunk(gi, ci)
            if ch.defs != list(defs) or ch.reps != list(reps) or [v if isinstance(v, int) else bytes(v) for v in ch.values] != [v if isinstance(v, int) else bytes(v) for v in vals]:
                raise RuntimeError('reference round trip differs in chunk [%d,%d]' % (gi, ci))


def make_corpus(dirpath, seed, count, nested_share=0.5, features=None, check=True):
    rng = random.Random(seed)
    out = []
    for i in range(count):
        nested = rng.random() < nested_share
        data, leaves, model, info, feat = gen_file(rng, nested, features)
        if check and not (features or {}).get('unsupported') and (features or {}).get('dict_offset_present', True):
            self_check(data, leaves, model)
        pq, td = write_case(dirpath, 'ref_%d_%d' % (seed, i), data, leaves, model)
        out.append((pq, td, feat))
    return out


# ---- runners used by the check scripts --------------------------------------------------------

def run_c02(c, exe, base, scale):
    import vlib
    d = os.path.join(base, 'ref'); os.makedirs(d, exist_ok=True)
    corpus = make_corpus(d, c.seed * 31 + 5, 60 if scale >= 2 else 16, nested_share=0.3)
    # small nested-only files: many tree shapes (groups that close together with their parents, siblings after deep groups) for the
    # projections by index, by leaf name and by dot-separated path
    corpus += make_corpus(d, c.seed * 31 + 6, 60 if scale >= 2 else 20, nested_share=1.0, features={'records': 25, 'ngroups': 1, 'no_repeated': True})
    shards = []
    per = 4
    for i in range(0, len(corpus), per):
        args = ['file', c.seed, scale]
        for pq, td, feat in corpus[i:i + per]:
            args += [pq, td]
        shards.append(args)
    vlib.run_shards(c, exe, shards, cpu_limit=3000)


def run_c03(c, exe, base, scale):
    import vlib
    d = os.path.join(base, 'ref3'); os.makedirs(d, exist_ok=True)
    corpus = make_corpus(d, c.seed * 37 + 11, 40 if scale >= 2 else 10, nested_share=0.0)
    # dictionary chunks whose dictionary_page_offset is absent (data_page_offset points at the dictionary page, as older writers do)
    # and dictionary chunks under every codec: the three I/O paths locate the first data page in three different pieces of code
    corpus += make_corpus(d, c.seed * 37 + 12, 24 if scale >= 2 else 8, nested_share=0.0, features={'dict_offset_present': False, 'dict': True}, check=False)
    corpus += make_corpus(d, c.seed * 37 + 13, 24 if scale >= 2 else 8, nested_share=0.0, features={'dict': True, 'pages': 3})
    c.count('reference_files_with_dictionary_offset_absent', 24 if scale >= 2 else 8)
    shards = []
    for i in range(0, len(corpus), 5):
        shards.append(['file', c.seed, scale] + [pq for pq, td, feat in corpus[i:i + 5]])
    vlib.run_shards(c, exe, shards, cpu_limit=3000)
