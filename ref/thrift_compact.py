"""Generic Thrift compact-protocol codec written from the protocol specification
(thrift/doc/specs/thrift-compact-protocol.md). No carquet code.

Tree representation:
  struct  -> list of (field_id, type, value)           type is one of the T_* constants below
  bool    -> True/False (type T_TRUE/T_FALSE in struct fields; T_TRUE as element type in containers)
  i8/i16/i32/i64 -> int ; double -> bytes(8) (kept bit exact) ; binary -> bytes
  list/set -> (elem_type, [values]) ; map -> (ktype, vtype, [(k, v), ...])
"""
import struct

T_STOP, T_TRUE, T_FALSE, T_BYTE, T_I16, T_I32, T_I64, T_DOUBLE, T_BINARY, T_LIST, T_SET, T_MAP, T_STRUCT, T_UUID = range(14)


class ThriftError(Exception):
    pass


def zigzag(n, bits=64):
    return ((n << 1) ^ (n >> (bits - 1))) & ((1 << bits) - 1)


def unzigzag(u):
    return (u >> 1) ^ -(u & 1)


def enc_varint(u):
    out = bytearray()
    while u >= 0x80:
        out.append((u & 0x7F) | 0x80)
        u >>= 7
    out.append(u)
    return bytes(out)


class Reader:
    def __init__(self, data, pos=0, max_depth=64):
        self.d = data
        self.p = pos
        self.max_depth = max_depth

    def byte(self):
        if self.p >= len(self.d):
            raise ThriftError('truncated')
        b = self.d[self.p]
        self.p += 1
        return b

    def varint(self, maxbytes=10):
        r = 0
        shift = 0
        for _ in range(maxbytes):
            b = self.byte()
            r |= (b & 0x7F) << shift
            if not b & 0x80:
                return r
            shift += 7
        raise ThriftError('varint too long')

    def take(self, n):
        if n < 0 or self.p + n > len(self.d):
            raise ThriftError('truncated binary')
        b = bytes(self.d[self.p:self.p + n])
        self.p += n
        return b

    def value(self, t, depth):
        if t == T_TRUE or t == T_FALSE:       # element of a container: one byte
            b = self.byte()
            return b == 1
        if t == T_BYTE:
            b = self.byte()
            return b - 256 if b >= 128 else b
        if t in (T_I16, T_I32, T_I64):
            v = unzigzag(self.varint())
            bits = 16 if t == T_I16 else 32 if t == T_I32 else 64
            if not -(1 << (bits - 1)) <= v < (1 << (bits - 1)):
                raise ThriftError('i%d value %d out of range (a %d-bit reader truncates it)' % (bits, v, bits))
            return v
        if t == T_DOUBLE:
            return self.take(8)
        if t == T_BINARY:
            return self.take(self.varint())
        if t in (T_LIST, T_SET):
            h = self.byte()
            n = h >> 4
            et = h & 0x0F
            if n == 15:
                n = self.varint()
            if n > len(self.d) - self.p and et not in (T_STOP,):
                # every element needs at least one byte except zero-size structs can't exist (stop byte)
                raise ThriftError('list count exceeds remaining bytes')
            return (et, [self.value(et, depth + 1) for _ in range(n)])
        if t == T_MAP:
            n = self.varint()
            if n == 0:
                return (0, 0, [])
            kv = self.byte()
            kt, vt = kv >> 4, kv & 0x0F
            return (kt, vt, [(self.value(kt, depth + 1), self.value(vt, depth + 1)) for _ in range(n)])
        if t == T_STRUCT:
            return self.struct(depth + 1)
        if t == T_UUID:
            return self.take(16)
        raise ThriftError('unknown type %d' % t)

    def struct(self, depth=0):
        if depth > self.max_depth:
            raise ThriftError('nesting too deep')
        fields = []
        last = 0
        while True:
            h = self.byte()
            if h == 0:
                return fields
            t = h & 0x0F
            delta = h >> 4
            if delta == 0:
                fid = unzigzag(self.varint())
            else:
                fid = last + delta
            last = fid
            if t == T_TRUE:
                fields.append((fid, T_TRUE, True))
            elif t == T_FALSE:
                fields.append((fid, T_FALSE, False))
            else:
                fields.append((fid, t, self.value(t, depth)))


def decode_struct(data, pos=0):
    r = Reader(data, pos)
    s = r.struct()
    return s, r.p


class Writer:
    """long_fields: always use the long field-header form; long_lists: always use the long list-header form."""

    def __init__(self, long_fields=False, long_lists=False, rng=None):
        self.out = bytearray()
        self.long_fields = long_fields
        self.long_lists = long_lists
        self.rng = rng

    def _pick(self, flag):
        if self.rng is not None and flag == 'maybe':
            return self.rng.random() < 0.3
        return bool(flag) and flag != 'maybe'

    def value(self, t, v):
        o = self.out
        if t in (T_TRUE, T_FALSE):
            o.append(1 if v else 2)
        elif t == T_BYTE:
            o.append(v & 0xFF)
        elif t == T_I16:
            o += enc_varint(zigzag(v, 16) if -32768 <= v < 32768 else zigzag(v))
        elif t == T_I32:
            o += enc_varint(zigzag(v, 32) if -2**31 <= v < 2**31 else zigzag(v))
        elif t == T_I64:
            o += enc_varint(zigzag(v, 64))
        elif t == T_DOUBLE:
            o += v if isinstance(v, (bytes, bytearray)) else struct.pack('<d', v)
        elif t == T_BINARY:
            o += enc_varint(len(v)) + bytes(v)
        elif t in (T_LIST, T_SET):
            et, items = v
            if len(items) < 15 and not self._pick(self.long_lists):
                o.append((len(items) << 4) | et)
            else:
                o.append(0xF0 | et)
                o += enc_varint(len(items))
            for it in items:
                self.value(et, it)
        elif t == T_MAP:
            kt, vt, items = v
            if not items:
                o.append(0)
            else:
                o += enc_varint(len(items))
                o.append((kt << 4) | vt)
                for k, x in items:
                    self.value(kt, k)
                    self.value(vt, x)
        elif t == T_STRUCT:
            self.struct(v)
        elif t == T_UUID:
            o += bytes(v)
        else:
            raise ThriftError('cannot encode type %r' % t)

    def struct(self, fields):
        last = 0
        for fid, t, v in fields:
            if t in (T_TRUE, T_FALSE):
                t = T_TRUE if v else T_FALSE
            delta = fid - last
            if 0 < delta <= 15 and not self._pick(self.long_fields):
                self.out.append((delta << 4) | t)
            else:
                self.out.append(t)
                self.out += enc_varint(zigzag(fid, 16))
            last = fid
            if t not in (T_TRUE, T_FALSE):
                self.value(t, v)
        self.out.append(0)


def encode_struct(fields, **kw):
    w = Writer(**kw)
    w.struct(fields)
    return bytes(w.out)


# convenience accessors on the generic tree -------------------------------------------------
def fget(fields, fid, default=None):
    for f, t, v in fields:
        if f == fid:
            return v
    return default


def fhas(fields, fid):
    return any(f == fid for f, t, v in fields)


def ftype(fields, fid):
    for f, t, v in fields:
        if f == fid:
            return t
    return None
