"""Independent Parquet reader (strict) and writer, written from parquet-format (parquet.thrift,
README, Encodings.md, Compression.md). Shares no code with carquet.

Value representation: fixed-width physical types are raw little-endian byte strings (bit exact),
BOOLEAN values are 0/1 ints, BYTE_ARRAY values are bytes."""
import struct, zlib, random
from thrift_compact import (decode_struct, encode_struct, fget, fhas, ftype, ThriftError, Writer,
                            T_TRUE, T_FALSE, T_BYTE, T_I16, T_I32, T_I64, T_DOUBLE, T_BINARY, T_LIST, T_SET, T_MAP, T_STRUCT)
import encodings_ref as E
import codecs_ref as C

BOOLEAN, INT32, INT64, INT96, FLOAT, DOUBLE, BYTE_ARRAY, FLBA = range(8)
REQUIRED, OPTIONAL, REPEATED = 0, 1, 2
ENC_PLAIN, ENC_PLAIN_DICT, ENC_RLE, ENC_BIT_PACKED, ENC_DELTA, ENC_DELTA_LEN, ENC_DELTA_BA, ENC_RLE_DICT, ENC_BSS = 0, 2, 3, 4, 5, 6, 7, 8, 9
PAGE_DATA, PAGE_INDEX, PAGE_DICT, PAGE_DATA_V2 = 0, 1, 2, 3
WIDTH = {INT32: 4, INT64: 8, INT96: 12, FLOAT: 4, DOUBLE: 8}


class ParquetError(Exception):
    pass


class Leaf:
    __slots__ = ('name', 'path', 'ptype', 'type_length', 'repetition', 'max_def', 'max_rep', 'elem_index', 'logical', 'converted')

    def width(self):
        return self.type_length if self.ptype == FLBA else WIDTH.get(self.ptype, 0)


def schema_leaves(elems):
    """elems: list of dicts(name, type, type_length, repetition, num_children). Strict DFS: every subtree consumed exactly."""
    leaves = []
    if not elems:
        raise ParquetError('empty schema')
    pos = [1]

    def walk(nchildren, path, d, r):
        for _ in range(nchildren):
            if pos[0] >= len(elems):
                raise ParquetError('schema: num_children exceeds element list')
            idx = pos[0]
            e = elems[idx]
            pos[0] += 1
            rep = e.get('repetition')
            if rep is None:
                raise ParquetError('schema: non-root element without repetition_type')
            d2 = d + (1 if rep in (OPTIONAL, REPEATED) else 0)
            r2 = r + (1 if rep == REPEATED else 0)
            nc = e.get('num_children') or 0
            if e.get('type') is None:
                if nc <= 0:
                    raise ParquetError('schema: group without children')
                walk(nc, path + [e['name']], d2, r2)
            else:
                if nc:
                    raise ParquetError('schema: leaf with children')
                lf = Leaf()
                lf.name = e['name']; lf.path = path + [e['name']]; lf.ptype = e['type']; lf.type_length = e.get('type_length') or 0
                lf.repetition = rep; lf.max_def = d2; lf.max_rep = r2; lf.elem_index = idx
                lf.logical = e.get('logical'); lf.converted = e.get('converted_type')
                leaves.append(lf)
    walk(elems[0].get('num_children') or 0, [], 0, 0)
    if pos[0] != len(elems):
        raise ParquetError('schema: %d elements not reachable from the root' % (len(elems) - pos[0]))
    return leaves


def _elem_from_tree(t):
    return {'type': fget(t, 1), 'type_length': fget(t, 2), 'repetition': fget(t, 3), 'name': (fget(t, 4) or b'').decode('utf-8', 'surrogateescape') if fhas(t, 4) else None,
            'name_raw': fget(t, 4), 'num_children': fget(t, 5), 'converted_type': fget(t, 6), 'scale': fget(t, 7), 'precision': fget(t, 8), 'field_id': fget(t, 9), 'logical': fget(t, 10)}


class Page:
    pass


class Chunk:
    pass


class ParquetFile:
    def __init__(self, data):
        self.data = bytes(data)
        self.problems = []
        d = self.data
        if len(d) < 12:
            raise ParquetError('file shorter than 12 bytes')
        if d[:4] != b'PAR1':
            raise ParquetError('leading magic missing')
        if d[-4:] != b'PAR1':
            raise ParquetError('trailing magic missing')
        flen = struct.unpack('<I', d[-8:-4])[0]
        if flen == 0 or flen > len(d) - 12:
            raise ParquetError('footer length %d out of range' % flen)
        self.footer_start = len(d) - 8 - flen
        try:
            tree, end = decode_struct(d[:len(d) - 8], self.footer_start)
        except ThriftError as e:
            raise ParquetError('footer thrift: %s' % e)
        if end != len(d) - 8:
            self.problems.append('footer thrift consumed %d of %d bytes' % (end - self.footer_start, flen))
        self.tree = tree
        for fid, nm in ((1, 'version'), (2, 'schema'), (3, 'num_rows'), (4, 'row_groups')):
            if not fhas(tree, fid):
                raise ParquetError('FileMetaData.%s missing' % nm)
        # a field id carrying another wire type is not that field (and a strict reader refuses the footer)
        for fid, nm, wt in ((1, 'version', 5), (2, 'schema', 9), (3, 'num_rows', 6), (4, 'row_groups', 9)):
            got = [t for f2, t, v in tree if f2 == fid]
            if got and got[0] != wt:
                raise ParquetError('FileMetaData.%s has wire type %d, expected %d' % (nm, got[0], wt))
        for fid, nm in ((2, 'schema'), (4, 'row_groups'), (5, 'key_value_metadata')):
            got = [v for f2, t, v in tree if f2 == fid and t == 9]
            if got and got[0][1] and got[0][0] != 12:      # (an empty list carries no element and says nothing)
                raise ParquetError('FileMetaData.%s is a list of wire type %d, expected structs' % (nm, got[0][0]))
        try:
            self._interpret(tree)
        except ParquetError:
            raise
        except (TypeError, ValueError, IndexError, KeyError, AttributeError) as e:
            raise ParquetError('footer: field of unexpected type or shape (%s: %s)' % (type(e).__name__, e))

    def _interpret(self, tree):
        self.version = fget(tree, 1)
        self.num_rows = fget(tree, 3)
        self.created_by = fget(tree, 6)
        et, sl = fget(tree, 2)
        self.elements = [_elem_from_tree(x) for x in sl]
        for i, e in enumerate(self.elements):
            if e['name_raw'] is None:
                raise ParquetError('SchemaElement[%d].name missing' % i)
        self.leaves = schema_leaves(self.elements)
        self.row_groups = []
        for gi, rg in enumerate(fget(tree, 4)[1]):
            for fid, nm in ((1, 'columns'), (2, 'total_byte_size'), (3, 'num_rows')):
                if not fhas(rg, fid):
                    raise ParquetError('RowGroup[%d].%s missing' % (gi, nm))
            cols = []
            for ci, cc in enumerate(fget(rg, 1)[1]):
                md = fget(cc, 3)
                if md is None:
                    raise ParquetError('ColumnChunk[%d,%d].meta_data missing' % (gi, ci))
                for fid, nm in ((1, 'type'), (2, 'encodings'), (3, 'path_in_schema'), (4, 'codec'), (5, 'num_values'), (6, 'total_uncompressed_size'), (7, 'total_compressed_size'), (9, 'data_page_offset')):
                    if not fhas(md, fid):
                        raise ParquetError('ColumnMetaData[%d,%d].%s missing' % (gi, ci, nm))
                if not fhas(cc, 2):
                    self.problems.append('ColumnChunk[%d,%d].file_offset missing' % (gi, ci))
                cols.append({'tree': cc, 'md': md, 'type': fget(md, 1), 'encodings': fget(md, 2)[1], 'path': [p.decode('utf-8', 'surrogateescape') for p in fget(md, 3)[1]],
                             'codec': fget(md, 4), 'num_values': fget(md, 5), 'total_uncompressed_size': fget(md, 6), 'total_compressed_size': fget(md, 7),
                             'data_page_offset': fget(md, 9), 'dictionary_page_offset': fget(md, 11), 'statistics': fget(md, 12), 'file_offset': fget(cc, 2)})
            self.row_groups.append({'tree': rg, 'columns': cols, 'total_byte_size': fget(rg, 2), 'num_rows': fget(rg, 3), 'file_offset': fget(rg, 5), 'total_compressed_size': fget(rg, 6), 'ordinal': fget(rg, 7)})

    # -----------------------------------------------------------------------------------------
    def chunk_start(self, col):
        dpo = col['dictionary_page_offset']
        if dpo is not None and dpo > 0:
            return dpo
        return col['data_page_offset']

    def parse_page_header(self, off):
        try:
            t, end = decode_struct(self.data[:self.footer_start], off)
        except ThriftError as e:
            raise ParquetError('page header at %d: %s' % (off, e))
        for fid, nm in ((1, 'type'), (2, 'uncompressed_page_size'), (3, 'compressed_page_size')):
            if not fhas(t, fid):
                raise ParquetError('PageHeader.%s missing at %d' % (nm, off))
        p = Page()
        p.offset = off; p.header_size = end - off; p.tree = t; p.type = fget(t, 1); p.uncomp = fget(t, 2); p.comp = fget(t, 3)
        p.crc = fget(t, 4); p.body = end
        p.dph = fget(t, 5); p.dict = fget(t, 7); p.v2 = fget(t, 8)
        if p.comp < 0 or p.uncomp < 0 or p.body + p.comp > self.footer_start:
            raise ParquetError('page at %d: sizes out of range' % off)
        return p

    def pages_of(self, gi, ci):
        col = self.row_groups[gi]['columns'][ci]
        start = self.chunk_start(col)
        end = start + col['total_compressed_size']
        if start < 4 or end > self.footer_start or col['total_compressed_size'] < 0:
            raise ParquetError('chunk [%d,%d] range [%d,%d) outside the data region' % (gi, ci, start, end))
        pages = []
        off = start
        while off < end:
            p = self.parse_page_header(off)
            pages.append(p)
            off = p.body + p.comp
        if off != end:
            raise ParquetError('chunk [%d,%d]: pages end at %d, chunk ends at %d' % (gi, ci, off, end))
        return pages

    def read_chunk(self, gi, ci, check_crc=True):
        """Decode one chunk. Returns Chunk(def_levels, rep_levels, values, pages, problems)."""
        col = self.row_groups[gi]['columns'][ci]
        lf = self.leaves[ci]
        ch = Chunk()
        ch.leaf = lf; ch.pages = self.pages_of(gi, ci); ch.defs = []; ch.reps = []; ch.values = []; ch.problems = []; ch.page_stats = []; ch.page_rows = []
        dictionary = None
        used_enc = set()
        total_vals = 0
        sum_uncomp_payload = 0
        sum_uncomp_with_hdr = 0
        for pi, p in enumerate(ch.pages):
            body = self.data[p.body:p.body + p.comp]
            if p.crc is not None and check_crc:
                if (zlib.crc32(body) & 0xFFFFFFFF) != (p.crc & 0xFFFFFFFF):
                    ch.problems.append('page %d: CRC mismatch' % pi)
            try:
                if p.type == PAGE_DATA_V2:
                    raise ParquetError('data page v2 not produced by the writers under test')
                raw = C.decompress(col['codec'], body, p.uncomp)
            except C.CodecError as e:
                raise ParquetError('chunk [%d,%d] page %d: %s' % (gi, ci, pi, e))
            if len(raw) != p.uncomp:
                ch.problems.append('page %d: uncompressed_page_size %d but payload decompresses to %d' % (pi, p.uncomp, len(raw)))
            sum_uncomp_payload += p.uncomp
            sum_uncomp_with_hdr += p.uncomp + p.header_size
            if p.type == PAGE_DICT:
                if pi != 0:
                    ch.problems.append('dictionary page not first')
                dh = p.dict
                if dh is None or not fhas(dh, 1) or not fhas(dh, 2):
                    raise ParquetError('DictionaryPageHeader incomplete')
                used_enc.add(fget(dh, 2))
                if fget(dh, 2) not in (ENC_PLAIN, ENC_PLAIN_DICT):
                    raise ParquetError('dictionary page encoding %r' % fget(dh, 2))
                dictionary, pos = E.plain_decode(raw, lf.ptype, lf.type_length, fget(dh, 1))
                continue
            if p.type != PAGE_DATA:
                raise ParquetError('unexpected page type %r' % p.type)
            h = p.dph
            if h is None:
                raise ParquetError('data page without DataPageHeader')
            for fid, nm in ((1, 'num_values'), (2, 'encoding'), (3, 'definition_level_encoding'), (4, 'repetition_level_encoding')):
                if not fhas(h, fid):
                    raise ParquetError('DataPageHeader.%s missing' % nm)
            n = fget(h, 1)
            enc = fget(h, 2)
            used_enc.add(enc)
            pos = 0
            reps = [0] * n
            defs = [lf.max_def] * n
            for which, mx, encf in (('rep', lf.max_rep, fget(h, 4)), ('def', lf.max_def, fget(h, 3))):
                if mx == 0:
                    continue
                used_enc.add(encf)
                w = mx.bit_length()
                if encf == ENC_RLE:
                    if pos + 4 > len(raw):
                        raise ParquetError('page %d: %s level length truncated' % (pi, which))
                    L = struct.unpack_from('<I', raw, pos)[0]
                    pos += 4
                    if pos + L > len(raw):
                        raise ParquetError('page %d: %s levels exceed the page' % (pi, which))
                    try:
                        lv, _ = E.rle_decode(raw, w, n, pos, pos + L)
                    except ValueError as e:
                        raise ParquetError('page %d: %s levels: %s' % (pi, which, e))
                    pos += L
                elif encf == ENC_BIT_PACKED:
                    raise ParquetError('BIT_PACKED levels not produced by the writers under test')
                else:
                    raise ParquetError('level encoding %r' % encf)
                if any(x > mx for x in lv):
                    ch.problems.append('page %d: %s level above maximum' % (pi, which))
                if which == 'rep':
                    reps = lv
                else:
                    defs = lv
            nn = sum(1 for x in defs if x == lf.max_def)
            try:
                if enc == ENC_PLAIN:
                    vals, pos = E.plain_decode(raw, lf.ptype, lf.type_length, nn, pos)
                elif enc in (ENC_PLAIN_DICT, ENC_RLE_DICT):
                    if dictionary is None:
                        raise ParquetError('dictionary-encoded page without dictionary')
                    if pos >= len(raw) and nn:
                        raise ParquetError('page %d: index bit width missing' % pi)
                    bw = raw[pos] if pos < len(raw) else 0
                    pos += 1
                    idx, pos = E.rle_decode(raw, bw, nn, pos)
                    if any(i >= len(dictionary) for i in idx):
                        raise ParquetError('dictionary index out of range')
                    vals = [dictionary[i] for i in idx]
                elif enc == ENC_DELTA:
                    ints, pos = E.delta_decode(raw, pos, 32 if lf.ptype == INT32 else 64, nn)
                    vals = [struct.pack('<i' if lf.ptype == INT32 else '<q', v) for v in ints]
                elif enc == ENC_DELTA_LEN:
                    vals, pos = E.delta_length_decode(raw, nn, pos)
                elif enc == ENC_DELTA_BA:
                    vals, pos = E.delta_strings_decode(raw, nn, pos)
                elif enc == ENC_BSS:
                    vals, pos = E.bss_decode(raw, nn, lf.width(), pos)
                else:
                    raise ParquetError('value encoding %r' % enc)
            except ValueError as e:
                raise ParquetError('chunk [%d,%d] page %d values: %s' % (gi, ci, pi, e))
            ch.defs.extend(defs); ch.reps.extend(reps); ch.values.extend(vals)
            ch.page_stats.append((fget(h, 5), defs, vals))
            ch.page_rows.append(n)
            total_vals += n
        ch.used_encodings = used_enc
        ch.sum_uncomp_payload = sum_uncomp_payload
        ch.sum_uncomp_with_hdr = sum_uncomp_with_hdr
        ch.total_values = total_vals
        return ch

    # -----------------------------------------------------------------------------------------
    def validate(self):
        """Structural rules of C05. Returns list of problem strings (empty = valid)."""
        pr = list(self.problems)
        nleaves = len(self.leaves)
        expect = 4
        rows_sum = 0
        for gi, rg in enumerate(self.row_groups):
            if len(rg['columns']) != nleaves:
                pr.append('row group %d has %d chunks for %d leaf columns' % (gi, len(rg['columns']), nleaves))
                continue
            rows_sum += rg['num_rows']
            comp_sum = 0
            unc_payload = 0
            unc_hdr = 0
            first = None
            for ci, col in enumerate(rg['columns']):
                lf = self.leaves[ci]
                start = self.chunk_start(col)
                if first is None:
                    first = start
                if col['total_compressed_size'] == 0 and col['num_values'] == 0:
                    start = expect          # an empty chunk occupies no bytes; its offsets are not constrained
                if start != expect:
                    pr.append('chunk [%d,%d] starts at %d, previous data ended at %d (gap or overlap)' % (gi, ci, start, expect))
                if col['type'] != lf.ptype:
                    pr.append('chunk [%d,%d] type %r differs from schema type %r' % (gi, ci, col['type'], lf.ptype))
                if col['path'] != lf.path:
                    pr.append('chunk [%d,%d] path_in_schema %r differs from %r' % (gi, ci, col['path'], lf.path))
                if col['codec'] not in (0, 1, 2, 5, 6, 7):
                    pr.append('chunk [%d,%d] codec tag %r' % (gi, ci, col['codec']))
                try:
                    ch = self.read_chunk(gi, ci)
                except ParquetError as e:
                    pr.append(str(e))
                    expect = start + max(col['total_compressed_size'], 0)
                    continue
                pr.extend('chunk [%d,%d] %s' % (gi, ci, x) for x in ch.problems)
                if ch.total_values != col['num_values']:
                    pr.append('chunk [%d,%d]: pages hold %d values, metadata says %d' % (gi, ci, ch.total_values, col['num_values']))
                nrows = sum(1 for r in ch.reps if r == 0)
                if nrows != rg['num_rows']:
                    pr.append('chunk [%d,%d]: %d rows, row group says %d' % (gi, ci, nrows, rg['num_rows']))
                if not ch.used_encodings <= set(col['encodings']):
                    pr.append('chunk [%d,%d]: encodings used %r not all listed in %r' % (gi, ci, sorted(ch.used_encodings), col['encodings']))
                if ch.pages:
                    dp = [p for p in ch.pages if p.type in (PAGE_DATA, PAGE_DATA_V2)]
                    if dp and col['data_page_offset'] != dp[0].offset:
                        pr.append('chunk [%d,%d]: data_page_offset %d but first data page at %d' % (gi, ci, col['data_page_offset'], dp[0].offset))
                    if ch.pages[0].type == PAGE_DICT and col['dictionary_page_offset'] not in (None, ch.pages[0].offset):
                        pr.append('chunk [%d,%d]: dictionary_page_offset wrong' % (gi, ci))
                if col['total_uncompressed_size'] not in (ch.sum_uncomp_payload, ch.sum_uncomp_with_hdr):
                    pr.append('chunk [%d,%d]: total_uncompressed_size %d matches neither payload sum %d nor payload+header sum %d' % (gi, ci, col['total_uncompressed_size'], ch.sum_uncomp_payload, ch.sum_uncomp_with_hdr))
                fo = col['file_offset']
                if fo is not None and not (0 <= fo <= len(self.data)):
                    pr.append('chunk [%d,%d]: file_offset %d outside the file' % (gi, ci, fo))
                comp_sum += col['total_compressed_size']; unc_payload += ch.sum_uncomp_payload; unc_hdr += ch.sum_uncomp_with_hdr
                expect = start + col['total_compressed_size']
            if rg['total_byte_size'] not in (unc_payload, unc_hdr):
                pr.append('row group %d: total_byte_size %d matches neither uncompressed payload sum %d nor payload+header sum %d' % (gi, rg['total_byte_size'], unc_payload, unc_hdr))
            if rg['total_compressed_size'] is not None and rg['total_compressed_size'] != comp_sum:
                pr.append('row group %d: total_compressed_size %d, chunks sum to %d' % (gi, rg['total_compressed_size'], comp_sum))
            if rg['file_offset'] is not None and rg['columns'] and comp_sum > 0 and rg['file_offset'] != first:
                pr.append('row group %d: file_offset %d, first chunk at %d' % (gi, rg['file_offset'], first))
            if rg['ordinal'] is not None and rg['ordinal'] != gi:
                pr.append('row group %d: ordinal %d' % (gi, rg['ordinal']))
        if expect != self.footer_start:
            pr.append('data region ends at %d but the footer starts at %d' % (expect, self.footer_start))
        if rows_sum != self.num_rows:
            pr.append('row groups hold %d rows, file says %d' % (rows_sum, self.num_rows))
        return pr


# ================================================================================================
# TDMP interchange with the C drivers

def tdmp_write(path, leaves, groups):
    """leaves: list of Leaf; groups: list of (num_rows, [ (defs, reps, values) per leaf ])"""
    out = bytearray(b'TDMP1\n')
    out += struct.pack('<II', len(leaves), len(groups))
    for lf in leaves:
        nm = lf.name.encode('utf-8', 'surrogateescape')
        out += struct.pack('<BiBhhH', lf.ptype, lf.type_length or 0, lf.repetition, lf.max_def, lf.max_rep, len(nm)) + nm
    for nrows, cols in groups:
        out += struct.pack('<q', nrows)
        for lf, (defs, reps, vals) in zip(leaves, cols):
            out += struct.pack('<q', len(defs)) + struct.pack('<%dh' % len(defs), *defs) + struct.pack('<%dh' % len(reps), *reps) + struct.pack('<q', len(vals))
            if lf.ptype == BYTE_ARRAY:
                for v in vals:
                    out += struct.pack('<I', len(v)) + bytes(v)
            elif lf.ptype == BOOLEAN:
                out += bytes(1 if v else 0 for v in vals)
            else:
                out += b''.join(bytes(v) for v in vals)
    with open(path, 'wb') as f:
        f.write(out)


def tdmp_read(path):
    b = open(path, 'rb').read()
    if b[:6] != b'TDMP1\n':
        raise ValueError('bad TDMP')
    p = 6
    nc, ng = struct.unpack_from('<II', b, p); p += 8
    cols = []
    for _ in range(nc):
        ty, tl, rp, md, mr, nl = struct.unpack_from('<BiBhhH', b, p); p += struct.calcsize('<BiBhhH')
        nm = b[p:p + nl]; p += nl
        cols.append({'type': ty, 'type_length': tl, 'repetition': rp, 'max_def': md, 'max_rep': mr, 'name': nm})
    groups = []
    for _ in range(ng):
        nrows = struct.unpack_from('<q', b, p)[0]; p += 8
        cc = []
        for c in cols:
            nl = struct.unpack_from('<q', b, p)[0]; p += 8
            defs = list(struct.unpack_from('<%dh' % nl, b, p)); p += 2 * nl
            reps = list(struct.unpack_from('<%dh' % nl, b, p)); p += 2 * nl
            nv = struct.unpack_from('<q', b, p)[0]; p += 8
            if c['type'] == BYTE_ARRAY:
                vals = []
                for _ in range(nv):
                    L = struct.unpack_from('<I', b, p)[0]; p += 4
                    vals.append(b[p:p + L]); p += L
            elif c['type'] == BOOLEAN:
                vals = list(b[p:p + nv]); p += nv
            else:
                w = c['type_length'] if c['type'] == FLBA else WIDTH[c['type']]
                vals = [b[p + i * w:p + (i + 1) * w] for i in range(nv)]; p += w * nv
            cc.append((defs, reps, vals))
        groups.append((nrows, cc))
    return cols, groups


# ================================================================================================
# writer

class WriteOptions:
    def __init__(self, **kw):
        self.codec = 0
        self.crc = True
        self.long_fields = False          # False | True | 'maybe'
        self.long_lists = False
        self.unknown_fields = False       # sprinkle unknown fields of every wire type into every struct
        self.dict_offset_present = True
        self.stats = 'none'               # none | new | deprecated | both   (chunk-level statistics)
        self.page_stats = False
        self.level_style = 'greedy'
        self.index_style = 'greedy'
        self.dict_encoding = ENC_PLAIN_DICT   # encoding tag of the dictionary page (PLAIN_DICTIONARY or PLAIN)
        self.index_encoding = ENC_RLE_DICT    # encoding tag of dictionary-encoded data pages
        self.created_by = b'verif reference writer'
        self.kv = None
        self.rng = random.Random(0)
        self.version = 1
        self.v2_pages = False
        self.__dict__.update(kw)


def _unknown(rng, base):
    """unknown fields of every wire type, ids >= base (far from modelled ids => also exercises long-form headers)"""
    f = []
    fid = base
    def nxt(step=None):
        nonlocal fid
        fid += step if step else rng.choice([1, 2, 16, 40, 300])
        return fid
    f.append((nxt(17), T_TRUE, True)); f.append((nxt(), T_FALSE, False)); f.append((nxt(), T_BYTE, -7)); f.append((nxt(), T_I16, -12345)); f.append((nxt(), T_I32, 2**31 - 1))
    f.append((nxt(), T_I64, -2**63)); f.append((nxt(), T_DOUBLE, struct.pack('<d', 3.5))); f.append((nxt(), T_BINARY, b'unknown\x00bytes'))
    f.append((nxt(), T_LIST, (T_I32, [1, 2, 3])))
    f.append((nxt(), T_LIST, (T_TRUE, [True, False, True])))
    f.append((nxt(), T_LIST, (T_STRUCT, [[(1, T_I32, 5)], [(2, T_BINARY, b'x'), (3, T_LIST, (T_I64, list(range(20))))]])))
    f.append((nxt(), T_SET, (T_BINARY, [b'a', b'bb'])))
    f.append((nxt(), T_MAP, (T_BINARY, T_I32, [(b'k', 1), (b'kk', 2)])))
    f.append((nxt(), T_MAP, (T_I32, T_STRUCT, [])))
    f.append((nxt(), T_STRUCT, [(1, T_STRUCT, [(1, T_STRUCT, [(5, T_I32, 1)])]), (2, T_LIST, (T_LIST, [(T_I32, [1]), (T_I32, [])]))]))
    return f


def _stats_tree(mn, mx, nulls, mode):
    f = []
    if mode in ('deprecated', 'both') and mn is not None:
        f.append((1, T_BINARY, mx)); f.append((2, T_BINARY, mn))
    if nulls is not None:
        f.append((3, T_I64, nulls))
    if mode in ('new', 'both') and mn is not None:
        f.append((5, T_BINARY, mx)); f.append((6, T_BINARY, mn))
    return f


def write_file(elements, groups, opt):
    """elements: schema dicts in DFS order (root first). groups: list of dict(num_rows, columns=[colspec]).
    colspec: dict(pages=[dict(defs, reps, values, encoding='PLAIN'|'DICT'|int, indices=optional)], dictionary=list|None, stats=(min,max,nulls)|None)
    Returns (file bytes, leaves, model groups for TDMP, info)."""
    rng = opt.rng
    leaves = schema_leaves(elements)
    out = bytearray(b'PAR1')
    tw = dict(long_fields=opt.long_fields, long_lists=opt.long_lists, rng=rng)
    rg_trees = []
    model = []
    info = {'pages': 0, 'dict_chunks': 0, 'page_ranges': []}
    total_rows = 0
    for gi, g in enumerate(groups):
        col_trees = []
        mcols = []
        rg_start = len(out)
        rg_unc = 0
        for ci, (lf, cs) in enumerate(zip(leaves, g['columns'])):
            chunk_start = len(out)
            dict_off = None
            encs = set()
            unc_total = 0
            nvals_total = 0
            mdefs, mreps, mvals = [], [], []
            if cs.get('dictionary') is not None:
                raw = E.plain_encode(cs['dictionary'], lf.ptype, lf.type_length)
                body = C.compress(opt.codec, raw)
                hdr = [(1, T_I32, PAGE_DICT), (2, T_I32, len(raw)), (3, T_I32, len(body))]
                if opt.crc:
                    hdr.append((4, T_I32, _i32(zlib.crc32(body))))
                dh = [(1, T_I32, len(cs['dictionary'])), (2, T_I32, opt.dict_encoding)]
                if rng.random() < 0.5:
                    dh.append((3, T_FALSE, False))
                if opt.unknown_fields:
                    dh += _unknown(rng, 10)
                hdr.append((7, T_STRUCT, dh))
                if opt.unknown_fields:
                    hdr += _unknown(rng, 20)
                hb = encode_struct(hdr, **tw)
                dict_off = len(out)
                info['page_ranges'].append((gi, ci, 'dict', len(out) + len(hb), len(body)))
                out += hb + body
                encs.add(opt.dict_encoding)
                unc_total += len(raw) + len(hb)
                info['dict_chunks'] += 1
            first_data = None
            for pg in cs['pages']:
                defs = pg['defs']; reps = pg['reps']; vals = pg['values']
                n = len(defs)
                raw = bytearray()
                def _bit_packed_deprecated(levels, mx):
                    # the deprecated BIT_PACKED level encoding: fixed width, values packed from the most significant bit, no length prefix
                    w = mx.bit_length(); acc = 0; nb = 0; out = bytearray()
                    for x in levels:
                        acc = (acc << w) | x; nb += w
                        while nb >= 8:
                            out.append((acc >> (nb - 8)) & 0xFF); nb -= 8; acc &= (1 << nb) - 1
                    if nb:
                        out.append((acc << (8 - nb)) & 0xFF)
                    return bytes(out)
                if lf.max_rep > 0:
                    raw += _bit_packed_deprecated(reps, lf.max_rep) if pg.get('bit_packed_levels') else E.levels_v1(reps, lf.max_rep, pg.get('level_style', opt.level_style), rng)
                if lf.max_def > 0:
                    raw += _bit_packed_deprecated(defs, lf.max_def) if pg.get('bit_packed_levels') else E.levels_v1(defs, lf.max_def, pg.get('level_style', opt.level_style), rng)
                enc = pg.get('encoding', 'PLAIN')
                if enc == 'PLAIN':
                    raw += E.plain_encode(vals, lf.ptype, lf.type_length); enc_tag = ENC_PLAIN
                elif enc == 'DICT':
                    d = cs['dictionary']
                    idx = pg['indices']
                    bw = pg.get('index_width', max(1, (len(d) - 1).bit_length()) if len(d) > 0 else 0)
                    raw += bytes([bw]) + E.rle_encode(idx, bw, pg.get('index_style', opt.index_style), rng)
                    enc_tag = opt.index_encoding
                elif enc == 'DELTA':
                    bits = 32 if lf.ptype == INT32 else 64
                    raw += E.delta_encode([struct.unpack('<i' if bits == 32 else '<q', v)[0] for v in vals], bits); enc_tag = ENC_DELTA
                elif enc == 'DELTA_LEN':
                    raw += E.delta_length_encode(vals); enc_tag = ENC_DELTA_LEN
                elif enc == 'DELTA_BA':
                    raw += E.delta_strings_encode(vals); enc_tag = ENC_DELTA_BA
                elif enc == 'BSS':
                    raw += E.bss_encode(vals, lf.width()); enc_tag = ENC_BSS
                else:
                    raise ValueError(enc)
                raw = bytes(raw)
                ptype = PAGE_DATA_V2 if pg.get('v2') else PAGE_DATA
                if pg.get('v2'):
                    # v2 layout: rep levels, def levels (RLE without length prefix, never compressed), then the values section
                    rl = E.rle_encode(reps, lf.max_rep.bit_length(), 'greedy') if lf.max_rep > 0 else b''
                    dl = E.rle_encode(defs, lf.max_def.bit_length(), 'greedy') if lf.max_def > 0 else b''
                    lv1 = (E.levels_v1(reps, lf.max_rep, pg.get('level_style', opt.level_style), None) if lf.max_rep > 0 else b'') if False else b''
                    skip = 0
                    if lf.max_rep > 0:
                        skip += 4 + struct.unpack_from('<I', raw, skip)[0]
                    if lf.max_def > 0:
                        skip += 4 + struct.unpack_from('<I', raw, skip)[0]
                    vsec = raw[skip:]
                    raw = rl + dl + vsec
                    body = rl + dl + C.compress(opt.codec, vsec)
                else:
                    body = C.compress(opt.codec, raw)
                hdr = [(1, T_I32, ptype), (2, T_I32, len(raw)), (3, T_I32, len(body))]
                if opt.crc:
                    hdr.append((4, T_I32, _i32(zlib.crc32(body))))
                if pg.get('v2'):
                    nn = sum(1 for x in defs if x == lf.max_def)
                    dp = [(1, T_I32, n), (2, T_I32, n - nn), (3, T_I32, sum(1 for r in reps if r == 0)), (4, T_I32, enc_tag), (5, T_I32, len(dl)), (6, T_I32, len(rl)), (7, T_TRUE, opt.codec != 0)]
                    hdr.append((8, T_STRUCT, dp))
                else:
                    lenc = ENC_BIT_PACKED if pg.get('bit_packed_levels') else ENC_RLE
                    dp = [(1, T_I32, n), (2, T_I32, enc_tag), (3, T_I32, lenc), (4, T_I32, lenc)]
                    if pg.get('stats') is not None:
                        mn, mx, nulls = pg['stats']
                        dp.append((5, T_STRUCT, _stats_tree(mn, mx, nulls, pg.get('stats_mode', 'new'))))
                    if opt.unknown_fields:
                        dp += _unknown(rng, 10)
                    hdr.append((5, T_STRUCT, dp))
                if opt.unknown_fields:
                    hdr += _unknown(rng, 20)
                hb = encode_struct(hdr, **tw)
                if first_data is None:
                    first_data = len(out)
                info['page_ranges'].append((gi, ci, 'data', len(out) + len(hb), len(body)))
                out += hb + body
                encs.add(enc_tag)
                if lf.max_def > 0 or lf.max_rep > 0:
                    encs.add(ENC_RLE)
                unc_total += len(raw) + len(hb)
                nvals_total += n
                mdefs += list(defs); mreps += list(reps); mvals += list(vals)
                info['pages'] += 1
            if first_data is None:
                first_data = len(out)
            comp_total = len(out) - chunk_start
            md = [(1, T_I32, lf.ptype), (2, T_LIST, (T_I32, sorted(encs) or [ENC_PLAIN])), (3, T_LIST, (T_BINARY, [p.encode('utf-8', 'surrogateescape') for p in lf.path])),
                  (4, T_I32, opt.codec if getattr(opt, 'codec_tag', None) is None else opt.codec_tag), (5, T_I64, nvals_total), (6, T_I64, unc_total), (7, T_I64, comp_total)]
            if opt.unknown_fields and rng.random() < 0.5:
                md.append((8, T_LIST, (T_STRUCT, [[(1, T_BINARY, b'k'), (2, T_BINARY, b'v')]])))
            md.append((9, T_I64, first_data if (dict_off is None or opt.dict_offset_present) else dict_off))
            if dict_off is not None and opt.dict_offset_present:
                md.append((11, T_I64, dict_off))
            if cs.get('stats') is not None and opt.stats != 'none':
                mn, mx, nulls = cs['stats']
                md.append((12, T_STRUCT, _stats_tree(mn, mx, nulls, opt.stats)))
            if opt.unknown_fields:
                md += _unknown(rng, 30)
            cc = [(2, T_I64, chunk_start), (3, T_STRUCT, md)]
            if opt.unknown_fields:
                cc += _unknown(rng, 20)
            col_trees.append(cc)
            mcols.append((mdefs, mreps, mvals))
            rg_unc += unc_total
        rgt = [(1, T_LIST, (T_STRUCT, col_trees)), (2, T_I64, rg_unc), (3, T_I64, g['num_rows'])]
        if rng.random() < 0.7:
            rgt += [(5, T_I64, rg_start), (6, T_I64, len(out) - rg_start), (7, T_I16, gi)]
        if opt.unknown_fields:
            rgt += _unknown(rng, 20)
        rg_trees.append(rgt)
        model.append((g['num_rows'], mcols))
        total_rows += g['num_rows']
    selems = []
    for e in elements:
        t = []
        if e.get('type') is not None:
            t.append((1, T_I32, e['type']))
            if e.get('type_length'):
                t.append((2, T_I32, e['type_length']))
        if e.get('repetition') is not None:
            t.append((3, T_I32, e['repetition']))
        nm = e['name']
        t.append((4, T_BINARY, nm if isinstance(nm, bytes) else nm.encode('utf-8', 'surrogateescape')))
        if e.get('num_children'):
            t.append((5, T_I32, e['num_children']))
        if e.get('converted_type') is not None:
            t.append((6, T_I32, e['converted_type']))
        if e.get('scale') is not None:
            t.append((7, T_I32, e['scale']))
        if e.get('precision') is not None:
            t.append((8, T_I32, e['precision']))
        if e.get('field_id') is not None:
            t.append((9, T_I32, e['field_id']))
        if e.get('logical') is not None:
            t.append((10, T_STRUCT, e['logical']))
        if opt.unknown_fields:
            t += _unknown(rng, 20)
        selems.append(t)
    fm = [(1, T_I32, opt.version), (2, T_LIST, (T_STRUCT, selems)), (3, T_I64, total_rows), (4, T_LIST, (T_STRUCT, rg_trees))]
    if opt.kv:
        fm.append((5, T_LIST, (T_STRUCT, [[(1, T_BINARY, k)] + ([(2, T_BINARY, v)] if v is not None else []) for k, v in opt.kv])))
    if opt.created_by is not None:
        fm.append((6, T_BINARY, opt.created_by))
    if opt.unknown_fields:
        fm.append((7, T_LIST, (T_STRUCT, [[(1, T_STRUCT, [])] for _ in leaves])))     # column_orders: known to the format, unknown to many readers
        fm += _unknown(rng, 40)
    fb = encode_struct(fm, **tw)
    out += fb + struct.pack('<I', len(fb)) + b'PAR1'
    info['footer_start'] = len(out) - 8 - len(fb)
    return bytes(out), leaves, model, info


def _i32(u):
    u &= 0xFFFFFFFF
    return u - (1 << 32) if u & 0x80000000 else u
