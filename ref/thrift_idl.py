"""parquet.thrift as a table (written from the IDL), canonical flattening of generic Thrift trees, and a
random generator of FileMetaData / PageHeader trees for the C13 monitor."""
import struct
from thrift_compact import (T_TRUE, T_FALSE, T_BYTE, T_I16, T_I32, T_I64, T_DOUBLE, T_BINARY, T_LIST, T_SET, T_MAP, T_STRUCT)

# struct -> fid -> (wire type, sub, modelled by carquet's structures)
S = {
 'FileMetaData': {1: (T_I32, None, 1), 2: (T_LIST, (T_STRUCT, 'SchemaElement'), 1), 3: (T_I64, None, 1), 4: (T_LIST, (T_STRUCT, 'RowGroup'), 1), 5: (T_LIST, (T_STRUCT, 'KeyValue'), 1), 6: (T_BINARY, None, 1),
                  7: (T_LIST, (T_STRUCT, 'ColumnOrder'), 0), 8: (T_STRUCT, 'Opaque', 0), 9: (T_BINARY, None, 0)},
 'SchemaElement': {1: (T_I32, None, 1), 2: (T_I32, None, 1), 3: (T_I32, None, 1), 4: (T_BINARY, None, 1), 5: (T_I32, None, 1), 6: (T_I32, None, 1), 7: (T_I32, None, 1), 8: (T_I32, None, 1), 9: (T_I32, None, 1), 10: (T_STRUCT, 'LogicalType', 1)},
 'LogicalType': {1: (T_STRUCT, 'Empty', 1), 2: (T_STRUCT, 'Empty', 1), 3: (T_STRUCT, 'Empty', 1), 4: (T_STRUCT, 'Empty', 1), 5: (T_STRUCT, 'DecimalType', 1), 6: (T_STRUCT, 'Empty', 1), 7: (T_STRUCT, 'TimeType', 1), 8: (T_STRUCT, 'TimeType', 1),
                 10: (T_STRUCT, 'IntType', 1), 11: (T_STRUCT, 'Empty', 1), 12: (T_STRUCT, 'Empty', 1), 13: (T_STRUCT, 'Empty', 1), 14: (T_STRUCT, 'Empty', 1), 15: (T_STRUCT, 'Empty', 1)},
 'Empty': {}, 'Opaque': {}, 'ColumnOrder': {1: (T_STRUCT, 'Empty', 0)},
 'DecimalType': {1: (T_I32, None, 1), 2: (T_I32, None, 1)},
 'TimeType': {1: ('bool', None, 1), 2: (T_STRUCT, 'TimeUnit', 1)},
 'TimeUnit': {1: (T_STRUCT, 'Empty', 1), 2: (T_STRUCT, 'Empty', 1), 3: (T_STRUCT, 'Empty', 1)},
 'IntType': {1: (T_BYTE, None, 1), 2: ('bool', None, 1)},
 'RowGroup': {1: (T_LIST, (T_STRUCT, 'ColumnChunk'), 1), 2: (T_I64, None, 1), 3: (T_I64, None, 1), 4: (T_LIST, (T_STRUCT, 'SortingColumn'), 0), 5: (T_I64, None, 1), 6: (T_I64, None, 1), 7: (T_I16, None, 1)},
 'SortingColumn': {1: (T_I32, None, 0), 2: ('bool', None, 0), 3: ('bool', None, 0)},
 'ColumnChunk': {1: (T_BINARY, None, 1), 2: (T_I64, None, 1), 3: (T_STRUCT, 'ColumnMetaData', 1), 4: (T_I64, None, 1), 5: (T_I32, None, 1), 6: (T_I64, None, 1), 7: (T_I32, None, 1), 8: (T_STRUCT, 'Opaque', 0), 9: (T_BINARY, None, 0)},
 'ColumnMetaData': {1: (T_I32, None, 1), 2: (T_LIST, (T_I32, None), 1), 3: (T_LIST, (T_BINARY, None), 1), 4: (T_I32, None, 1), 5: (T_I64, None, 1), 6: (T_I64, None, 1), 7: (T_I64, None, 1), 8: (T_LIST, (T_STRUCT, 'KeyValue'), 0),
                    9: (T_I64, None, 1), 10: (T_I64, None, 1), 11: (T_I64, None, 1), 12: (T_STRUCT, 'Statistics', 1), 13: (T_LIST, (T_STRUCT, 'PageEncodingStats'), 0), 14: (T_I64, None, 1), 15: (T_I32, None, 1)},
 'Statistics': {1: (T_BINARY, None, 1), 2: (T_BINARY, None, 1), 3: (T_I64, None, 1), 4: (T_I64, None, 1), 5: (T_BINARY, None, 1), 6: (T_BINARY, None, 1), 7: ('bool', None, 0), 8: ('bool', None, 0)},
 'KeyValue': {1: (T_BINARY, None, 1), 2: (T_BINARY, None, 1)},
 'PageEncodingStats': {1: (T_I32, None, 0), 2: (T_I32, None, 0), 3: (T_I32, None, 0)},
 'PageHeader': {1: (T_I32, None, 1), 2: (T_I32, None, 1), 3: (T_I32, None, 1), 4: (T_I32, None, 1), 5: (T_STRUCT, 'DataPageHeader', 1), 6: (T_STRUCT, 'Empty', 0), 7: (T_STRUCT, 'DictionaryPageHeader', 1), 8: (T_STRUCT, 'DataPageHeaderV2', 1)},
 'DataPageHeader': {1: (T_I32, None, 1), 2: (T_I32, None, 1), 3: (T_I32, None, 1), 4: (T_I32, None, 1), 5: (T_STRUCT, 'Statistics', 1)},
 'DictionaryPageHeader': {1: (T_I32, None, 1), 2: (T_I32, None, 1), 3: ('bool', None, 1)},
 'DataPageHeaderV2': {1: (T_I32, None, 1), 2: (T_I32, None, 1), 3: (T_I32, None, 1), 4: (T_I32, None, 1), 5: (T_I32, None, 1), 6: (T_I32, None, 1), 7: ('bool', None, 1), 8: (T_STRUCT, 'Statistics', 0)},
}
TN = {T_I32: 'I32', T_I64: 'I64', T_I16: 'I16', T_BYTE: 'I8', T_BINARY: 'BIN', T_STRUCT: 'STRUCT', T_LIST: 'LIST', T_DOUBLE: 'DOUBLE', T_SET: 'SET', T_MAP: 'MAP', T_TRUE: 'BOOL', T_FALSE: 'BOOL'}


def flatten(fields, sname, path='', modelled_only=False, problems=None):
    """Canonical lines for a struct tree. With problems list: records wire-type deviations from the IDL."""
    out = []
    idl = S.get(sname, {}) if sname else {}
    for fid, t, v in fields:
        p = ('%s.%d' % (path, fid)) if path else str(fid)
        spec = idl.get(fid)
        if modelled_only and (spec is None or not spec[2]):
            continue
        if problems is not None and sname is not None:
            if spec is None:
                problems.append('%s: field id not in parquet.thrift struct %s' % (p, sname))
            else:
                want = spec[0]
                ok = (want == 'bool' and t in (T_TRUE, T_FALSE)) or want == t
                if not ok:
                    problems.append('%s: wire type %s, IDL says %s' % (p, TN.get(t, t), 'BOOL' if want == 'bool' else TN.get(want, want)))
        sub = spec[1] if spec else None
        out += _flat_value(p, t, v, sub, modelled_only, problems)
    return out


def _flat_value(p, t, v, sub, modelled_only, problems):
    if t in (T_TRUE, T_FALSE):
        return ['%s BOOL %d' % (p, 1 if v else 0)]
    if t in (T_I32, T_I64, T_I16, T_BYTE):
        return ['%s %s %d' % (p, TN[t], v)]
    if t == T_BINARY:
        return ['%s BIN %s' % (p, bytes(v).hex())]
    if t == T_STRUCT:
        return ['%s STRUCT' % p] + flatten(v, sub if isinstance(sub, str) else None, p, modelled_only, problems)
    if t == T_LIST:
        et, items = v
        esub = None
        if isinstance(sub, tuple):
            if problems is not None and sub[0] != et and not (sub[0] == 'bool' and et in (T_TRUE, T_FALSE)) and items:
                problems.append('%s: list element type %s, IDL says %s' % (p, TN.get(et, et), TN.get(sub[0], sub[0])))
            esub = sub[1]
        lines = ['%s LIST %s %d' % (p, TN.get(et, str(et)), len(items))]
        for i, it in enumerate(items):
            lines += _flat_value('%s[%d]' % (p, i), et, it, esub, modelled_only, problems)
        return lines
    return ['%s %s ?' % (p, TN.get(t, str(t)))]


# ---- random trees (direction 2) ---------------------------------------------------------------------

def _i32(r):
    # incl. the values whose zig-zag varint sits on a length boundary (zigzag(n) = 2^(7k): n = 2^(7k-1)) and their neighbours
    return r.choice([-2**31, 2**31 - 1, 0, -1, r.randrange(300), r.randrange(-2**31, 2**31), r.choice([64, 8192, 1 << 20, 1 << 27, -65, -8193, -(1 << 20) - 1, -(1 << 27) - 1]) + r.choice([-1, 0, 0, 1])])


def _i64(r):
    return r.choice([-2**63, 2**63 - 1, 0, -1, r.randrange(300), r.randrange(-2**63, 2**63), r.choice([64, 8192, 1 << 20, 1 << 27, 1 << 34, 1 << 41, 1 << 48, 1 << 55, 1 << 62, -65, -8193, -(1 << 34) - 1, -(1 << 62) - 1]) + r.choice([-1, 0, 0, 1])])


def _name(r):
    c = r.random()
    L = 0 if c < 0.12 else (r.choice([127, 128, 129, 16383, 16384, 16385]) if c < 0.15 else r.randrange(200, 5000) if c < 0.2 else r.randrange(1, 20))
    return bytes(r.randrange(1, 256) for _ in range(L))


def _bin(r):
    c = r.random()
    return bytes(r.randrange(256) for _ in range(r.choice([127, 128, 16383, 16384, 16385]) if c < 0.03 else r.randrange(1, 3000) if c < 0.1 else r.randrange(1, 16)))


def _count(r):
    c = r.random()
    return 300 if c < 0.04 else r.choice([0, 1, 2, 3, 14, 15, 16, 17, 40, 127, 128, 129])    # carquet caps footer lists at 10 000 elements (100 for encodings/paths): larger ones are refused by design


def rnd_stats(r, full=True):
    f = []
    if r.random() < 0.7: f.append((1, T_BINARY, _bin(r)))
    if r.random() < 0.7: f.append((2, T_BINARY, _bin(r)))
    if r.random() < 0.5: f.append((3, T_I64, _i64(r)))
    if r.random() < 0.5: f.append((4, T_I64, _i64(r)))
    if r.random() < 0.7: f.append((5, T_BINARY, _bin(r)))
    if r.random() < 0.7: f.append((6, T_BINARY, _bin(r)))
    if r.random() < 0.3: f.append((7, T_TRUE, r.random() < 0.5))
    if r.random() < 0.3: f.append((8, T_TRUE, r.random() < 0.5))
    return f


def rnd_logical(r):
    k = r.choice([1, 2, 3, 4, 5, 6, 7, 8, 10, 11, 12, 13, 14, 15])
    if k == 5:
        inner = [(1, T_I32, _i32(r)), (2, T_I32, _i32(r))]
    elif k in (7, 8):
        inner = [(1, T_TRUE, r.random() < 0.5), (2, T_STRUCT, [(r.choice([1, 2, 3]), T_STRUCT, [])])]
    elif k == 10:
        inner = [(1, T_BYTE, r.choice([8, 16, 32, 64, -128, 127])), (2, T_TRUE, r.random() < 0.5)]
    else:
        inner = []
    return [(k, T_STRUCT, inner)]


def rnd_file_metadata(r):
    schema = []
    for _ in range(_count(r)):
        e = []
        if r.random() < 0.66: e.append((1, T_I32, r.randrange(8)))
        if r.random() < 0.33: e.append((2, T_I32, r.randrange(1, 1000)))
        if r.random() < 0.75: e.append((3, T_I32, r.randrange(3)))
        e.append((4, T_BINARY, _name(r)))
        if r.random() < 0.33: e.append((5, T_I32, r.randrange(1, 50)))
        if r.random() < 0.33: e.append((6, T_I32, r.randrange(22)))
        if r.random() < 0.25: e.append((7, T_I32, _i32(r) or 3))
        if r.random() < 0.25: e.append((8, T_I32, _i32(r) or 5))
        if r.random() < 0.33: e.append((9, T_I32, _i32(r)))
        if r.random() < 0.5: e.append((10, T_STRUCT, rnd_logical(r)))
        schema.append(e)
    rgs = []
    for _ in range(40 if r.random() < 0.05 else r.randrange(4)):
        cols = []
        for _ in range(20 if r.random() < 0.1 else r.randrange(4)):
            cc = []
            if r.random() < 0.2: cc.append((1, T_BINARY, _name(r)))
            cc.append((2, T_I64, _i64(r)))
            if r.random() < 0.8:
                md = [(1, T_I32, r.randrange(8)), (2, T_LIST, (T_I32, [r.randrange(10) for _ in range(_count(r) % 60)])), (3, T_LIST, (T_BINARY, [_name(r) for _ in range(_count(r) % 50)])),
                      (4, T_I32, r.randrange(8)), (5, T_I64, _i64(r)), (6, T_I64, _i64(r)), (7, T_I64, _i64(r))]
                if r.random() < 0.3: md.append((8, T_LIST, (T_STRUCT, [[(1, T_BINARY, _name(r)), (2, T_BINARY, _name(r))] for _ in range(r.randrange(3))])))
                md.append((9, T_I64, _i64(r)))
                if r.random() < 0.33: md.append((10, T_I64, _i64(r)))
                if r.random() < 0.5: md.append((11, T_I64, _i64(r)))
                if r.random() < 0.5: md.append((12, T_STRUCT, rnd_stats(r)))
                if r.random() < 0.3: md.append((13, T_LIST, (T_STRUCT, [[(1, T_I32, r.randrange(4)), (2, T_I32, r.randrange(10)), (3, T_I32, _i32(r))] for _ in range(r.randrange(4))])))
                if r.random() < 0.33: md.append((14, T_I64, _i64(r)))
                if r.random() < 0.33: md.append((15, T_I32, _i32(r)))
                cc.append((3, T_STRUCT, md))
            if r.random() < 0.33: cc.append((4, T_I64, _i64(r)))
            if r.random() < 0.33: cc.append((5, T_I32, _i32(r)))
            if r.random() < 0.33: cc.append((6, T_I64, _i64(r)))
            if r.random() < 0.33: cc.append((7, T_I32, _i32(r)))
            cols.append(cc)
        rg = [(1, T_LIST, (T_STRUCT, cols)), (2, T_I64, _i64(r)), (3, T_I64, _i64(r))]
        if r.random() < 0.3: rg.append((4, T_LIST, (T_STRUCT, [[(1, T_I32, 0), (2, T_TRUE, True), (3, T_FALSE, False)]])))
        if r.random() < 0.5: rg.append((5, T_I64, _i64(r)))
        if r.random() < 0.5: rg.append((6, T_I64, _i64(r)))
        if r.random() < 0.5: rg.append((7, T_I16, r.randrange(-32768, 32768)))
        rgs.append(rg)
    fm = [(1, T_I32, _i32(r)), (2, T_LIST, (T_STRUCT, schema)), (3, T_I64, _i64(r)), (4, T_LIST, (T_STRUCT, rgs))]
    if r.random() < 0.5:
        n = _count(r)
        if n:
            fm.append((5, T_LIST, (T_STRUCT, [[(1, T_BINARY, _name(r))] + ([(2, T_BINARY, _name(r))] if r.random() < 0.75 else []) for _ in range(n)])))
    if r.random() < 0.75: fm.append((6, T_BINARY, _name(r)))
    if r.random() < 0.3: fm.append((7, T_LIST, (T_STRUCT, [[(1, T_STRUCT, [])] for _ in range(r.randrange(4))])))
    return fm


def rnd_page_header(r):
    k = r.choice([0, 2, 3])
    h = [(1, T_I32, k), (2, T_I32, _i32(r)), (3, T_I32, _i32(r))]
    if r.random() < 0.5: h.append((4, T_I32, _i32(r)))
    if k == 0:
        d = [(1, T_I32, _i32(r)), (2, T_I32, r.randrange(10)), (3, T_I32, r.randrange(10)), (4, T_I32, r.randrange(10))]
        if r.random() < 0.5: d.append((5, T_STRUCT, rnd_stats(r)))
        h.append((5, T_STRUCT, d))
    elif k == 2:
        h.append((7, T_STRUCT, [(1, T_I32, _i32(r)), (2, T_I32, r.randrange(10)), (3, T_TRUE, r.random() < 0.5)]))
    else:
        d = [(1, T_I32, _i32(r)), (2, T_I32, _i32(r)), (3, T_I32, _i32(r)), (4, T_I32, r.randrange(10)), (5, T_I32, _i32(r)), (6, T_I32, _i32(r))] + ([(7, T_TRUE, r.random() < 0.5)] if r.random() < 0.6 else [])    # field 7 is optional, default true
        if r.random() < 0.4: d.append((8, T_STRUCT, rnd_stats(r)))
        h.append((8, T_STRUCT, d))
    return h


def unknown_fields(r, base):
    """unknown fields of every wire type with ids far from the modelled ones (forces long-form headers too)"""
    fid = base
    out = []
    def nxt():
        nonlocal fid
        fid += r.choice([1, 2, 15, 16, 17, 40, 300])
        return fid
    kinds = [lambda: (nxt(), T_TRUE, True), lambda: (nxt(), T_FALSE, False), lambda: (nxt(), T_BYTE, r.randrange(-128, 128)), lambda: (nxt(), T_I16, r.randrange(-32768, 32768)), lambda: (nxt(), T_I32, _i32(r)), lambda: (nxt(), T_I64, _i64(r)),
             lambda: (nxt(), T_DOUBLE, struct.pack('<d', r.random())), lambda: (nxt(), T_BINARY, _bin(r)), lambda: (nxt(), T_LIST, (T_I32, [_i32(r) for _ in range(_count(r))])),
             lambda: (nxt(), T_LIST, (T_TRUE, [r.random() < 0.5 for _ in range(_count(r) % 20)])), lambda: (nxt(), T_LIST, (T_STRUCT, [[(1, T_I32, 5)], [], [(2, T_BINARY, b'x'), (3, T_LIST, (T_I64, [1, 2, 3]))]])),
             lambda: (nxt(), T_SET, (T_BINARY, [b'a', b''])), lambda: (nxt(), T_MAP, (T_BINARY, T_I32, [(b'k', 1), (b'', -2)])), lambda: (nxt(), T_MAP, (T_I32, T_STRUCT, [])),
             lambda: (nxt(), T_MAP, (T_TRUE, T_LIST, [(True, (T_BYTE, [1, 2])), (False, (T_BYTE, []))])), lambda: (nxt(), T_LIST, (T_DOUBLE, [struct.pack('<d', 1.5)] * 3)),
             lambda: (nxt(), T_STRUCT, [(1, T_STRUCT, [(1, T_STRUCT, [(1, T_STRUCT, [(5, T_I32, 1)])])]), (2, T_LIST, (T_LIST, [(T_I32, [1]), (T_I32, [])]))])]
    for k in r.sample(kinds, r.randrange(1, len(kinds) + 1)):
        out.append(k())
    out.sort(key=lambda f: f[0])
    return out


def sprinkle_unknown(r, fields, sname, depth=0):
    """returns a copy of the tree with unknown fields appended to every struct (ids above the IDL's)"""
    idl = S.get(sname, {})
    res = []
    for fid, t, v in fields:
        spec = idl.get(fid)
        sub = spec[1] if spec else None
        if t == T_STRUCT and sub in ('LogicalType', 'TimeUnit'):
            # a union: exactly one member stays set; unknown fields go inside the member's struct
            v = [(f2, t2, (sprinkle_unknown(r, v2, S[sub].get(f2, (None, 'Empty'))[1] or 'Empty', depth + 1) if t2 == T_STRUCT and r.random() < 0.5 else v2)) for f2, t2, v2 in v]
        elif t == T_STRUCT and isinstance(sub, str) and sub not in ('Opaque',):
            v = sprinkle_unknown(r, v, sub, depth + 1)
        elif t == T_LIST and isinstance(sub, tuple) and sub[0] == T_STRUCT and isinstance(sub[1], str):
            v = (v[0], [sprinkle_unknown(r, it, sub[1], depth + 1) if r.random() < 0.4 else it for it in v[1]])
        res.append((fid, t, v))
    if r.random() < 0.8:
        res += unknown_fields(r, max([f[0] for f in res] + [15]) + 1)
    return res
