"""Ordered forests, labelings and footers for the C17 monitor."""
import struct, itertools, random, sys, os
sys.path.insert(0, os.path.dirname(os.path.abspath(__file__)))
from thrift_compact import encode_struct, T_I32, T_I64, T_BINARY, T_LIST, T_STRUCT
import parquet_ref as P


def forests(n):
    """all ordered forests with n nodes, as nested lists: forest = [tree...], tree = forest of children"""
    if n == 0:
        yield []
        return
    for k in range(1, n + 1):               # size of the first tree
        for first_children in forests(k - 1):
            for rest in forests(n - k):
                yield [first_children] + rest


def flatten_forest(forest, out=None):
    """DFS list of child counts"""
    if out is None:
        out = []
    for t in forest:
        out.append(len(t))
        flatten_forest(t, out)
    return out


def elements_for(child_counts, reps, type_rot=0, names=None, root_rep=None):
    # the root is the message itself: some writers label it REQUIRED (or anything else); the label never counts towards a level
    elems = [{'name': 'schema', 'type': None, 'repetition': root_rep, 'num_children': 0}]
    # number of top-level trees: derive by walking
    tops = 0
    i = 0
    def skip(i):
        n = child_counts[i]
        i += 1
        for _ in range(n):
            i = skip(i)
        return i
    while i < len(child_counts):
        i = skip(i); tops += 1
    elems[0]['num_children'] = tops
    li = 0
    for idx, (nc, rp) in enumerate(zip(child_counts, reps)):
        nm = names[idx] if names else 'n%d' % idx
        if nc == 0:
            t = (type_rot + li) % 8
            elems.append({'name': nm, 'type': t, 'type_length': 3 + li if t == 7 else 0, 'repetition': rp, 'num_children': 0})
            li += 1
        else:
            elems.append({'name': nm, 'type': None, 'repetition': rp, 'num_children': nc})
    return elems


def footer_file(elems):
    selems = []
    for e in elems:
        t = []
        if e.get('type') is not None:
            t.append((1, T_I32, e['type']))
            if e.get('type_length'):
                t.append((2, T_I32, e['type_length']))
        if e.get('repetition') is not None:
            t.append((3, T_I32, e['repetition']))
        nm = e['name']
        t.append((4, T_BINARY, nm if isinstance(nm, bytes) else nm.encode()))
        if e.get('num_children'):
            t.append((5, T_I32, e['num_children']))
        if e.get('logical') is not None:
            t.append((10, T_STRUCT, e['logical']))
        selems.append(t)
    fm = [(1, T_I32, 1), (2, T_LIST, (T_STRUCT, selems)), (3, T_I64, 0), (4, T_LIST, (T_STRUCT, []))]
    fb = encode_struct(fm)
    return b'PAR1' + fb + struct.pack('<I', len(fb)) + b'PAR1'


LOGICAL_ID = {1: 1, 2: 2, 3: 3, 4: 4, 5: 5, 6: 6, 7: 7, 8: 8, 10: 9, 11: 10, 12: 11, 13: 12, 14: 13, 15: 14}


def expected_text(elems):
    leaves = P.schema_leaves(elems)
    lines = ['N %d %d' % (len(elems), len(leaves))]
    for i, e in enumerate(elems):
        leaf = e.get('type') is not None
        nm = e['name'] if isinstance(e['name'], bytes) else e['name'].encode()
        lg = -1
        if e.get('logical'):
            lg = LOGICAL_ID[e['logical'][0][0]]
        lines.append('E %d %d %d %d %d %d %s' % (i, 1 if leaf else 0, e['type'] if leaf else -1, -1 if i == 0 else e['repetition'], (e.get('type_length') or 0) if leaf else 0, lg, nm.hex()))
    first = {}
    for li, lf in enumerate(leaves):
        first.setdefault(lf.name, li)
    for li, lf in enumerate(leaves):
        nm = lf.name.encode() if isinstance(lf.name, str) else lf.name
        lines.append('L %d %d %d %d %s' % (li, lf.elem_index, lf.max_def, lf.max_rep, nm.hex()))
        lines.append('A %d %d %d' % (li, lf.max_def, lf.max_rep))
        lines.append('F %d %d' % (li, first[lf.name]))
    return ('\n'.join(lines) + '\n').encode()


def record(elems):
    pq = footer_file(elems)
    ex = expected_text(elems)
    return struct.pack('<I', len(pq)) + pq + struct.pack('<I', len(ex)) + ex


def exhaustive(maxn):
    for n in range(0, maxn + 1):
        for f in forests(n):
            cc = flatten_forest(f)
            for rot, reps in enumerate(itertools.product((0, 1, 2), repeat=n)):
                yield record(elements_for(cc, reps, rot % 8, root_rep=(None, None, 0, 1, 2)[rot % 5]))


def random_tree(rng, nodes, maxdepth):
    """random child-count list (DFS)"""
    cc = []
    def grow(depth, budget):
        # returns nodes used
        used = 1
        idx = len(cc)
        cc.append(0)
        if depth < maxdepth and budget > 1 and rng.random() < 0.55:
            kids = rng.randrange(1, min(5, budget))
            remaining = budget - 1
            for k in range(kids):
                if remaining <= 0:
                    break
                share = rng.randrange(1, remaining - (kids - k - 1) + 1) if remaining - (kids - k - 1) >= 1 else 1
                u = grow(depth + 1, share)
                used += u; remaining -= u
                cc[idx] += 1
        return used
    total = 0
    while total < nodes:
        total += grow(1, max(1, nodes - total))
    return cc


def sampled(rng, count, lo, hi, maxdepth=12):
    # every member of the LogicalType union (ids 1..8 and 10..15: the union has no member 9, the accessor's enum has no gap)
    logical_pool = [None, None, [(1, T_STRUCT, [])], [(6, T_STRUCT, [])], [(10, T_STRUCT, [(1, 3, 32), (2, 1, True)])], [(5, T_STRUCT, [(1, T_I32, 2), (2, T_I32, 9)])],
                    [(2, T_STRUCT, [])], [(3, T_STRUCT, [])], [(4, T_STRUCT, [])], [(7, T_STRUCT, [(1, 1, True), (2, T_STRUCT, [(2, T_STRUCT, [])])])], [(8, T_STRUCT, [(1, 2, False), (2, T_STRUCT, [(3, T_STRUCT, [])])])],
                    [(11, T_STRUCT, [])], [(12, T_STRUCT, [])], [(13, T_STRUCT, [])], [(14, T_STRUCT, [])], [(15, T_STRUCT, [])], [(10, T_STRUCT, [(1, 3, 8), (2, 2, False)])]]
    for _ in range(count):
        n = rng.randrange(lo, hi + 1)
        cc = random_tree(rng, n, maxdepth)
        reps = [rng.randrange(3) for _ in cc]
        dup = rng.random() < 0.2
        names = [('dup' if (dup and rng.random() < 0.4) else 'n%d' % i) for i in range(len(cc))]
        if len(names) >= 2 and rng.random() < 0.3:        # a longer name ahead of its own proper prefix (price_usd before price)
            i = rng.randrange(len(names) - 1); j = rng.randrange(i + 1, len(names))
            names[i] = names[j] + rng.choice(['_usd', 'x', '.', '0'])
        if rng.random() < 0.1:
            names[rng.randrange(len(names))] = 'x' * 3000
        elems = elements_for(cc, reps, rng.randrange(8), names, root_rep=rng.choice([None, None, 0, 1, 2]))
        for e in elems[1:]:
            if e.get('type') is not None and rng.random() < 0.3:
                e['logical'] = rng.choice(logical_pool)
        yield record(elems)
