"""Parquet encodings written from the Encodings specification (parquet-format/Encodings.md).
Reference decoders are strict; reference encoders can emit the legal-but-unusual forms.
Values of fixed-width types are handled as raw little-endian bytes to stay bit exact."""
import struct

# ---------------------------------------------------------------------------------------------
# varints


def uleb(u):
    out = bytearray()
    while u >= 0x80:
        out.append((u & 0x7F) | 0x80)
        u >>= 7
    out.append(u)
    return bytes(out)


def read_uleb(b, p, maxbytes=10):
    r = 0
    s = 0
    for _ in range(maxbytes):
        if p >= len(b):
            raise ValueError('truncated varint')
        x = b[p]
        p += 1
        r |= (x & 0x7F) << s
        if not x & 0x80:
            return r, p
        s += 7
    raise ValueError('varint too long')


def zz(n):
    return (n << 1) ^ (n >> 63) if n >= 0 else ((-n) << 1) - 1


def unzz(u):
    return (u >> 1) ^ -(u & 1)


# ---------------------------------------------------------------------------------------------
# bit packing (LSB first), RLE / bit-packed hybrid


def bitpack(values, width):
    acc = 0
    n = 0
    for v in values:
        acc |= (v & ((1 << width) - 1)) << n
        n += width
    return acc.to_bytes((n + 7) // 8, 'little')


def bitunpack(b, count, width, pos=0):
    if width == 0:
        return [0] * count, pos
    nbytes = (count * width + 7) // 8
    if pos + nbytes > len(b):
        raise ValueError('bit-packed data truncated')
    acc = int.from_bytes(b[pos:pos + nbytes], 'little')
    mask = (1 << width) - 1
    return [(acc >> (i * width)) & mask for i in range(count)], pos + nbytes


def rle_decode(b, width, count, pos=0, end=None):
    """Decode `count` values of the hybrid; returns (values, pos). Strict: raises when the data ends early."""
    end = len(b) if end is None else end
    out = []
    vb = (width + 7) // 8
    while len(out) < count:
        if pos >= end:
            raise ValueError('RLE data exhausted after %d of %d values' % (len(out), count))
        h, pos = read_uleb(b[:end], pos, 5)
        if h & 1:
            groups = h >> 1
            nbytes = groups * width
            if pos + nbytes > end:
                # the last group of a bit-packed run may be cut short by some writers; the spec requires full groups
                raise ValueError('bit-packed run truncated')
            vals, _ = bitunpack(b, groups * 8, width, pos)
            pos += nbytes
            out.extend(vals)
        else:
            run = h >> 1
            if pos + vb > end:
                raise ValueError('RLE value truncated')
            v = int.from_bytes(b[pos:pos + vb], 'little')
            pos += vb
            out.extend([v] * run)
    return out[:count], pos


def rle_walk(b, width, pos=0, end=None):
    """Walk the hybrid's runs without expanding RLE runs: returns a list of ('rle', count, value) / ('bp', [values]) and the end position."""
    end = len(b) if end is None else end
    runs = []
    vb = (width + 7) // 8
    while pos < end:
        h, pos = read_uleb(b[:end], pos, 5)
        if h & 1:
            groups = h >> 1
            if pos + groups * width > end:
                raise ValueError('bit-packed run truncated')
            vals, _ = bitunpack(b, groups * 8, width, pos)
            pos += groups * width
            runs.append(('bp', vals))
        else:
            if pos + vb > end:
                raise ValueError('RLE value truncated')
            runs.append(('rle', h >> 1, int.from_bytes(b[pos:pos + vb], 'little')))
            pos += vb
    return runs, pos


def rle_encode(values, width, style='greedy', rng=None):
    """style: greedy (RLE for runs >= 8), rle_only, bitpack_only, mixed (random), zero_runs (inserts zero-length runs),
    long_final (final RLE run longer than needed), pad_nonzero (non-zero padding in the last bit-packed group)."""
    out = bytearray()
    vb = (width + 7) // 8
    n = len(values)

    def emit_rle(v, run):
        out.extend(uleb(run << 1))
        out.extend(int(v).to_bytes(vb, 'little'))

    def emit_bp(vals, pad=0):
        vals = list(vals)
        while len(vals) % 8:
            vals.append(pad)
        out.extend(uleb(((len(vals) // 8) << 1) | 1))
        out.extend(bitpack(vals, width))

    if width == 0:
        # zero-width: values carry no bits; an RLE run still states the count
        if n:
            emit_rle(0, n)
        return bytes(out)
    i = 0
    pend = []
    padv = ((1 << width) - 1) if style == 'pad_nonzero' else 0
    while i < n:
        j = i
        while j < n and values[j] == values[i]:
            j += 1
        run = j - i
        if style in ('zero_runs',) and rng and rng.random() < 0.3 and not pend:
            out.extend(uleb(0 << 1))
            out.extend(int(rng.choice([0, (1 << width) - 1, rng.randrange(1 << width)]) if width else 0).to_bytes(vb, 'little'))       # zero-length RLE run: header 0, then the (unused) repeated value, which need not be zero
            if rng.random() < 0.5:
                out.extend(uleb((0 << 1) | 1))               # zero-group bit-packed run
        use_rle = run >= 8
        if style == 'rle_only':
            use_rle = True
        elif style == 'bitpack_only':
            use_rle = False
        elif style == 'mixed' and rng:
            use_rle = rng.random() < (0.7 if run >= 4 else 0.3)
        if use_rle:
            # a pending partial group must be completed before an RLE run starts (groups decode to 8 values)
            while pend and len(pend) % 8 and run > 0:
                pend.append(values[i])
                i += 1
                run -= 1
            if pend and len(pend) % 8 == 0:
                emit_bp(pend)
                pend = []
            if run > 0:
                if pend:         # run exhausted while topping up
                    pass
                else:
                    extra = 0
                    if style == 'long_final' and i + run == n:
                        extra = 5
                    emit_rle(values[i], run + extra)
                    i += run
            continue
        pend.extend(values[i:j])
        i = j
        if style == 'mixed' and rng and len(pend) % 8 == 0 and rng.random() < 0.5:
            emit_bp(pend)
            pend = []
    if pend:
        emit_bp(pend, padv)
    return bytes(out)


def levels_v1(levels, max_level, style='greedy', rng=None):
    if max_level == 0:
        return b''
    width = max_level.bit_length()
    body = rle_encode(levels, width, style, rng)
    return struct.pack('<I', len(body)) + body


# ---------------------------------------------------------------------------------------------
# PLAIN

FIXED = {1: 4, 2: 8, 3: 12, 4: 4, 5: 8}


def plain_decode(b, ptype, type_length, count, pos=0):
    """returns (values, pos): fixed-width types -> list of raw byte strings, BOOLEAN -> list of 0/1, BYTE_ARRAY -> list of bytes"""
    if ptype == 0:
        vals, pos2 = bitunpack(b, count, 1, pos)
        return vals, pos2
    if ptype == 6:
        out = []
        for _ in range(count):
            if pos + 4 > len(b):
                raise ValueError('BYTE_ARRAY length truncated')
            L = struct.unpack_from('<I', b, pos)[0]
            pos += 4
            if pos + L > len(b):
                raise ValueError('BYTE_ARRAY value truncated')
            out.append(bytes(b[pos:pos + L]))
            pos += L
        return out, pos
    w = type_length if ptype == 7 else FIXED[ptype]
    if pos + w * count > len(b):
        raise ValueError('PLAIN values truncated')
    return [bytes(b[pos + i * w:pos + (i + 1) * w]) for i in range(count)], pos + w * count


def plain_encode(values, ptype, type_length=0):
    if ptype == 0:
        return bitpack([1 if v else 0 for v in values], 1) if values else b''
    if ptype == 6:
        return b''.join(struct.pack('<I', len(v)) + bytes(v) for v in values)
    return b''.join(bytes(v) for v in values)


# ---------------------------------------------------------------------------------------------
# DELTA_BINARY_PACKED


def delta_decode(b, pos=0, bits=64, count=None):
    """Returns (values as signed ints wrapped to `bits`, pos after the last needed miniblock)."""
    mask = (1 << bits) - 1
    block, pos = read_uleb(b, pos)
    nmini, pos = read_uleb(b, pos)
    total, pos = read_uleb(b, pos)
    first, pos = read_uleb(b, pos)
    first = unzz(first)
    if block == 0 or block % 128 or nmini == 0 or block % nmini or (block // nmini) % 32:
        raise ValueError('bad delta header geometry')
    per = block // nmini
    n = total if count is None else count
    if n > total:
        raise ValueError('asking for more values than the header holds')
    out = []
    if total == 0:
        return out, pos
    cur = first & mask
    out.append(cur)
    while len(out) < n:
        mind, pos = read_uleb(b, pos)
        mind = unzz(mind)
        if pos + nmini > len(b):
            raise ValueError('delta widths truncated')
        widths = list(b[pos:pos + nmini])
        pos += nmini
        for w in widths:
            if len(out) >= n:
                break                      # unused miniblocks carry no data
            if w > bits:
                raise ValueError('delta bit width %d exceeds the type width %d' % (w, bits))
            vals, pos = bitunpack(b, per, w, pos)
            for d in vals:
                if len(out) >= n:
                    break
                cur = (cur + mind + d) & mask
                out.append(cur)
    sign = 1 << (bits - 1)
    return [v - (1 << bits) if v & sign else v for v in out], pos


def delta_encode(values, bits=64, junk_unused_widths=False, rng=None, block=128, nmini=4):
    mask = (1 << bits) - 1
    out = bytearray(uleb(block) + uleb(nmini) + uleb(len(values)))
    if not values:
        out += uleb(zz(0))
        return bytes(out)
    out += uleb(zz(values[0]))
    per = block // nmini
    sign = 1 << (bits - 1)
    deltas = []
    for i in range(1, len(values)):
        d = (values[i] - values[i - 1]) & mask
        deltas.append(d - (1 << bits) if d & sign else d)     # wrap-around in the type width
    for s in range(0, len(deltas), block):
        blk = deltas[s:s + block]
        mind = min(blk)
        out += uleb(zz(mind))
        adj = [(d - mind) & mask for d in blk]
        widths = []
        minis = []
        for m in range(nmini):
            part = adj[m * per:(m + 1) * per]
            if not part:
                widths.append(rng.choice([rng.randrange(256), 255, 65, 64, 33, rng.randrange(0, bits + 1)]) if (junk_unused_widths and rng) else 0)   # "readers must accept arbitrary values"
                minis.append(None)
                continue
            w = max(part).bit_length()
            widths.append(w)
            minis.append(part + [0] * (per - len(part)))
        out += bytes(widths)
        for w, part in zip(widths, minis):
            if part is not None and w:
                out += bitpack(part, w)
    return bytes(out)


def delta_length_decode(b, count, pos=0):
    lens, pos = delta_decode(b, pos, 32, count)
    out = []
    for L in lens:
        if L < 0 or pos + L > len(b):
            raise ValueError('bad length')
        out.append(bytes(b[pos:pos + L]))
        pos += L
    return out, pos


def delta_length_encode(values, **kw):
    return delta_encode([len(v) for v in values], 32, **kw) + b''.join(bytes(v) for v in values)


def delta_strings_decode(b, count, pos=0):
    prefixes, pos = delta_decode(b, pos, 32, count)
    suffixes, pos = delta_length_decode(b, count, pos)
    out = []
    prev = b''
    for p, s in zip(prefixes, suffixes):
        if p < 0 or p > len(prev):
            raise ValueError('bad prefix length')
        prev = prev[:p] + s
        out.append(prev)
    return out, pos


def delta_strings_encode(values, **kw):
    prefixes = []
    suffixes = []
    prev = b''
    for v in values:
        v = bytes(v)
        p = 0
        m = min(len(prev), len(v))
        while p < m and prev[p] == v[p]:
            p += 1
        prefixes.append(p)
        suffixes.append(v[p:])
        prev = v
    return delta_encode(prefixes, 32, **kw) + delta_length_encode(suffixes, **kw)


# ---------------------------------------------------------------------------------------------
# BYTE_STREAM_SPLIT


def bss_encode(raw_values, width):
    n = len(raw_values)
    return b''.join(bytes(raw_values[i][k] for i in range(n)) for k in range(width))


def bss_decode(b, count, width, pos=0):
    if pos + count * width > len(b):
        raise ValueError('BSS truncated')
    return [bytes(b[pos + k * count + i] for k in range(width)) for i in range(count)], pos + count * width
