#!/usr/bin/env python3
"""Line/function coverage of /repo/src reached by the checks: builds the library with gcc --coverage (variant `cov`), runs the given
tier of every check against it (VERIF_COV=1, no evidence written; sanitizer verdicts do not apply in this mode) and summarises the
.gcda files with gcov. Output: coverage/summary.json and coverage/SUMMARY.md. usage: bin/coverage.py [quick|thorough] [ids...]"""
import os, sys, json, subprocess, re, shutil, glob
V = os.path.dirname(os.path.dirname(os.path.abspath(__file__)))
sys.path.insert(0, os.path.join(V, 'bin'))
os.environ['VERIF_COV'] = '1'; os.environ['VERIF_NO_EVIDENCE'] = '1'
import vlib


def main():
    tier = sys.argv[1] if len(sys.argv) > 1 and sys.argv[1] in ('quick', 'thorough') else 'quick'
    ids = [a for a in sys.argv[1:] if re.fullmatch(r'C\d\d', a)] or [c['property_id'] for c in json.load(open(os.path.join(V, 'MANIFEST.json')))['checks']]
    lib = vlib.build_lib('cov'); objdir = os.path.dirname(lib)
    for g in glob.glob(os.path.join(objdir, '*.gcda')):
        os.unlink(g)
    status = {}
    for i in ids:
        r = subprocess.run(['python3', os.path.join(V, 'checks', i.lower() + '.py'), '--tier', tier], capture_output=True, text=True, env=dict(os.environ, VERIF_SEED=os.environ.get('VERIF_SEED', '1')))
        status[i] = r.returncode
        print(i, 'exit', r.returncode, flush=True)
    files = {}
    zero_fns = []
    for gcda in sorted(glob.glob(os.path.join(objdir, '*.gcda'))):
        r = subprocess.run(['gcov', '-f', '-n', '-o', objdir, gcda], capture_output=True, text=True, cwd=objdir)
        cur_fn = None
        for ln in r.stdout.splitlines():
            m = re.match(r"Function '(.+)'", ln)
            if m:
                cur_fn = m.group(1); continue
            m = re.match(r"File '(.+)'", ln)
            if m:
                cur_fn = None; cur_file = m.group(1); continue
            m = re.match(r'Lines executed:([\d.]+)% of (\d+)', ln)
            if m:
                pct, n = float(m.group(1)), int(m.group(2))
                if cur_fn is not None:
                    if pct == 0.0 and n > 0:
                        zero_fns.append((os.path.basename(gcda)[:-5], cur_fn, n))
                    cur_fn = None
                elif cur_file.startswith(vlib.REPO + '/src/'):
                    files[cur_file[len(vlib.REPO) + 1:]] = {'lines': n, 'executed_pct': pct}
    tot = sum(f['lines'] for f in files.values()); ex = sum(f['lines'] * f['executed_pct'] / 100 for f in files.values())
    out = {'tier': tier, 'checks': status, 'files': files, 'total_lines': tot, 'executed_pct': round(100 * ex / tot, 2) if tot else 0, 'functions_never_executed': [{'object': o, 'function': f, 'lines': n} for o, f, n in zero_fns]}
    os.makedirs(os.path.join(V, 'coverage'), exist_ok=True)
    json.dump(out, open(os.path.join(V, 'coverage', 'summary.json'), 'w'), indent=1)
    with open(os.path.join(V, 'coverage', 'SUMMARY.md'), 'w') as fh:
        fh.write('# Line coverage of /repo/src under the %s tier of all checks (gcc --coverage, -O0)\n\n' % tier)
        fh.write('total: %.1f%% of %d lines\n\n| file | lines | executed |\n|---|---|---|\n' % (out['executed_pct'], tot))
        for f, d in sorted(files.items(), key=lambda kv: kv[1]['executed_pct']):
            fh.write('| %s | %d | %.1f%% |\n' % (f, d['lines'], d['executed_pct']))
        fh.write('\n## functions never executed (%d)\n\n' % len(zero_fns))
        for o, f, n in sorted(zero_fns):
            fh.write('- %s: %s (%d lines)\n' % (o, f, n))
    print('total %.1f%% of %d lines; %d functions never executed' % (out['executed_pct'], tot, len(zero_fns)))


if __name__ == '__main__':
    main()
