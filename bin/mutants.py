#!/usr/bin/env python3
"""Runs the registered checks against the seeded property-breaking changes kept under /verif/seeded/<id>/<name>/patch.diff.
Each patch is applied to /repo's working tree (git apply), the property's check is run (quick; thorough too when quick is
silent and --thorough is given), and the tree is restored (git checkout -- .). Never commits, never writes evidence.
usage: bin/mutants.py [--thorough] [--only C07[/name]] [--cross]    (--cross: also run every other quick check)"""
import os, sys, json, subprocess, re, time
VERIF = os.path.dirname(os.path.dirname(os.path.abspath(__file__)))
REPO = '/repo'


def sh(cmd, **kw):
    return subprocess.run(cmd, shell=isinstance(cmd, str), capture_output=True, text=True, **kw)


def clean():
    r = sh(['git', '-C', REPO, 'status', '--porcelain', '--untracked-files=no'])
    return r.stdout.strip() == ''


def run_check(pid, tier):
    env = dict(os.environ, VERIF_NO_EVIDENCE='1', VERIF_SEED=os.environ.get('VERIF_SEED', '1'))
    t0 = time.time()
    r = sh(['python3', os.path.join(VERIF, 'checks', pid.lower() + '.py'), '--tier', tier], env=env)
    keys = re.findall(r'^  key=(\S+)', r.stdout, re.M)
    return {'tier': tier, 'exit': r.returncode, 'keys': keys[:12], 'wall_s': round(time.time() - t0, 1),
            'inconclusive': re.findall(r'^INCONCLUSIVE: (.*)', r.stdout, re.M)[:3]}


def main():
    args = sys.argv[1:]
    thorough = '--thorough' in args
    cross = '--cross' in args
    only = args[args.index('--only') + 1] if '--only' in args else None
    if not clean():
        print('refusing to run: /repo working tree has local changes'); sys.exit(2)
    resf = os.path.join(VERIF, 'seeded', 'RESULTS.json')
    results = json.load(open(resf)) if os.path.exists(resf) else {}
    allids = [c['property_id'] for c in json.load(open(os.path.join(VERIF, 'MANIFEST.json')))['checks']]
    for pid in sorted(os.listdir(os.path.join(VERIF, 'seeded'))):
        d = os.path.join(VERIF, 'seeded', pid)
        if not os.path.isdir(d):
            continue
        for name in sorted(os.listdir(d)):
            tag = '%s/%s' % (pid, name)
            patch = os.path.join(d, name, 'patch.diff')
            if not os.path.exists(patch) or (only and not tag.startswith(only)):
                continue
            a = sh(['git', '-C', REPO, 'apply', patch])
            if a.returncode != 0:
                results[tag] = {'status': 'patch-does-not-apply', 'detail': a.stderr[-300:]}
                print(tag, 'PATCH DOES NOT APPLY'); continue
            try:
                runs = [run_check(pid, 'quick')]
                if runs[-1]['exit'] != 1 and thorough:
                    runs.append(run_check(pid, 'thorough'))
                others = {}
                if cross:
                    for o in allids:
                        if o != pid:
                            rr = run_check(o, 'quick')
                            if rr['exit'] != 0:
                                others[o] = rr
            finally:
                sh(['git', '-C', REPO, 'checkout', '--', '.'])
            caught = next((r['tier'] for r in runs if r['exit'] == 1), None)
            results[tag] = {'status': 'caught' if caught else ('inconclusive' if any(r['exit'] == 2 for r in runs) else 'missed'), 'caught_by_tier': caught, 'runs': runs}
            if cross:
                results[tag]['other_checks_alarmed'] = others
            print(tag, results[tag]['status'], caught or '', (runs[-1]['keys'] or [''])[0], ' others:' + ','.join(others) if cross and others else '')
            json.dump(results, open(resf, 'w'), indent=1, sort_keys=True)
    assert clean()


if __name__ == '__main__':
    main()
