#!/bin/bash
# Runs every registered check of one tier in sequence (each check parallelises internally) and prints one line per check.
# usage: bin/runall.sh [quick|thorough] [seed] [ids...]
cd "$(dirname "$0")/.."
tier=${1:-quick}; seed=${2:-1}; shift 2 2>/dev/null
ids=${@:-$(python3 -c "import json;print(' '.join(c['property_id'] for c in json.load(open('MANIFEST.json'))['checks']))")}
rc=0
for id in $ids; do
  n=$(echo $id | tr A-Z a-z)
  out=$(VERIF_SEED=$seed python3 checks/$n.py --tier $tier 2>&1); e=$?
  echo "$id exit=$e $(echo "$out" | grep -E "^$id $tier" | head -1)"
  if [ $e -ne 0 ]; then echo "$out" | grep -E "VIOLATION|INCONCLUSIVE|key=" | head -10; rc=1; fi
done
exit $rc
