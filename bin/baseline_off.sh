#!/bin/bash
# Build /repo with the CARQUET_VERIF guard OFF (plain cmake defaults) in a scratch dir and run the
# repository's own 206-test suite. Exit 0 iff the stable baseline passes. Scratch removed afterwards.
set -u
REPO=${CARQUET_REPO:-/repo}
D=$(mktemp -d /dev/shm/cqv-baseline-XXXXXX 2>/dev/null || mktemp -d)
trap 'rm -rf "$D"' EXIT
cmake -G Ninja -S "$REPO" -B "$D/b" -DCMAKE_BUILD_TYPE=RelWithDebInfo >"$D/cmake.log" 2>&1 || { tail -30 "$D/cmake.log"; echo "BASELINE-OFF: cmake failed"; exit 2; }
cmake --build "$D/b" -j16 >"$D/build.log" 2>&1 || { tail -30 "$D/build.log"; echo "BASELINE-OFF: build failed"; exit 2; }
if grep -rq CARQUET_VERIF "$D/b/compile_commands.json"; then echo "BASELINE-OFF: guard unexpectedly on"; exit 2; fi
(cd "$D/b" && ctest -j8 --timeout 900 --output-junit "$D/junit.xml" >"$D/ctest.log" 2>&1)
rc=$?
tail -5 "$D/ctest.log"
python3 - "$D" <<'PY'
import sys, json, subprocess, os, re
d = sys.argv[1]
bp = '/root/.vp/BASELINE.json'
stable = set(n.replace(' (skipped)', '') for n in json.load(open(bp))['stable_pass']) if os.path.exists(bp) else None
fails = 0
passed = set()
for exe in sorted(os.listdir(d + '/b')):
    p = os.path.join(d, 'b', exe)
    if exe.startswith('test_') and os.access(p, os.X_OK) and os.path.isfile(p):
        r = subprocess.run([p], capture_output=True, text=True, cwd=d + '/b', timeout=900)
        if r.returncode != 0:
            fails += 1
            print('FAILED binary', exe, r.returncode)
        for m in re.finditer(r'\[(PASS|SKIP)\]\s+([A-Za-z0-9_]+)', r.stdout):
            passed.add(exe + '::' + m.group(2))
missing = sorted(stable - passed) if stable is not None else []
print('BASELINE-OFF: sub-tests passed/skipped: %d; baseline names: %s; missing from this run: %d' % (
    len(passed), len(stable) if stable is not None else 'n/a', len(missing)))
for m in missing[:20]:
    print('  missing', m)
sys.exit(1 if fails or missing else 0)
PY
rc2=$?
if [ $rc -ne 0 ] || [ $rc2 -ne 0 ]; then echo "BASELINE-OFF: FAIL"; exit 1; fi
echo "BASELINE-OFF: PASS (ctest all passed with guard off)"
exit 0
