#!/usr/bin/env python3
"""Common machinery: builds of /repo's working tree per sanitizer variant, driver builds,
evidence writing, violation keys / known findings, verdict discipline (exit 0/1/2)."""
import fcntl, hashlib, json, os, random, shutil, subprocess, sys, time, tempfile, re
from concurrent.futures import ThreadPoolExecutor

VERIF = os.path.dirname(os.path.dirname(os.path.abspath(__file__)))
REPO = os.environ.get('CARQUET_REPO', '/repo')
BUILD = os.path.join(VERIF, '.build')
NCPU = os.cpu_count() or 4

LIB_SOURCES = """
src/core/arena.c src/core/buffer.c src/core/bitpack.c src/core/endian.c src/core/error.c
src/thrift/thrift_decode.c src/thrift/thrift_encode.c src/thrift/parquet_types.c
src/encoding/plain.c src/encoding/rle.c src/encoding/delta.c src/encoding/delta_length.c
src/encoding/delta_strings.c src/encoding/dictionary.c src/encoding/byte_stream_split.c
src/compression/lz4.c src/compression/snappy.c src/compression/zstd.c src/compression/gzip.c
src/simd/detect.c src/simd/dispatch.c
src/reader/file_reader.c src/reader/row_group_reader.c src/reader/column_reader.c
src/reader/page_reader.c src/reader/batch_reader.c src/reader/statistics.c src/reader/mmap_reader.c
src/writer/file_writer.c src/writer/row_group_writer.c src/writer/column_writer.c src/writer/page_writer.c
src/metadata/schema.c src/metadata/statistics.c src/metadata/bloom_filter.c src/metadata/page_index.c
src/util/crc32.c src/util/xxhash.c
src/simd/x86/sse_ops.c src/simd/x86/avx2_ops.c src/simd/x86/avx512_ops.c
""".split()

PER_FILE = {
    'src/simd/x86/sse_ops.c': ['-msse4.2'],
    'src/simd/x86/avx2_ops.c': ['-mavx2', '-mbmi2'],
    'src/simd/x86/avx512_ops.c': ['-mavx512f', '-mavx512bw', '-mavx512vl'],
}
COMMON_DEFS = ['-DNDEBUG', '-DCARQUET_ARCH_X86', '-DCARQUET_ENABLE_SSE', '-DCARQUET_ENABLE_AVX2',
               '-DCARQUET_ENABLE_AVX512', '-std=gnu11', '-fopenmp', '-w']
SAN_ASAN = ['-fsanitize=address,undefined',
            '-fno-sanitize-recover=bounds,object-size,null,pointer-overflow,vla-bound,returns-nonnull-attribute']
VARIANTS = {
    # name: (compiler, cflags, ldflags)
    'asan': ('gcc', ['-O1', '-g', '-fno-omit-frame-pointer', '-DCARQUET_VERIF'] + SAN_ASAN, SAN_ASAN),
    'tsan': ('gcc', ['-O1', '-g', '-fno-omit-frame-pointer', '-DCARQUET_VERIF', '-fsanitize=thread'], ['-fsanitize=thread']),
    'plain': ('gcc', ['-O2', '-g', '-DCARQUET_VERIF'], []),
    'nohook': ('gcc', ['-O2', '-g'], []),
    # as plain, but the AVX-512 kernels are compiled with -mavx512vbmi as a user of -march=native on a VBMI CPU would get them (C15)
    'plainvbmi': ('gcc', ['-O2', '-g', '-DCARQUET_VERIF'], []),
    'cov': ('gcc', ['-O0', '-g', '-DCARQUET_VERIF', '--coverage'], ['--coverage']),
    # clang + libFuzzer instrumentation (input generator for C04/C08 thorough stages); no OpenMP: the target is single-threaded
    # ASan only: clang's UBSan flags NULL+0 pointer arithmetic that is never dereferenced; UB classes are judged by the gcc replay
    'fuzz': ('clang', ['-O1', '-g', '-fno-omit-frame-pointer', '-DCARQUET_VERIF', '-fsanitize=fuzzer-no-link,address'],
             ['-fsanitize=fuzzer,address']),
}

ASAN_ENV = {
    'ASAN_OPTIONS': 'abort_on_error=1:detect_leaks=1:allocator_may_return_null=1:max_allocation_size_mb=1024:'
                    'detect_stack_use_after_return=0:strict_string_checks=1:handle_abort=1:print_summary=1',
    'UBSAN_OPTIONS': 'print_stacktrace=1',
    'LSAN_OPTIONS': 'exitcode=23',
}


def _sha(*parts):
    h = hashlib.sha256()
    for p in parts:
        h.update(p if isinstance(p, bytes) else str(p).encode())
        h.update(b'\0')
    return h.hexdigest()


def tree_hash():
    """Content hash of everything that can influence a library build (working tree, not HEAD)."""
    h = hashlib.sha256()
    for top in ('src', 'include'):
        for d, dirs, files in sorted(os.walk(os.path.join(REPO, top))):
            dirs.sort()
            for f in sorted(files):
                if f.endswith(('.c', '.h')):
                    p = os.path.join(d, f)
                    h.update(os.path.relpath(p, REPO).encode())
                    with open(p, 'rb') as fh:
                        h.update(fh.read())
    return h.hexdigest()


class HarnessError(Exception):
    pass


def _lock(name):
    os.makedirs(BUILD, exist_ok=True)
    f = open(os.path.join(BUILD, 'lock-' + name), 'w')
    fcntl.flock(f, fcntl.LOCK_EX)
    return f


def _touch(path):
    try:
        os.utime(path, None)
    except OSError:
        pass


def _stale(path, hours=4.0):
    try:
        return time.time() - os.path.getmtime(path) > hours * 3600
    except OSError:
        return False


def build_lib(variant):
    if os.environ.get('VERIF_COV') and variant != 'fuzz':
        variant = 'cov'          # bin/coverage.py: every driver runs against the gcov-instrumented library
    cc, cflags, _ = VARIANTS[variant]
    th = tree_hash()
    key = _sha(th, variant, cc, ' '.join(cflags), ' '.join(COMMON_DEFS))[:16]
    out = os.path.join(BUILD, 'lib-%s-%s' % (variant, key))
    lib = os.path.join(out, 'libcarquet.a')
    lk = _lock('lib-' + variant)
    try:
        if os.path.exists(lib):
            _touch(out)
            return lib
        # drop stale builds of this variant (and drivers that depended on them) - only ones unused for hours, because a check
        # started against an earlier state of the tree may still be running from them
        for d in os.listdir(BUILD):
            if (d.startswith('lib-%s-' % variant) or d.startswith('drv-%s-' % variant)) and _stale(os.path.join(BUILD, d)):
                shutil.rmtree(os.path.join(BUILD, d), ignore_errors=True)
        tmp = out + '.tmp%d' % os.getpid()
        shutil.rmtree(tmp, ignore_errors=True)
        os.makedirs(tmp)

        def comp(src):
            obj = os.path.join(tmp, src.replace('/', '_')[:-2] + '.o')
            cmd = [cc] + cflags + [d for d in COMMON_DEFS if not (variant == 'fuzz' and d == '-fopenmp')] + PER_FILE.get(src, []) + (['-mavx512vbmi'] if variant == 'plainvbmi' and src.endswith('avx512_ops.c') else []) + \
                  ['-I', os.path.join(REPO, 'include'), '-I', os.path.join(REPO, 'src'),
                   '-c', os.path.join(REPO, src), '-o', obj]
            r = subprocess.run(cmd, capture_output=True, text=True)
            if r.returncode != 0:
                raise HarnessError('compile failed: %s\n%s' % (' '.join(cmd), r.stderr[-3000:]))
            return obj
        with ThreadPoolExecutor(NCPU) as ex:
            objs = list(ex.map(comp, LIB_SOURCES))
        r = subprocess.run(['ar', 'rcs', os.path.join(tmp, 'libcarquet.a')] + objs, capture_output=True, text=True)
        if r.returncode != 0:
            raise HarnessError('ar failed: ' + r.stderr)
        if variant != 'cov':
            for o in objs:
                os.unlink(o)
        os.rename(tmp, out)
        return lib
    finally:
        lk.close()


def build_driver(name, variant, sources=None, extra_cflags=(), extra_ldflags=(), gomp_shim=False, cxx=False):
    """Build /verif/drivers/<name>.c (or given sources) against the variant's library; cached by content."""
    if os.environ.get('VERIF_COV') and variant != 'fuzz':
        variant = 'cov'; extra_cflags = list(extra_cflags) + ['-DVERIF_COV']
    lib = build_lib(variant)
    cc, cflags, ldflags = VARIANTS[variant]
    if cxx:
        cc = 'g++'
    sources = sources or [os.path.join(VERIF, 'drivers', name + '.c')]
    srcs = list(sources)
    if gomp_shim:
        srcs.append(os.path.join(VERIF, 'drivers', 'gomp_shim.c'))
    h = hashlib.sha256()
    for s in srcs + [os.path.join(VERIF, 'drivers', f) for f in sorted(os.listdir(os.path.join(VERIF, 'drivers'))) if f.endswith('.h') or (name.startswith('fz_') and f.endswith('.c'))]:   # fz_* targets #include other drivers
        with open(s, 'rb') as fh:
            h.update(fh.read())
    key = _sha(h.hexdigest(), lib, ' '.join(extra_cflags), ' '.join(extra_ldflags), gomp_shim, cc)[:16]
    out = os.path.join(BUILD, 'drv-%s-%s-%s' % (variant, name, key))
    exe = os.path.join(out, name)
    lk = _lock('drv-%s-%s' % (variant, name))
    try:
        if os.path.exists(exe):
            _touch(out)
            return exe
        for d in os.listdir(BUILD):
            if d.startswith('drv-%s-%s-' % (variant, name)) and _stale(os.path.join(BUILD, d)):
                shutil.rmtree(os.path.join(BUILD, d), ignore_errors=True)
        tmp = out + '.tmp%d' % os.getpid()
        shutil.rmtree(tmp, ignore_errors=True)
        os.makedirs(tmp)
        std = [] if cxx else ['-std=gnu11']
        cmd = [cc] + [f for f in cflags if f != '--coverage'] + std + ['-w', '-DNDEBUG', '-DCARQUET_ARCH_X86',
              '-DCARQUET_ENABLE_SSE', '-DCARQUET_ENABLE_AVX2', '-DCARQUET_ENABLE_AVX512'] + list(extra_cflags) + \
              ['-I', os.path.join(REPO, 'include'), '-I', os.path.join(REPO, 'src'), '-I', os.path.join(VERIF, 'drivers')] + \
              srcs + [lib] + ldflags + list(extra_ldflags) + \
              ['-lzstd', '-lz', '-lm', '-lpthread'] + ([] if (gomp_shim or variant == 'fuzz') else ['-fopenmp']) + \
              ['-o', os.path.join(tmp, name)]
        r = subprocess.run(cmd, capture_output=True, text=True)
        if r.returncode != 0:
            raise HarnessError('driver build failed: %s\n%s' % (' '.join(cmd), r.stderr[-4000:]))
        os.rename(tmp, out)
        return exe
    finally:
        lk.close()


def scratch_dir(tag):
    base = '/dev/shm' if os.path.isdir('/dev/shm') and os.access('/dev/shm', os.W_OK) else tempfile.gettempdir()
    return tempfile.mkdtemp(prefix='cqv-%s-' % tag, dir=base)



# --------------------------------------------------------------------------------------
# coverage-guided stage (clang libFuzzer). The fuzzer is an input generator with feedback; verdicts come from re-running what it
# leaves behind: artifacts one per process in the fuzz build (classified like every other sanitizer report), corpus units
# through whatever replay driver the check has.

def run_libfuzzer(c, exe, workdir, corpus_dir, runs, jobs, max_len, env=None, extra=(), seed=1, timeout=6 * 3600):
    art = os.path.join(workdir, 'art')
    os.makedirs(art, exist_ok=True)
    e = dict(env or {})
    e['ASAN_OPTIONS'] = e.get('ASAN_OPTIONS', ASAN_ENV['ASAN_OPTIONS']) + ':handle_abort=1'
    run([exe, corpus_dir, '-runs=%d' % runs, '-jobs=%d' % jobs, '-workers=%d' % NCPU, '-max_len=%d' % max_len, '-timeout=25', '-rss_limit_mb=4096',
         '-artifact_prefix=%s/' % art, '-seed=%d' % seed, '-print_final_stats=1'] + list(extra), env=e, cwd=workdir, timeout=timeout)
    execd = 0
    for lg in os.listdir(workdir):
        if lg.startswith('fuzz-') and lg.endswith('.log'):
            m = re.search(r'stat::number_of_executed_units: (\d+)', open(os.path.join(workdir, lg), errors='replace').read())
            execd += int(m.group(1)) if m else 0
    c.count('libfuzzer_executions', execd)
    unresolved = []
    for fn in sorted(os.listdir(art)):
        ap = os.path.join(art, fn)
        kind = fn.split('-')[0]
        c.count('libfuzzer_artifacts_' + kind)
        rr = run([exe, ap, '-timeout=25', '-rss_limit_mb=4096'], env=e, cwd=workdir, timeout=900)
        err = rr.stderr.decode('latin1')
        data = open(ap, 'rb').read()
        mc = re.search(r'^API-CONTRACT (\S+) (.*)$', err, re.M)
        key, adv = classify_sanitizer(err, rr.returncode)
        if mc:
            c.violation(mc.group(1), 'libFuzzer artifact %s: %s' % (fn, mc.group(2)), files={'input.bin': data})
        elif key and 'HARNESS/' not in key:
            c.violation(key, 'libFuzzer artifact %s (%d bytes)' % (fn, len(data)), files={'input.bin': data}, text=err)
        elif kind == 'timeout' and 'ALARM' in err:
            c.violation('hang:libfuzzer-target', 'libFuzzer artifact %s needs more than 25 s' % fn, files={'input.bin': data}, text=err)
        elif key:
            c.fail_harness('libFuzzer artifact %s: sanitizer report inside the harness: %s' % (fn, err[-500:]))
        else:
            c.count('libfuzzer_artifacts_not_reproduced_in_isolation')
            unresolved.append((ap, kind))
    return execd, unresolved


# --------------------------------------------------------------------------------------
# valgrind memcheck as a second opinion on a plain (-O2) build: uninitialised values and invalid accesses that the red-zone model
# of ASan does not see (arena memory, uninitialised reads). Only errors whose innermost frame is carquet code count; errors that
# start inside zlib/zstd/libc (known benign uninitialised reads in their inner loops) are counted as advisory.

_REPO_BASENAMES = None


def valgrind_errors(text):
    """yields (kind, function, basename:line, block) per memcheck error block"""
    global _REPO_BASENAMES
    if _REPO_BASENAMES is None:
        _REPO_BASENAMES = set(os.path.basename(p) for p in LIB_SOURCES)
    blocks = re.split(r'\n==\d+== \n', text)
    for b in blocks:
        m = re.search(r'==\d+== (Conditional jump or move depends on uninitialised value\(s\)|Use of uninitialised value of size \d+|Invalid read of size \d+|Invalid write of size \d+|Syscall param \S+ (?:points to|contains) uninitialised byte\(s\)|Invalid free\(\)[^\n]*|Mismatched free\(\)[^\n]*|Source and destination overlap[^\n]*)', b)
        if not m:
            continue
        fm = re.search(r'==\d+==    at 0x[0-9A-Fa-f]+: (\S+) \(([^):]+):(\d+)\)', b)
        if not fm:
            fm2 = re.search(r'==\d+==    at 0x[0-9A-Fa-f]+: (\S+)', b)
            yield re.sub(r'\d+', 'N', m.group(1)).replace(' ', '-')[:50], (fm2.group(1) if fm2 else '?'), None, b
            continue
        yield re.sub(r'\d+', 'N', m.group(1)).replace(' ', '-')[:50], fm.group(1), (fm.group(2), int(fm.group(3))), b


def run_valgrind(c, cmd, env=None, timeout=7200, what=''):
    r = run(['valgrind', '--tool=memcheck', '-q', '--error-exitcode=0', '--track-origins=yes', '--num-callers=12', '--error-limit=no'] + cmd, env=env, timeout=timeout)
    err = r.stderr.decode('latin1')
    c.count('valgrind_runs')
    if r.returncode == -999:
        c.fail_harness('valgrind run exceeded its watchdog: %s' % ' '.join(cmd)[:200])
    n = 0
    for kind, fn, loc, blk in valgrind_errors(err):
        n += 1
        if loc and loc[0] in _REPO_BASENAMES:
            c.violation('valgrind:%s:%s' % (kind, fn), '%s at %s:%d (%s)' % (kind, loc[0], loc[1], what), text=blk)
        else:
            c.count('valgrind_reports_starting_outside_carquet')
    c.count('valgrind_error_blocks', n)
    return r

# --------------------------------------------------------------------------------------
# sanitizer report classification

_ADVISORY_UB = ('shift exponent', 'left shift of', 'signed integer overflow', 'misaligned address',
                'is outside the range of representable values', 'not a valid value for type',
                'negation of', 'division by zero', 'load of misaligned', 'store to misaligned',
                'member access within misaligned', 'reference binding to misaligned',
                'applying zero offset to null pointer', 'applying non-zero offset', 'null pointer passed as argument')


def _carquet_fn(stack_text):
    """innermost frame whose source path lies in the repository's src/ tree"""
    for m in re.finditer(r'#\d+ 0x[0-9a-f]+ in (\S+) (\S+)', stack_text):
        fn, loc = m.group(1), m.group(2)
        if (REPO + '/src/') in loc:
            return fn
    m = re.search(r'#\d+ 0x[0-9a-f]+ in (\S+)', stack_text)
    return 'HARNESS/' + (m.group(1) if m else 'unknown')


def classify_sanitizer(text, returncode=None):
    """Return (key or None, advisory_count). key is '<tool>:<kind>:<fn>'."""
    adv = 0
    for line in text.splitlines():
        if 'runtime error:' in line and any(a in line for a in _ADVISORY_UB):
            adv += 1
    m = re.search(r'ERROR: AddressSanitizer: (\S+)', text)
    if m:
        kind = m.group(1)
        tail = text[m.start():]
        return 'asan:%s:%s' % (kind, _carquet_fn(tail)), adv
    m = re.search(r'ERROR: LeakSanitizer: detected memory leaks', text)
    if m:
        tail = text[m.start():]
        # one block per leak; only blocks whose allocation stack passes through the repository count against carquet
        blocks = re.split(r'\n(?=(?:Direct|Indirect) leak of )', tail)
        for b in blocks:
            if (REPO + '/src/') in b and b.lstrip().startswith(('Direct', 'Indirect')):
                return 'lsan:leak:%s' % _carquet_fn(b), adv
        return 'lsan:leak:HARNESS/only-driver-allocations', adv
    for line in text.splitlines():
        if 'runtime error:' in line and not any(a in line for a in _ADVISORY_UB):
            mm = re.search(r'runtime error: (.*)', line)
            what = re.sub(r'0x[0-9a-f]+|\d+', 'N', mm.group(1))[:40].strip().replace(' ', '_')
            idx = text.find(line)
            return 'ubsan:%s:%s' % (what, _carquet_fn(text[idx:])), adv
    if returncode is not None and returncode < 0:
        return 'signal:%d' % (-returncode), adv
    return None, adv


# --------------------------------------------------------------------------------------

class Check:
    """One run of one property's check. Collects coverage, violations, known findings."""

    def __init__(self, prop, level, argv=None):
        import argparse
        ap = argparse.ArgumentParser()
        ap.add_argument('--tier', default=os.environ.get('VERIF_TIER', 'quick'), choices=['quick', 'thorough'])
        ap.add_argument('--replay', default=None)
        ap.add_argument('--seed', type=int, default=None)
        a = ap.parse_args(argv)
        self.prop = prop
        self.level = level
        self.tier = a.tier
        self.replay = a.replay
        self.seed = a.seed if a.seed is not None else int(os.environ.get('VERIF_SEED', '1') or 1)
        self.replay_key = None
        if a.replay:
            # a replay directory records the seed and tier of the run that found the violation: re-run exactly that
            # exploration (all checks are deterministic functions of seed and tier, C07 up to thread scheduling) and
            # report whether the same violation key comes back. Evidence files are not rewritten by replays.
            rp = a.replay if os.path.isdir(a.replay) else os.path.dirname(a.replay)
            try:
                first = open(os.path.join(rp, 'README')).readline()
                m = re.match(r'property=(\S+) key=(.*) seed=(\d+) tier=(\w+)', first)
                if m and m.group(1) == prop:
                    self.replay_key, self.seed, self.tier = m.group(2), int(m.group(3)), m.group(4)
            except OSError:
                pass
            if self.replay_key is None:
                print('INCONCLUSIVE: %s is not a replay directory of %s' % (a.replay, prop))
                sys.exit(2)
        self.t0 = time.time()
        self.evaluations = 0
        self.distinct = set()
        self.samples = []
        self.observed = {}
        self.rule = ''
        self.assumptions = []
        self.violations = []      # (key, what, replay)
        self.known_hits = {}
        self.inconclusive = []
        self.exhaustive = None
        self.extra = {}
        kf = os.path.join(VERIF, 'known_findings.json')
        self.known = []
        if os.path.exists(kf):
            self.known = [e for e in json.load(open(kf)).get('findings', []) if e.get('property') == prop]
        self.rng = random.Random(self.seed * 1000003 + int(prop[1:]))

    # counters ------------------------------------------------------------------------
    def count(self, name, n=1):
        self.observed[name] = self.observed.get(name, 0) + n

    def merge_counts(self, d, prefix=''):
        for k, v in d.items():
            if isinstance(v, (int, float)):
                self.count(prefix + k, v)

    def case(self, ident, nontrivial=True):
        self.evaluations += 1
        if nontrivial:
            self.distinct.add(ident if isinstance(ident, (str, int)) else _sha(repr(ident))[:16])

    def sample(self, s, cap=6):
        if len(self.samples) < cap:
            self.samples.append(s)

    # violations ----------------------------------------------------------------------
    def violation(self, key, what, files=None, text=None):
        """Record a violation with canonical key. files: dict name->bytes/str stored in replay dir."""
        for e in self.known:
            if e.get('status') == 'open' and e.get('key') == key:
                self.known_hits.setdefault(key, [e, 0])[1] += 1
                return False
        for v in self.violations:
            if v[0] == key:
                v[3] += 1
                return True
        rd = os.path.join(VERIF, 'replay', self.prop, re.sub(r'[^A-Za-z0-9_.-]+', '_', key)[:80])
        os.makedirs(rd, exist_ok=True)
        for n, b in (files or {}).items():
            with open(os.path.join(rd, n), 'wb' if isinstance(b, bytes) else 'w') as fh:
                fh.write(b)
        with open(os.path.join(rd, 'README'), 'w') as fh:
            fh.write('property=%s key=%s seed=%d tier=%s\n%s\n' % (self.prop, key, self.seed, self.tier, what))
            if text:
                fh.write('\n' + text[-20000:])
        self.violations.append([key, what, rd, 1])
        return True

    def sanitizer_output(self, text, returncode, ctx_what, files=None):
        """Classify a driver's stderr; records violation when non-advisory. Returns True if violation seen."""
        key, adv = classify_sanitizer(text, returncode)
        if adv:
            self.count('advisory_ub', adv)
        if key and 'HARNESS/' in key:
            # the innermost frames are all outside /repo/src: a defect of the driver, not of carquet
            self.fail_harness('sanitizer report inside the harness (%s): %s\n%s' % (key, ctx_what, text[-1500:]))
            return True
        if key:
            self.violation(key, ctx_what, files=files, text=text)
            return True
        return False

    def fail_harness(self, msg):
        self.inconclusive.append(msg)

    def require(self, name, minimum=1):
        if self.observed.get(name, 0) < minimum:
            self.inconclusive.append('coverage floor not met: %s=%s < %s' % (name, self.observed.get(name, 0), minimum))

    # finish --------------------------------------------------------------------------
    def finish(self):
        cov = {
            'evaluations': int(self.evaluations),
            'distinct_nontrivial': len(self.distinct) + getattr(self, '_distinct_extra', 0),
            'rule': self.rule,
            'samples': self.samples or ['(none)'],
            'observed': self.observed,
        }
        if self.exhaustive is not None:
            cov['exhaustive'] = self.exhaustive
        cov.update(self.extra)
        ev = {
            'property_id': self.prop, 'tier': self.tier, 'seed': self.seed, 'level': self.level,
            'coverage': cov, 'assumptions': self.assumptions, 'wall_s': round(time.time() - self.t0, 2),
            'violations': len(self.violations),
            'known_findings_hit': {k: v[1] for k, v in self.known_hits.items()},
            'inconclusive': self.inconclusive,
            'tree_hash': tree_hash()[:16],
        }
        if not self.replay and not os.environ.get('VERIF_NO_EVIDENCE'):
            os.makedirs(os.path.join(VERIF, 'evidence'), exist_ok=True)
            tmp = os.path.join(VERIF, 'evidence', '.%s.%d.tmp' % (self.prop, os.getpid()))
            with open(tmp, 'w') as fh:
                json.dump(ev, fh, indent=1, default=str)
            os.replace(tmp, os.path.join(VERIF, 'evidence', self.prop + '.json'))
        for k, (e, n) in self.known_hits.items():
            print('KNOWN-FINDING: property=%s %s [key=%s, %d occurrence(s)]' % (self.prop, e.get('what', ''), k, n))
        for key, what, rd, n in self.violations:
            print('VIOLATION property=%s replay=%s' % (self.prop, rd))
            print('  key=%s occurrences=%d: %s' % (key, n, what))
        print('%s %s seed=%d: evaluations=%d distinct_nontrivial=%d violations=%d known=%d wall=%.1fs' % (
            self.prop, self.tier, self.seed, self.evaluations, len(self.distinct) + getattr(self, '_distinct_extra', 0), len(self.violations),
            len(self.known_hits), time.time() - self.t0))
        print('  observed: ' + json.dumps(self.observed, sort_keys=True))
        if self.replay_key is not None:
            hit = any(v[0] == self.replay_key for v in self.violations)
            print('REPLAY key=%s: %s' % (self.replay_key, 'reproduced' if hit else 'not reproduced on this tree'))
        if self.violations:
            sys.exit(1)
        if self.inconclusive:
            for m in self.inconclusive:
                print('INCONCLUSIVE: ' + m)
            sys.exit(2)
        sys.exit(0)


def run_main(prop, level, fn):
    c = Check(prop, level, sys.argv[1:])
    # wall-clock watchdog over the whole check: firing is a harness failure (inconclusive), never a verdict on carquet
    import signal
    limit = int(os.environ.get('VERIF_WALL_LIMIT', '3600' if c.tier == 'quick' else '43200'))

    def _alarm(signum, frame):
        raise HarnessError('check exceeded its wall-clock watchdog of %d s' % limit)
    signal.signal(signal.SIGALRM, _alarm)
    signal.alarm(limit)
    try:
        fn(c)
    except HarnessError as e:
        print('HARNESS FAILURE: %s' % e)
        c.fail_harness(str(e)[:500])
    except Exception as e:      # a defect of the machinery must never look like a verdict (Python would exit 1)
        import traceback
        traceback.print_exc()
        c.fail_harness('uncaught %s in the check script: %s' % (type(e).__name__, str(e)[:300]))
    c.finish()


def run(cmd, env=None, input=None, timeout=None, cwd=None, cpu_limit=None, stack_kb=None, fsize=None):
    e = dict(os.environ)
    e.update(ASAN_ENV)
    if env:
        e.update(env)

    def pre():
        import resource
        if cpu_limit:
            resource.setrlimit(resource.RLIMIT_CPU, (cpu_limit, cpu_limit + 2))
        if fsize is not None:
            resource.setrlimit(resource.RLIMIT_FSIZE, (fsize, fsize))
        resource.setrlimit(resource.RLIMIT_CORE, (0, 0))
    try:
        r = subprocess.run(cmd, env=e, input=input, capture_output=True, timeout=timeout, cwd=cwd, preexec_fn=pre)
    except subprocess.TimeoutExpired as ex:
        class R:
            pass
        r = R()
        r.returncode = -999
        r.stdout = ex.stdout or b''
        r.stderr = (ex.stderr or b'') + b'\nWATCHDOG TIMEOUT\n'
    return r


def pmap(fn, items, workers=None):
    with ThreadPoolExecutor(workers or NCPU) as ex:
        return list(ex.map(fn, items))


def run_shards(c, exe, shards, env=None, cpu_limit=600, timeout=3600, what='driver', stdin_for=None, workers=None):
    """Run exe once per shard (list of argv lists) in parallel; parse the vdrv.h protocol into Check c.
    Returns list of (shard, returncode, stdout_text, stderr_text)."""
    def one(args):
        inp = stdin_for(args) if stdin_for else None
        r = run([exe] + [str(a) for a in args], env=env, cpu_limit=cpu_limit, timeout=timeout, input=inp)
        return args, r.returncode, r.stdout.decode('latin1'), r.stderr.decode('latin1')
    results = pmap(one, shards, workers)
    for args, rc, out, err in results:
        tag = '%s %s' % (os.path.basename(exe), ' '.join(str(a) for a in args[:5])) + (' ...' if len(args) > 5 else '')
        got_eval = False
        for line in out.splitlines():
            if line.startswith('VIOL '):
                key, _, detail = line[5:].partition(' | ')
                c.violation(key.strip(), '%s: %s' % (tag, detail), files={'cmd.txt': tag + '\n'}, text=detail)
            elif line.startswith('COUNT '):
                _, n, v = line.split(' ', 2)
                try:
                    c.count(n, int(v))
                except ValueError:
                    pass
            elif line.startswith('SAMPLE '):
                c.sample(line[7:])
            elif line.startswith('EVAL '):
                p = line.split()
                c.evaluations += int(p[1])
                # distinct hashes are per shard; shards use disjoint generators so sums are sound lower-level counts
                c._distinct_extra = getattr(c, '_distinct_extra', 0) + int(p[3])
                got_eval = True
        sank = c.sanitizer_output(err, rc, tag, files={'cmd.txt': tag + '\n', 'stderr.txt': err[-100000:]})
        if not sank:
            if rc == -999 or rc == -24 or 'WATCHDOG' in err:
                c.violation('hang:%s:%s' % (what, args[0] if args else ''), tag + ' exceeded CPU/wall watchdog', text=err)
            elif rc != 0:
                c.fail_harness('%s exited %d: %s' % (tag, rc, err[-300:]))
            elif not got_eval:
                c.fail_harness('%s produced no EVAL record' % tag)
    return results
