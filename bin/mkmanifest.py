#!/usr/bin/env python3
"""Regenerates MANIFEST.json from the table below (keeps it schema-valid at all times)."""
import json, os, subprocess
root = os.path.dirname(os.path.dirname(os.path.abspath(__file__)))
props = [json.loads(l) for l in open(os.path.join(root, 'properties.jsonl'))]

# id -> (category, technique, level text, level note, design ref, engine)
CHECKS = {
 'C11': ('exploration', 'ASan/UBSan in-process round-trip monitor; bounded-exhaustive + generated sequences',
         'Round trips of every encoder/decoder pair observed under ASan+UBSan with exact-size heap buffers: all binary sequences up to length 14 (18 thorough) and ternary up to 9 (11), all alternating run triples, random run-structured sequences at widths 0..32 with streaming get/get_batch/skip histories against the one-shot decode, DELTA at every width 0..64 x block-boundary lengths, byte-array deltas, BSS, dictionary, PLAIN for 8 types. Held on the executions counted in the evidence; not a proof over all sequences.',
         'Trusts gcc ASan/UBSan and the driver comparators (memcmp). Encoders that return non-OK are counted as refusals.', '5/C11', 'asan-inproc'),
}
NOT_YET = 'check not built yet in this round (work in progress; see DESIGN.md section 5 for the planned monitor)'

repo_hooks = []
try:
    out = subprocess.run(['git', '-C', '/repo', 'log', '--format=%h %s'], capture_output=True, text=True).stdout
    repo_hooks = [l.split()[0] for l in out.splitlines() if l.split(' ', 1)[1].startswith('verif hooks')]
except Exception:
    pass

m = {
 'version': 1,
 'setup_cmd': 'python3 bin/setup.py',
 'hooks': {
  'guard': 'CARQUET_VERIF',
  'enable': 'bin/vlib.py compiles /repo\'s 41 library sources itself with -DCARQUET_VERIF (per sanitizer variant, cached by content hash of the working tree); the CPU cap is gated at run time by CARQUET_VERIF_CPU_CAP, the arena ASan islands are active only in ASan builds',
  'baseline_off_cmd': 'bash bin/baseline_off.sh',
  'source_commits': repo_hooks,
  'add_only': True,
 },
 'engines': [
  {'name': 'asan-inproc', 'path': 'drivers/', 'serves_properties': [k for k, v in CHECKS.items() if v[5] == 'asan-inproc'],
   'kind_free_text': 'C drivers linked against an ASan+UBSan build of /repo, exact-size heap buffers, in-process oracles'},
 ],
 'checks': [],
 'notes': 'All checks: python3 checks/cNN.py --tier quick|thorough; exit 0 held / 1 VIOLATION / 2 inconclusive or harness failure. VERIF_SEED honoured. known_findings.json lists genuine defects (open entries -> KNOWN-FINDING lines).',
 'not_applicable': [],
}
for p in props:
    i = p['id']
    if i in CHECKS:
        cat, tech, text, note, ref, eng = CHECKS[i]
        n = i.lower()
        m['checks'].append({
            'property_id': i,
            'quick_cmd': 'python3 checks/%s.py --tier quick' % n,
            'thorough_cmd': 'python3 checks/%s.py --tier thorough' % n,
            'evidence_file': 'evidence/%s.json' % i,
            'replay_cmd_template': 'python3 checks/%s.py --replay {path}' % n,
            'engine': eng,
            'level_claimed': {'category': cat, 'text': text, 'design_ref': 'DESIGN.md section ' + ref},
            'level_note': note,
            'technique': tech,
        })
    else:
        m['not_applicable'].append({'property_id': i, 'reason': NOT_YET})
json.dump(m, open(os.path.join(root, 'MANIFEST.json'), 'w'), indent=1)
try:
    import jsonschema
    jsonschema.validate(m, json.load(open('/root/.vp/MANIFEST.schema.json')))
    print('MANIFEST valid; claimed:', [c['property_id'] for c in m['checks']])
except ImportError:
    print('jsonschema not available; written without validation')
