#!/usr/bin/env python3
"""Offline setup: byte-compile the framework and probe optional system oracles."""
import compileall, ctypes.util, json, os, sys
root = os.path.dirname(os.path.dirname(os.path.abspath(__file__)))
ok = compileall.compile_dir(os.path.join(root, 'bin'), quiet=1) and \
     compileall.compile_dir(os.path.join(root, 'ref'), quiet=1) and \
     compileall.compile_dir(os.path.join(root, 'checks'), quiet=1)
libs = {n: ctypes.util.find_library(n) for n in ('snappy', 'lz4', 'xxhash', 'zstd', 'z')}
print(json.dumps({'oracle_libs': libs}))
sys.exit(0 if ok else 2)
