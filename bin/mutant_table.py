#!/usr/bin/env python3
"""prints the markdown table of DESIGN.md section 10 from seeded/*/m*/meta.json and seeded/RESULTS.json"""
import os, json, re
V = os.path.dirname(os.path.dirname(os.path.abspath(__file__)))
res = json.load(open(os.path.join(V, 'seeded', 'RESULTS.json')))
print('| change | file | what it does (author\'s summary, shortened) | result | first violation key |')
print('|---|---|---|---|---|')
for pid in sorted(os.listdir(os.path.join(V, 'seeded'))):
    d = os.path.join(V, 'seeded', pid)
    if not os.path.isdir(d):
        continue
    for m in sorted(os.listdir(d), key=lambda x: int(x[1:]) if x[1:].isdigit() else 0):
        mp = os.path.join(d, m, 'meta.json')
        if not os.path.exists(mp):
            continue
        meta = json.load(open(mp))
        r = res.get('%s/%s' % (pid, m), {})
        summ = re.sub(r'\s+', ' ', (meta.get('summary') or '')).replace('|', '/')
        if len(summ) > 150:
            summ = summ[:147] + '...'
        keys = (r.get('runs') or [{}])[-1].get('keys') or ['']
        files = ', '.join(os.path.basename(f) for f in meta.get('files_changed', []))
        print('| %s/%s | %s | %s | %s%s | `%s` |' % (pid, m, files, summ, r.get('status', 'not run'), (' (' + r['caught_by_tier'] + ')') if r.get('caught_by_tier') else '', keys[0][:70]))
