#!/usr/bin/env python3
"""Confirms and imports the property-breaking changes written by the independent agents.
For worktree /tmp/wt-<id>: each _mutant/patch<k>.diff is applied to the clean worktree, the library is built with cmake and the
whole ctest suite run (must pass), the agent's demo<k>.sh is run (output kept as demonstration.txt), the tree is restored. Confirmed
mutants are copied to /verif/seeded/<id>/m<k>/ (patch.diff, demo.c, demo.sh, demonstration.txt, meta.json). The worktree is
removed afterwards (git -C /repo worktree remove --force) unless --keep.
usage: bin/import_mutants.py C01 [C02 ...] [--keep] [--prefix wt2-] [--offset 3]"""
import os, sys, json, subprocess, shutil
VERIF = os.path.dirname(os.path.dirname(os.path.abspath(__file__)))


def sh(cmd, cwd=None, timeout=1800):
    try:
        return subprocess.run(cmd, shell=True, cwd=cwd, capture_output=True, text=True, timeout=timeout)
    except subprocess.TimeoutExpired as e:
        class R: pass
        r = R(); r.returncode = -9; r.stdout = (e.stdout or b'').decode(errors='replace') if isinstance(e.stdout, bytes) else (e.stdout or ''); r.stderr = 'TIMEOUT'
        return r


def main():
    keep = '--keep' in sys.argv
    argv = sys.argv[1:]
    prefix = argv[argv.index('--prefix') + 1] if '--prefix' in argv else 'wt-'
    offset = int(argv[argv.index('--offset') + 1]) if '--offset' in argv else 0
    skip = set()
    for fl in ('--prefix', '--offset'):
        if fl in argv:
            skip.add(argv.index(fl) + 1)
    for pid in [a for i, a in enumerate(argv) if not a.startswith('--') and i not in skip]:
        wt = '/tmp/' + prefix + pid
        md = os.path.join(wt, '_mutant')
        if not os.path.isdir(md):
            print(pid, 'no _mutant directory'); continue
        try:
            meta = json.load(open(os.path.join(md, 'meta.json')))
        except Exception as e:
            meta = []; print(pid, 'meta.json unreadable:', e)
        sh('git checkout -- . && rm -rf _b', cwd=wt)
        for k in range(1, 10):
            patch = os.path.join(md, 'patch%d.diff' % k)
            if not os.path.exists(patch):
                continue
            ent = next((m for m in meta if isinstance(m, dict) and m.get('patch') == 'patch%d.diff' % k), {})
            a = sh('git apply %s' % patch, cwd=wt)
            if a.returncode != 0:
                print(pid, k, 'patch does not apply:', a.stderr[-200:]); continue
            files = sh('git diff --name-only', cwd=wt).stdout.split()
            ok_scope = all(f.startswith('src/') or f.startswith('include/') for f in files)
            b = sh('cmake -G Ninja -B _b -DCMAKE_BUILD_TYPE=Release >/dev/null && cmake --build _b -j8 2>&1 | tail -3 && ctest --test-dir _b -j8 --timeout 900 2>&1 | tail -4', cwd=wt)
            tests_ok = '100% tests passed' in b.stdout
            for _ in range(2):      # the suite writes fixed /tmp names: a concurrent run elsewhere makes test_maturity fail spuriously
                if tests_ok:
                    break
                b2 = sh('ctest --test-dir _b -j2 --timeout 900 2>&1 | tail -4', cwd=wt)
                tests_ok = '100% tests passed' in b2.stdout
            demo = sh('bash %s 2>&1 | tail -60' % os.path.join(md, 'demo%d.sh' % k), cwd=md, timeout=900) if os.path.exists(os.path.join(md, 'demo%d.sh' % k)) else None
            sh('git checkout -- . && rm -rf _b', cwd=wt)
            status = 'confirmed' if (tests_ok and ok_scope) else 'rejected'
            print(pid, k, status, 'tests_ok=%s scope_ok=%s files=%s' % (tests_ok, ok_scope, files))
            if status != 'confirmed':
                print(b.stdout[-400:]); continue
            dst = os.path.join(VERIF, 'seeded', pid, 'm%d' % (k + offset))
            os.makedirs(dst, exist_ok=True)
            shutil.copy(patch, os.path.join(dst, 'patch.diff'))
            for ext in ('c', 'sh', 'py'):
                src = os.path.join(md, 'demo%d.%s' % (k, ext))
                if os.path.exists(src):
                    shutil.copy(src, os.path.join(dst, 'demo.' + ext))
            for extra in os.listdir(md):
                if extra.endswith(('.sh', '.h', '.py')) and not extra.startswith('demo') and os.path.isfile(os.path.join(md, extra)):
                    shutil.copy(os.path.join(md, extra), os.path.join(dst, extra))
            open(os.path.join(dst, 'demonstration.txt'), 'w').write('# output of the author\'s demo on the mutated tree (bash demo.sh), last 60 lines\n' + (demo.stdout[-6000:] if demo else '(no demo script)'))
            ent = dict(ent); ent.update({'property': pid, 'files_changed': files, 'tests_pass_confirmed': tests_ok, 'author': 'independent sub-agent given only the property text and a scratch worktree'})
            json.dump(ent, open(os.path.join(dst, 'meta.json'), 'w'), indent=1)
        if not keep:
            sh('git -C /repo worktree remove --force %s' % wt)
            shutil.rmtree(wt, ignore_errors=True)


if __name__ == '__main__':
    main()
