#!/usr/bin/env python3
"""C06: spec-valid files from an independent writer decode to the values stored in them; unimplemented features are
rejected rather than decoded to wrong values."""
import os, sys, shutil, collections
HERE = os.path.dirname(os.path.abspath(__file__))
sys.path.insert(0, os.path.join(HERE, '..', 'bin')); sys.path.insert(0, os.path.join(HERE, '..', 'ref'))
import vlib, refgen


def main(c):
    exe = vlib.build_driver('c02', 'asan')
    exe6 = vlib.build_driver('c06', 'asan')
    scale = 2 if c.tier == 'thorough' else 1
    base = vlib.scratch_dir('c06')
    try:
        d = os.path.join(base, 'valid'); os.makedirs(d)
        n = 1500 if c.tier == 'thorough' else 160
        corpus = refgen.make_corpus(d, c.seed * 101 + 7, n, nested_share=0.5)
        corpus += refgen.make_corpus(d, c.seed * 101 + 8, n // 8, nested_share=0.3, features={'dict': True, 'dict_offset_present': False})
        feats = collections.Counter()
        for pq, td, f in corpus:
            feats['codec_%d' % f['codec']] += 1; feats['level_style_' + f['level_style']] += 1; feats['index_style_' + f['index_style']] += 1
            feats['nested' if f['nested'] else 'flat'] += 1; feats['unknown_fields'] += bool(f['unknown_fields']); feats['long_form_headers'] += bool(f['long_fields'])
            feats['dictionary_chunks'] += f['dict_chunks']; feats['pages'] += f['pages']; feats['crc'] += bool(f['crc']); feats['stats_' + f['stats']] += 1
            feats['depth_ge_3'] += f['max_depth'] >= 3; feats['dict_offset_absent'] += (not f['dict_offset_present']) and f['dict_chunks'] > 0
            for t in f['types']:
                feats['type_%d' % t] += 1
        for k, v in feats.items():
            c.count('feature_' + k, int(v))
        shards = []
        per = 6
        for i in range(0, len(corpus), per):
            args = ['file', c.seed, 1]
            for pq, td, f in corpus[i:i + per]:
                args += [pq, td]
            shards.append(args)
        vlib.run_shards(c, exe, shards, cpu_limit=3000)
        c.sample({'valid_corpus_files': len(corpus), 'example_features': corpus[0][2]})
        # features carquet does not implement
        du = os.path.join(base, 'unsup'); os.makedirs(du)
        shards = []
        for ui, un in enumerate(['DELTA', 'DELTA_LEN', 'DELTA_BA', 'BSS', 'v2', 'BIT_PACKED_LEVELS', 'codec3', 'codec4', 'codec99']):
            cu = refgen.make_corpus(du, c.seed * 211 + ui, (120 if un == 'BIT_PACKED_LEVELS' else 40) if c.tier == 'thorough' else (30 if un == 'BIT_PACKED_LEVELS' else 8), nested_share=0.2, features={'unsupported': un, 'dict': False, 'unknown_fields': False, 'codec': 0 if un.startswith('codec') else None} if un.startswith('codec') else {'unsupported': un, 'dict': False, 'unknown_fields': False})
            args = [c.seed]
            for pq, td, f in cu:
                args += [pq, td]
            shards.append(args)
            c.count('unsupported_variant_' + un, len(cu))
        vlib.run_shards(c, exe6, shards, cpu_limit=3000)
    finally:
        shutil.rmtree(base, ignore_errors=True)
    c.rule = ('files are produced by ref/parquet_ref.py (independent writer; self-checked by the independent reader) over flat and nested schemas (optional/repeated ancestors to depth 4), 8 physical '
              'types, PLAIN / dictionary pages with index widths 0..20, level and index runs in 7 styles (RLE only, bit-packed only, mixed, zero-length runs, over-long final run, non-zero padding), '
              '1..6 pages per chunk, codecs UNCOMPRESSED/SNAPPY/GZIP/ZSTD/LZ4_RAW, CRC on/off, statistics new/deprecated/both, unknown Thrift fields of every wire type, long-form headers, dictionary offset '
              'present/absent; carquet reads them under the C02 history monitor (levels and dense values vs the writer\'s model). Unsupported features: an error or the right values are both fine. '
              'distinct = history/file hashes')
    c.assumptions = ['the reference writer follows parquet-format; its output is cross-checked by the reference reader, which in turn is validated on carquet-written files in C05',
                     'a chunk whose dictionary_page_offset is absent has data_page_offset pointing at the dictionary page (as parquet-cpp expects)']
    for k in ('reference_written_files', 'histories_run', 'feature_nested', 'feature_dictionary_chunks', 'feature_unknown_fields', 'feature_long_form_headers', 'feature_depth_ge_3',
              'feature_codec_1', 'feature_codec_2', 'feature_codec_6', 'feature_codec_7', 'feature_level_style_bitpack_only', 'feature_level_style_zero_runs', 'feature_type_3', 'feature_dict_offset_absent',
              'unsupported_feature_files'):
        c.require(k)


if __name__ == '__main__':
    vlib.run_main('C06', 'exploration', main)
