#!/usr/bin/env python3
"""C11: every encoding decodes its own output (in-process ASan monitor, exhaustive + generated)."""
import os, sys
sys.path.insert(0, os.path.join(os.path.dirname(os.path.abspath(__file__)), '..', 'bin'))
import vlib

SECTIONS = ['rle_exh', 'rle_runs', 'rle_gen', 'bitpack', 'bitstream', 'plain', 'delta', 'dstr', 'bss', 'dict']


def main(c):
    exe = vlib.build_driver('c11', 'asan')
    scale = 2 if c.tier == 'thorough' else 1
    shards = [[s, c.seed, scale] for s in SECTIONS]
    if c.tier == 'thorough':
        shards += [['rle_gen', c.seed * 100 + k, 2] for k in range(1, 7)] + [['delta', c.seed * 100 + k, 2] for k in range(1, 4)] \
                  + [['dict', c.seed * 100 + k, 2] for k in range(1, 4)]
    vlib.run_shards(c, exe, shards, cpu_limit=3000, timeout=3600)
    c.rule = ('exact-size heap buffers under ASan+UBSan; RLE: all sequences over {0,1}/{0,1,2} up to the stated lengths, all alternating '
              'run triples, random run-structured sequences at widths 0..32 incl. streaming get/get_batch/skip histories; bitpack, PLAIN (8 types), '
              'DELTA_BINARY_PACKED (widths 0..64 x block-boundary lengths), DELTA_LENGTH/DELTA_BYTE_ARRAY, BYTE_STREAM_SPLIT, dictionary. '
              'distinct = distinct (sequence,width) hashes with >= 2 values')
    c.assumptions = ['delta encoders get the capacity the library itself uses (10*n+100)', 'an encoder that refuses (non-OK) is counted, not a failure',
                     'int16 level domain 0..32767']
    c.exhaustive = False
    for k in ('rle_shape_run_after_partial_group', 'rle_stream_histories', 'rle_levels_cases', 'delta64_width_gt32',
              'delta_block_boundary_lengths', 'dict_over_64k_entries', 'rle_width0_cases', 'rle_width32_cases'):
        c.require(k)


if __name__ == '__main__':
    vlib.run_main('C11', 'exploration', main)
