#!/usr/bin/env python3
"""C07: parallel reading is independent of thread count and scheduling (TSan + seeded OpenMP shim, delay injection + I/O event log, concurrent first use)."""
import os, sys, shutil, re, glob
HERE = os.path.dirname(os.path.abspath(__file__))
sys.path.insert(0, os.path.join(HERE, '..', 'bin')); sys.path.insert(0, os.path.join(HERE, '..', 'ref'))
import vlib
import refgen


def tsan_reports(text):
    """yields (kind, fn_a, fn_b, block) for every ThreadSanitizer report; fn_* = first frame under /repo/src of each stack (or None)"""
    for blk in re.split(r'(?=WARNING: ThreadSanitizer: )', text):
        m = re.match(r'WARNING: ThreadSanitizer: ([^\(\n]+)', blk)
        if not m:
            continue
        kind = m.group(1).strip().replace(' ', '-')
        stacks = re.split(r'\n  (?=(?:Write|Read|Previous|Atomic|Location|Thread|Mutex)[^\n]*:\n)', blk)
        fns = []
        for st in stacks[1:3]:
            fn = None
            for fm in re.finditer(r'#\d+ (\S+) (\S+)', st):
                if (vlib.REPO + '/src/') in fm.group(2):
                    fn = fm.group(1); break
            fns.append(fn)
        while len(fns) < 2:
            fns.append(None)
        yield kind, fns[0], fns[1], blk


def main(c):
    thorough = c.tier == 'thorough'
    base = vlib.scratch_dir('c07')
    try:
        WRAP = ['-Wl,--wrap=fseek,--wrap=fread']
        tsan = vlib.build_driver('c07', 'tsan', gomp_shim=True, extra_ldflags=WRAP)
        plain = vlib.build_driver('c07', 'plain', extra_ldflags=WRAP)
        asan = vlib.build_driver('c07', 'asan', extra_ldflags=WRAP)
        exe1 = vlib.build_driver('c01', 'plain')
        scale = 2 if thorough else 1
        # The per-thread ZSTD decompression context (zstd.c tls_dctx) is deliberately kept for the life of the thread and is
        # not released when a thread exits; that is outside C07 (content/status independence), so LSan is told to ignore
        # exactly that allocation. Every other leak on the parallel paths still counts.
        supp = os.path.join(base, 'lsan.supp'); open(supp, 'w').write('leak:ZSTD_createDCtx\n')
        LS = {'LSAN_OPTIONS': 'exitcode=23:suppressions=%s:print_suppressions=0' % supp}
        logdir = os.path.join(base, 'tsanlog'); os.makedirs(logdir)
        tsan_env = {'TSAN_OPTIONS': 'halt_on_error=0:second_deadlock_stack=1:log_path=%s/t:exitcode=0' % logdir}
        # (1) TSan + shim, several schedule seeds
        shards, envs = [], []
        nseeds = 10 if thorough else 4
        for k in range(nseeds):
            w = os.path.join(base, 'ts%d' % k); os.makedirs(w)
            shards.append((['batch', c.seed * 100 + k, scale if k < 2 else 1, w], dict(tsan_env, CQV_SHIM_SEED=str(c.seed * 1000 + k), CQV_SHIM_MAX_THREADS=str(2 + k % 7))))
        # (2) plain + libgomp: delay injection + event log
        for k in range(6 if thorough else 3):
            w = os.path.join(base, 'pl%d' % k); os.makedirs(w)
            shards.append((['batch', c.seed * 100 + 50 + k, scale if k == 0 else 1, w], {'CQV_IO_LOG': '1', 'CQV_IO_DELAY_PERMILLE': str([0, 150, 400][k % 3]), '__exe': plain}))
        # reference-written corpus: dictionary pages (SIMD gather dispatch), page checksums (CRC tables), nesting, every codec
        refdir = os.path.join(base, 'ref'); os.makedirs(refdir)
        corpus = refgen.make_corpus(refdir, c.seed * 7 + 707, 60 if thorough else 24, nested_share=0.25, features={'ngroups': 1}, check=False)
        corpus += refgen.make_corpus(refdir, c.seed * 7 + 708, 12 if thorough else 6, nested_share=0.0, features={'ngroups': 1, 'unsupported': 'BSS'}, check=False)
        reffiles = [pq for pq, td, feat in corpus]
        c.count('reference_written_files_generated', len(reffiles))
        c.count('reference_written_files_with_dictionary_pages', sum(1 for pq, td, feat in corpus if feat.get('dict_chunks')))
        nl = 4 if thorough else 2
        for k in range(nl):
            lf = os.path.join(base, 'reflist%d' % k); open(lf, 'w').write('\n'.join(reffiles[k::nl]) + '\n')
            shards.append((['batchfiles', c.seed * 100 + 70 + k, 1, lf], dict(tsan_env, CQV_SHIM_SEED=str(c.seed * 1000 + 70 + k), CQV_SHIM_MAX_THREADS=str(3 + k))))
            shards.append((['batchfiles', c.seed * 100 + 80 + k, 1, lf], {'CQV_IO_LOG': '1', 'CQV_IO_DELAY_PERMILLE': '200', '__exe': plain}))
        # (3) ASan + libgomp
        w = os.path.join(base, 'as'); os.makedirs(w)
        shards.append((['batch', c.seed * 100 + 90, 1, w], dict(LS, __exe=asan)))
        def one(sh):
            args, env = sh
            env = dict(env); exe = env.pop('__exe', tsan)
            tmp = vlib.Check('C07', 'exploration', ['--tier', c.tier])
            vlib.run_shards(tmp, exe, [args], env=env, cpu_limit=3000, timeout=5400)
            return tmp, exe
        for tmp, exe in vlib.pmap(one, shards, workers=8):
            c.evaluations += tmp.evaluations; c._distinct_extra = getattr(c, '_distinct_extra', 0) + getattr(tmp, '_distinct_extra', 0)
            for k2, v in tmp.observed.items():
                c.count(('tsan_' if exe == tsan else 'libgomp_' if exe == plain else 'asan_') + k2, v)
            for key, what, rd, n in tmp.violations:
                c.violation(key, what, text=open(os.path.join(rd, 'README')).read() if os.path.exists(os.path.join(rd, 'README')) else None)
            for m in tmp.inconclusive:
                c.fail_harness(m)
            for s in tmp.samples:
                c.sample(s)
        # (4) concurrent first use in fresh processes
        kd = os.path.join(base, 'k'); w = os.path.join(base, 'w'); os.makedirs(kd); os.makedirs(w)
        c2 = vlib.Check('C07', 'exploration', ['--tier', c.tier])
        vlib.run_shards(c2, exe1, [['gen', c.seed * 1000 + 404, 0, w, kd]], cpu_limit=3000)
        files = []
        for fn in sorted(os.listdir(kd)):
            if fn.endswith('.parquet') and 1500 < os.path.getsize(os.path.join(kd, fn)) < 60000:
                meta = open(os.path.join(kd, fn[:-8] + '.meta')).read()
                files.append((int(re.search(r'codec=(\d+)', meta).group(1)), os.path.join(kd, fn)))
        pick = []
        for cd in (6, 0, 1, 2, 5):
            pick += [p for cdd, p in files if cdd == cd][:8 if thorough else 4]
        pick += reffiles[:40 if thorough else 12]
        nproc = 600 if thorough else 90
        fu = []
        for i in range(nproc):
            fu.append((['firstuse', c.seed * 10 + i, 2 + i % 7, pick[i % len(pick)]], dict(tsan_env, CQV_SHIM_SEED=str(i)) if i % 2 == 0 else dict(LS, __exe=asan)))
        # (5) reader pool: one thread opens the handles, other threads use one each concurrently; two handles interleaved on one thread
        npool = 24 if thorough else 8
        for i in range(npool):
            lf = os.path.join(base, 'pool%d' % i); sub = [pick[(i * 5 + j * 3) % len(pick)] for j in range(6)]; open(lf, 'w').write('\n'.join(sub) + '\n')
            fu.append((['pool', c.seed * 10 + 500 + i, 2 + i % 7, lf], [dict(tsan_env, CQV_SHIM_SEED=str(i)), dict(LS, __exe=asan), {'CQV_IO_DELAY_PERMILLE': '150', '__exe': plain}][i % 3]))
        for tmp, exe in vlib.pmap(one, fu, workers=vlib.NCPU):
            c.evaluations += tmp.evaluations; c._distinct_extra = getattr(c, '_distinct_extra', 0) + getattr(tmp, '_distinct_extra', 0)
            for k2, v in tmp.observed.items():
                c.count('firstuse_' + k2, v)
            for key, what, rd, n in tmp.violations:
                c.violation(key, what)
            for m in tmp.inconclusive:
                c.fail_harness(m)
            c.count('first_use_processes')
        # TSan logs
        seen = {}
        for lf in glob.glob(os.path.join(logdir, 't.*')):
            for kind, a, b, blk in tsan_reports(open(lf, errors='replace').read()):
                c.count('tsan_reports_total')
                if a and b:
                    key = 'tsan:%s:%s' % (kind, ':'.join(sorted([a, b])))
                    seen[key] = seen.get(key, 0) + 1
                    c.violation(key, 'ThreadSanitizer %s between %s and %s' % (kind, a, b), text=blk)
                else:
                    c.count('tsan_reports_without_carquet_frames_on_both_stacks')
        c.extra['tsan_distinct_carquet_races'] = len(seen)
    finally:
        shutil.rmtree(base, ignore_errors=True)
    c.rule = ('(1) TSan build linked with drivers/gomp_shim.c (pthread implementation of the five libgomp entry points carquet uses; iterations handed out in seeded random order with seeded yields): batch reader with 2,3,4,8,16 threads '
              'in fread/mmap/buffer mode compared line by line with the 1-thread transcript, all TSan reports with carquet frames on both stacks are violations; (2) -O2 build with the real libgomp and --wrap of fseek/fread: seeded '
              'delays between seek and read, event log checked offline (no foreign operation on a FILE* between a thread\'s fseek and its next fread); (3) ASan build with libgomp; (4) fresh processes in which 2..8 threads open '
              'independent readers behind a barrier as the first carquet calls of the process (TSan and ASan builds alternate), each compared with the solo transcript; (5) reader pools: one thread opens 2..8 handles (same file or different files, mostly fread mode), as many other threads use one each at the same time, and two handles are stepped alternately on one thread - every handle must give its solo transcript. distinct = configurations + thread-id sequences of the I/O log')
    c.assumptions = ['schedules are sampled, not enumerated', 'TSan only sees executed accesses; libc-internal stdio locking is not modelled (reports need carquet frames on both stacks)']
    for k in ('tsan_parallel_runs', 'libgomp_parallel_runs', 'libgomp_io_seek_read_windows', 'libgomp_io_logs_with_several_threads', 'firstuse_concurrent_first_use_readers', 'firstuse_pool_handles_used_concurrently', 'firstuse_interleaved_handle_pairs_on_one_thread', 'first_use_processes', 'tsan_parallel_runs_with_decompression'):
        c.require(k)


if __name__ == '__main__':
    vlib.run_main('C07', 'exploration', main)
