#!/usr/bin/env python3
"""C08: component decoders are safe on arbitrary bytes and respect capacities (in-process fuzz loops under ASan/UBSan/LSan)."""
import os, sys
sys.path.insert(0, os.path.join(os.path.dirname(os.path.abspath(__file__)), '..', 'bin'))
import vlib

FAMILIES = ['thrift', 'rle', 'bitpack', 'plain', 'delta', 'dstr', 'bss', 'dict', 'snappy', 'lz4', 'gzip', 'zstd']


def main(c):
    exe = vlib.build_driver('c08', 'asan')
    thorough = c.tier == 'thorough'
    shards = []
    for f in FAMILIES:
        for k in range(4 if thorough else 2):
            shards.append([f, c.seed * 100 + k, 2 if thorough else 1])
    env = {'ASAN_OPTIONS': vlib.ASAN_ENV['ASAN_OPTIONS'].replace('max_allocation_size_mb=1024', 'max_allocation_size_mb=256')}
    vlib.run_shards(c, exe, shards, env=env, cpu_limit=3000, timeout=3600, what='decoder')
    for f in FAMILIES:
        c.count('families_run')
    # coverage-guided stage: the same family code, one iteration per input, parameters from a 24-bit seed in the input prefix
    import shutil
    base = vlib.scratch_dir('c08')
    try:
        fz = vlib.build_driver('fz_decoders', 'fuzz')
        cdir = os.path.join(base, 'corpus'); os.makedirs(cdir)
        r = vlib.run([exe, 'seeds', cdir], env=env, cpu_limit=600)
        nseeds = len(os.listdir(cdir))
        c.count('libfuzzer_seed_units', nseeds)
        execd, unresolved = vlib.run_libfuzzer(c, fz, base, cdir, 3000000 if thorough else 60000, 48 if thorough else 16, 8192, env=env, seed=c.seed * 11 + 3)
        c.count('libfuzzer_new_corpus_units', len(os.listdir(cdir)) - nseeds)
        for ap, kind in unresolved:
            c.fail_harness('libFuzzer artifact %s did not reproduce in isolation' % os.path.basename(ap))
    finally:
        shutil.rmtree(base, ignore_errors=True)
    c.rule = ('per decoder family an in-process loop calls the internal entry points (Thrift FileMetaData/PageHeader parsers, RLE hybrid one-shot/levels/prefixed/streaming, bit unpacking, PLAIN for 8 types, '
              'DELTA_BINARY_PACKED, DELTA_LENGTH/DELTA_BYTE_ARRAY, BYTE_STREAM_SPLIT, dictionary index decoding, Snappy/LZ4/GZIP/ZSTD decompression) with input in an exact-size heap block and output in an '
              'exact-capacity heap block; inputs are mutations of valid encodings, hostile grammar-built streams and raw random bytes, crossed with bit widths 0..255, counts and capacities; a success return must '
              'not report more than the capacity / input size; LSan recoverable leak checks every 20 000 iterations and at exit. Stage 2: a clang libFuzzer build of the same family code (drivers/fz_decoders.c; input = family byte + 24-bit '
              'parameter seed + payload) explores with coverage feedback from the valid encodings the families build; its artifacts are re-run one per process and classified. distinct = hash(input, parameters)')
    c.assumptions = ['UBSan shift/overflow/alignment reports are advisory (counted, not violations); bounds/null/pointer-overflow are fatal', 'termination is bounded by a CPU-time watchdog per shard',
                     'allocations above 256 MiB fail (allocator_may_return_null) as on a constrained machine']
    c.require('ok_returns'); c.require('error_returns'); c.require('families_run', 12); c.require('libfuzzer_executions', 500000); c.require('libfuzzer_seed_units', 500)


if __name__ == '__main__':
    vlib.run_main('C08', 'exploration', main)
