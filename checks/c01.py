#!/usr/bin/env python3
"""C01: write-then-read round trip returns exactly the table that was written (public API, ASan)."""
import os, sys, shutil
sys.path.insert(0, os.path.join(os.path.dirname(os.path.abspath(__file__)), '..', 'bin'))
import vlib


def main(c):
    exe = vlib.build_driver('c01', 'asan')
    scale = 2 if c.tier == 'thorough' else 1
    base = vlib.scratch_dir('c01')
    try:
        shards = []
        nsh = 16 if c.tier == 'thorough' else 6
        for k in range(nsh):
            d = os.path.join(base, 'g%d' % k); os.makedirs(d)
            shards.append(['gen', c.seed * 1000 + k, scale, d])
        d = os.path.join(base, 'e'); os.makedirs(d)
        shards.append(['enum', c.seed, scale, d])
        vlib.run_shards(c, exe, shards, cpu_limit=3000)
    finally:
        shutil.rmtree(base, ignore_errors=True)
    c.rule = ('seeded generator G_table (schemas x contents x codecs x page sizes x row-group cuts x write_batch partitions x column interleavings) plus bounded-exhaustive '
              'enumeration of every (null pattern x batch partition) of an OPTIONAL column up to 7 (9) rows and every batch partition of a BOOLEAN column up to 11 (14) rows; '
              'each table written through carquet_writer_* with exact-size heap copies, re-opened (path and buffer alternately) and read one chunk per call; null positions and '
              'bit patterns compared with the arrays passed in; byte arrays dereferenced after other column readers were used. distinct = hash(levels, batch partition, case) with >= 1 row')
    c.assumptions = ['cases where any writer call returns non-OK are counted as refusals, not failures', 'REPEATED / nested columns are out of scope of the property']
    for k in ('shape_multi_batch_one_page', 'shape_multi_page_chunk', 'shape_multi_row_group', 'shape_all_null', 'shape_zero_rows', 'shape_null_def_levels',
              'shape_def_run_after_partial_group', 'shape_boolean_split_off_byte', 'shape_byte_array_chunks', 'byte_array_lifetime_checks'):
        c.require(k)


if __name__ == '__main__':
    vlib.run_main('C01', 'exploration', main)
