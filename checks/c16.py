#!/usr/bin/env python3
"""C16: statistics are true bounds and pruning never discards matching data."""
import os, sys, shutil, random, struct, math, hashlib
from concurrent.futures import ProcessPoolExecutor
HERE = os.path.dirname(os.path.abspath(__file__))
sys.path.insert(0, os.path.join(HERE, '..', 'bin')); sys.path.insert(0, os.path.join(HERE, '..', 'ref'))
import vlib
import parquet_ref as P

FMT = {P.INT32: '<i', P.INT64: '<q', P.FLOAT: '<f', P.DOUBLE: '<d'}


def page_stats_one(path):
    """typed check of page-header statistics in a carquet-written file. returns dict"""
    res = {'path': path, 'pages_with_stats': 0, 'nan_pages': 0, 'problems': [], 'treat': 7, 'types': set()}
    try:
        f = P.ParquetFile(open(path, 'rb').read())
        for gi, rg in enumerate(f.row_groups):
            for ci in range(len(rg['columns'])):
                lf = f.leaves[ci]
                ch = f.read_chunk(gi, ci)
                for pi, (st, defs, vals) in enumerate(ch.page_stats):
                    if st is None:
                        continue
                    res['pages_with_stats'] += 1
                    res['types'].add(lf.ptype)
                    nulls = sum(1 for d in defs if d != lf.max_def)
                    nc = P.fget(st, 3)
                    if nc is not None and nc != nulls:
                        res['problems'].append(('null-count', 'chunk [%d,%d] page %d: null_count %d, page has %d nulls' % (gi, ci, pi, nc, nulls)))
                    mx = P.fget(st, 5) if P.fhas(st, 5) else P.fget(st, 1)
                    mn = P.fget(st, 6) if P.fhas(st, 6) else P.fget(st, 2)
                    if mn is None and mx is None:
                        continue
                    if lf.ptype in FMT:
                        fmt = FMT[lf.ptype]
                        if (mn is not None and len(mn) != struct.calcsize(fmt)) or (mx is not None and len(mx) != struct.calcsize(fmt)):
                            res['problems'].append(('stat-size', 'chunk [%d,%d] page %d: statistic of %d/%d bytes for type %d' % (gi, ci, pi, len(mn or b''), len(mx or b''), lf.ptype))); continue
                        V = [struct.unpack(fmt, v)[0] for v in vals]
                        a = struct.unpack(fmt, mn)[0] if mn is not None else None
                        b = struct.unpack(fmt, mx)[0] if mx is not None else None
                        if lf.ptype in (P.FLOAT, P.DOUBLE):
                            real = [v for v in V if v == v]
                            hasnan = len(real) != len(V)
                            if hasnan:
                                res['nan_pages'] += 1
                            ok = 0
                            # ignored
                            if not real or ((a is None or (a == a and all(a <= v for v in real))) and (b is None or (b == b and all(v <= b for v in real)))):
                                ok |= 1
                            key_g = lambda x: (1, 0.0) if x != x else (0, x)
                            key_s = lambda x: (-1, 0.0) if x != x else (0, x)
                            if (a is None or all(key_g(a) <= key_g(v) for v in V)) and (b is None or all(key_g(v) <= key_g(b) for v in V)):
                                ok |= 2
                            if (a is None or all(key_s(a) <= key_s(v) for v in V)) and (b is None or all(key_s(v) <= key_s(b) for v in V)):
                                ok |= 4
                            if not ok:
                                res['problems'].append(('float-min-max-not-bounds', 'chunk [%d,%d] page %d: min=%r max=%r over %d values (NaN present: %s, first value %r)' % (gi, ci, pi, a, b, len(V), hasnan, V[0] if V else None)))
                            elif hasnan:
                                res['treat'] &= ok
                        else:
                            if (a is not None and any(v < a for v in V)) or (b is not None and any(v > b for v in V)):
                                res['problems'].append(('int-min-max-not-bounds', 'chunk [%d,%d] page %d: min=%r max=%r' % (gi, ci, pi, a, b)))
                    else:
                        V = [bytes(v) for v in vals] if lf.ptype != P.BOOLEAN else [bytes([v]) for v in vals]
                        if (mn is not None and any(v < mn for v in V)) or (mx is not None and any(v > mx for v in V)):
                            res['problems'].append(('bytes-min-max-not-bounds', 'chunk [%d,%d] page %d' % (gi, ci, pi)))
    except P.ParquetError as e:
        res['problems'].append(('unreadable', str(e)))
    res['types'] = sorted(res['types'])
    return res


def typed_minmax(ptype, vals):
    if not vals:
        return None
    if ptype in FMT:
        key = lambda v: struct.unpack(FMT[ptype], v)[0]
        return min(vals, key=key), max(vals, key=key)
    return min(vals), max(vals)


def gen_prune_file(rng):
    ncols = rng.randrange(1, 5)
    elems = [{'name': 'schema', 'type': None, 'repetition': None, 'num_children': ncols}]
    types = []
    for c in range(ncols):
        t = rng.choice([P.INT32, P.INT64, P.FLOAT, P.DOUBLE, P.BYTE_ARRAY, P.FLBA])
        types.append(t)
        elems.append({'name': 'c%d' % c, 'type': t, 'type_length': rng.randrange(1, 6) if t == P.FLBA else 0, 'repetition': rng.choice([0, 1]), 'num_children': 0})
    leaves = P.schema_leaves(elems)
    ng = rng.randrange(2, 7)
    groups = []
    nan_file = rng.choice([None, None, 'ignored', 'greatest', 'smallest']); nan_chunks = [0]
    for g in range(ng):
        n = rng.choice([1, 2, 5, 20, 60])
        cols = []
        for lf in leaves:
            defs = [lf.max_def if (lf.max_def == 0 or rng.random() < 0.8) else 0 for _ in range(n)]
            if lf.max_def and rng.random() < 0.1:
                defs = [0] * n
            nn = sum(1 for d in defs if d == lf.max_def)
            base = g * 10 + rng.randrange(-5, 6)
            vals = []
            for _ in range(nn):
                k = rng.random()
                if lf.ptype == P.INT32:
                    x = rng.choice([-2**31, 2**31 - 1]) if k < 0.03 else base + rng.randrange(0, 16) - (300 if k < 0.1 else 0)
                    vals.append(struct.pack('<i', x))
                elif lf.ptype == P.INT64:
                    x = rng.choice([-2**63, 2**63 - 1]) if k < 0.03 else (base + rng.randrange(0, 16)) * (2**33 if k < 0.3 else 1)
                    vals.append(struct.pack('<q', x))
                elif lf.ptype == P.FLOAT:
                    x = rng.choice([float('inf'), float('-inf'), -0.0, 0.0, 0.0, -0.0]) if k < 0.12 else (base + rng.random() * 15) * (-1 if k < 0.3 else 1)
                    vals.append(struct.pack('<f', x))
                elif lf.ptype == P.DOUBLE:
                    x = rng.choice([float('inf'), float('-inf'), -0.0, 0.0, 0.0, -0.0, 5e-324]) if k < 0.12 else (base + rng.random() * 15) * (-1 if k < 0.3 else 1)
                    vals.append(struct.pack('<d', x))
                elif lf.ptype == P.BYTE_ARRAY:
                    L = rng.choice([0, 1, 2, 3, 8])
                    vals.append(bytes(rng.choice(b'ab\x00\xff' + bytes([97 + g % 20])) for _ in range(L)))
                else:
                    vals.append(bytes(rng.choice(b'ab\x00\xff' + bytes([97 + g % 20])) for _ in range(lf.type_length)))
            mm = typed_minmax(lf.ptype, vals)
            # chunks holding NaNs: the statistics are true bounds under one of the three conventions writers use
            # (NaNs left out of min/max; NaN sorted last -> max = NaN, which carquet's own builder emits; NaN sorted first -> min = NaN)
            if lf.ptype in (P.FLOAT, P.DOUBLE) and nn and nan_file and rng.random() < 0.6:
                fmt = FMT[lf.ptype]; nanb = struct.pack(fmt, float('nan'))
                for q in rng.sample(range(nn), max(1, nn // 4)):
                    vals[q] = nanb
                real = [v for v in vals if v != nanb]
                mmr = typed_minmax(lf.ptype, real)
                conv = nan_file
                if mmr is None:
                    mm = None if conv == 'ignored' else (nanb, nanb)
                else:
                    mm = mmr if conv == 'ignored' else (mmr[0], nanb) if conv == 'greatest' else (nanb, mmr[1])
                nan_chunks[0] += 1
            cs = {'pages': [{'defs': defs, 'reps': [0] * n, 'values': vals, 'encoding': 'PLAIN'}], 'dictionary': None}
            if mm is not None and rng.random() < 0.85 and not (lf.ptype == P.BYTE_ARRAY and (len(mm[0]) == 0 or len(mm[1]) == 0)):
                cs['stats'] = (mm[0], mm[1], n - nn)
            elif rng.random() < 0.5:
                cs['stats'] = (None, None, n - nn)
            cols.append(cs)
        groups.append({'num_rows': n, 'columns': cols})
    opt = P.WriteOptions(codec=rng.choice([0, 1]), stats=rng.choice(['new', 'deprecated', 'both', 'new', 'none']), rng=rng, unknown_fields=rng.random() < 0.2)
    data, leaves, model, info = P.write_file(elems, groups, opt)
    return data, leaves, model, opt.stats + (':nan-' + nan_file if nan_chunks[0] and opt.stats != 'none' else '')


def main(c):
    thorough = c.tier == 'thorough'
    base = vlib.scratch_dir('c16')
    try:
        # (a) page statistics written by carquet
        exe1 = vlib.build_driver('c01', 'plain')
        shards = []
        for k in range(4 if thorough else 3):
            w = os.path.join(base, 'w%d' % k); kd = os.path.join(base, 'k%d' % k); os.makedirs(w); os.makedirs(kd)
            shards.append(['gen', c.seed * 1000 + 500 + k, 1, w, kd])   # scale 1 in both tiers (the thorough tier has one more shard): the pure-Python page decoder bounds the volume
        c2 = vlib.Check('C16', 'exploration', ['--tier', c.tier])
        vlib.run_shards(c2, exe1, shards, cpu_limit=3000)
        files = [os.path.join(sh[4], fn) for sh in shards for fn in sorted(os.listdir(sh[4])) if fn.endswith('.parquet')]
        # pure-Python page decoding runs at 1-2 MB/s per core: files above 4 MiB are taken up to a budget of 2 GiB per run, smallest first
        files = [f for f in files if 'literal of 167772' not in open(f[:-8] + '.meta').read()]   # 16.7 million one-byte values: not for the pure-Python decoder
        small = [f for f in files if os.path.getsize(f) <= (4 << 20)]
        budget = 2 << 30; taken = []
        for f in sorted((f for f in files if os.path.getsize(f) > (4 << 20)), key=os.path.getsize):
            if os.path.getsize(f) <= budget:
                taken.append(f); budget -= os.path.getsize(f)
        c.count('large_files_beyond_the_decoding_budget', len(files) - len(small) - len(taken))
        files = small + taken
        with ProcessPoolExecutor(vlib.NCPU) as ex:
            results = list(ex.map(page_stats_one, files, chunksize=8))
        treat = 7
        for r in results:
            c.count('carquet_written_files_checked'); c.count('pages_with_statistics', r['pages_with_stats']); c.count('pages_with_nan_values', r['nan_pages'])
            for t in r['types']:
                c.count('page_stat_type_%d' % t)
            treat &= r['treat']
            c.case(hashlib.sha1(r['path'].encode()).hexdigest()[:12], nontrivial=r['pages_with_stats'] > 0)
            for kind, msg in r['problems']:
                c.violation('page-stats:' + kind, '%s: %s' % (os.path.basename(r['path']), msg), files={'file.parquet': open(r['path'], 'rb').read()})
        if treat == 0:
            c.violation('page-stats:nan-treatment-inconsistent-across-pages', 'no single NaN convention (ignored / greatest / smallest) explains all page statistics of this run')
        c.extra['nan_treatments_consistent_with_all_pages'] = [n for b, n in ((1, 'ignored'), (2, 'greatest'), (4, 'smallest')) if treat & b]
        # (b) builder + helpers
        exe = vlib.build_driver('c16', 'asan')
        shards = [['builder', c.seed * 10 + k, 2 if thorough else 1] for k in range(8 if thorough else 3)]
        vlib.run_shards(c, exe, shards, cpu_limit=3000)
        # (c) pruning on reference-written files
        rng = random.Random(c.seed * 17 + 2)
        d = os.path.join(base, 'prune'); os.makedirs(d)
        shards = []
        cur = ['prune', c.seed]
        nfiles = 600 if thorough else 90
        for i in range(nfiles):
            data, leaves, model, smode = gen_prune_file(rng)
            pq = os.path.join(d, 'p%d.parquet' % i); td = os.path.join(d, 'p%d.tdmp' % i)
            open(pq, 'wb').write(data); P.tdmp_write(td, leaves, model)
            c.count('prune_files_stats_' + smode.split(':')[0])
            if ':' in smode:
                c.count('prune_files_with_nan_chunks_bounds_' + smode.split(':nan-')[1])
            cur += [pq, td]
            if len(cur) >= 2 + 2 * 6:
                shards.append(cur); cur = ['prune', c.seed]
        if len(cur) > 2:
            shards.append(cur)
        vlib.run_shards(c, exe, shards, cpu_limit=3000)
        c.sample({'pruning_file_example': 'flat 1..4 columns over INT32/INT64/FLOAT/DOUBLE/BYTE_ARRAY/FLBA, 2..6 row groups with overlapping value ranges, exact typed min/max in new/deprecated/both/no fields'})
    finally:
        shutil.rmtree(base, ignore_errors=True)
    c.rule = ('(a) page-header statistics of carquet-written files (C01 generator incl. NaN-first float pages) are extracted by the reference reader and compared with the page values in the type order, floats under one '
              'consistent NaN convention; (b) the statistics builder is fed value sets of all 8 types in 1..3 batches and its min/max/null_count brute-force checked, compare/range_overlaps/page_might_match must not exclude '
              'present values; (c) reference-written multi-row-group files with exact statistics: for probes at/around stored values x 6 operators the ground truth per group is computed from the data; row_group_matches '
              'must say might-match for every group with a matching row or without statistics, filter_row_groups must equal the capped ascending list. distinct = probe/value-set hashes')
    c.assumptions = ['pruning data are NaN-free (the property leaves NaN semantics of predicates open)', 'INT96 and BOOLEAN are outside the reader-API part of the property']
    for k in ('pages_with_statistics', 'pages_with_nan_values', 'builder_stats_with_min_max', 'builder_values_over_256_bytes', 'compare_helper_calls', 'range_helper_calls', 'page_might_match_calls',
              'predicate_evaluations', 'groups_pruned', 'groups_without_min_max_probed', 'filter_calls', 'prune_files_stats_deprecated', 'prune_files_stats_both', 'prune_files_stats_none', 'prune_files_with_nan_chunks_bounds_ignored', 'prune_files_with_nan_chunks_bounds_greatest', 'prune_files_with_nan_chunks_bounds_smallest'):
        c.require(k)


if __name__ == '__main__':
    vlib.run_main('C16', 'exploration', main)
