#!/usr/bin/env python3
"""C13: Thrift metadata round-trips and is genuine compact protocol (carquet <-> independent codec, both directions)."""
import os, sys, shutil, random, hashlib
HERE = os.path.dirname(os.path.abspath(__file__))
sys.path.insert(0, os.path.join(HERE, '..', 'bin')); sys.path.insert(0, os.path.join(HERE, '..', 'ref'))
import vlib
import thrift_compact as T
import thrift_idl as I


def field_class(line):
    import re
    p = line.split(' ')[0]
    return re.sub(r'\[\d+\]', '[]', p)


def main(c):
    exe = vlib.build_driver('c13', 'asan')
    thorough = c.tier == 'thorough'
    base = vlib.scratch_dir('c13')
    try:
        # ---------------- direction 1: carquet writes, reference decodes ----------------
        nsh = 12 if thorough else 4
        per = 1200 if thorough else 250
        shards = []
        for k in range(nsh):
            d = os.path.join(base, 'w%d' % k); os.makedirs(d)
            shards.append(['gen', c.seed * 100 + k, per, d])
        vlib.run_shards(c, exe, shards, cpu_limit=3000)
        for sh in shards:
            d = sh[3]
            for n in range(per):
                for kind, sname in (('fm', 'FileMetaData'), ('ph', 'PageHeader')):
                    bp = os.path.join(d, '%d.%s.bin' % (n, kind))
                    if not os.path.exists(bp):
                        continue
                    data = open(bp, 'rb').read()
                    want = sorted(l for l in open(os.path.join(d, '%d.%s.txt' % (n, kind))).read().split('\n') if l)
                    c.count('carquet_encoded_%s_decoded_by_reference' % kind)
                    try:
                        tree, end = T.decode_struct(data)
                    except T.ThriftError as e:
                        c.violation('conformance:reference-decoder-rejects-carquet-bytes:%s' % kind, 'case %s/%d: %s' % (d[-2:], n, e), files={'bytes.bin': data}); continue
                    if end != len(data):
                        c.violation('conformance:trailing-bytes-after-struct:%s' % kind, 'case %d: struct ends at %d of %d' % (n, end, len(data)), files={'bytes.bin': data})
                    problems = []
                    got = sorted(I.flatten(tree, sname, problems=problems))
                    for pmsg in problems[:3]:
                        c.violation('conformance:wire-type-or-field-id:' + field_class(pmsg.split(':')[0]), '%s case %d: %s' % (kind, n, pmsg), files={'bytes.bin': data})
                    if got != want:
                        sg, sw = set(got), set(want); diff = [l for l in want if l not in sg][:1] + [l for l in got if l not in sw][:1]
                        c.violation('conformance:reference-decodes-different-fields:%s:%s' % (kind, field_class(diff[0]) if diff else '?'), '%s case %d: first differing line(s): %r' % (kind, n, [x[:160] for x in diff]), files={'bytes.bin': data, 'carquet_dump.txt': '\n'.join(want), 'reference_dump.txt': '\n'.join(got)})
                    if len(c.samples) < 2 and kind == 'ph':
                        c.sample({'direction': 'carquet->reference', 'kind': kind, 'bytes': data[:40].hex(), 'fields': got[:6]})
        # ---------------- direction 2: reference encodes, carquet parses ----------------
        rng = random.Random(c.seed * 7 + 3)
        d2 = os.path.join(base, 'r'); os.makedirs(d2)
        cases = []
        count = 6000 if thorough else 900
        for n in range(count):
            kind = 'fm' if n % 2 == 0 else 'ph'
            tree = I.rnd_file_metadata(rng) if kind == 'fm' else I.rnd_page_header(rng)
            variant = n % 6
            enc_tree = tree
            kw = {}
            if variant in (1, 4):
                kw['long_fields'] = True
            if variant in (2, 4):
                kw['long_lists'] = True
            if variant in (3, 4, 5):
                enc_tree = I.sprinkle_unknown(rng, tree, 'FileMetaData' if kind == 'fm' else 'PageHeader')
            if variant == 5:
                kw['long_fields'] = 'maybe'; kw['long_lists'] = 'maybe'; kw['rng'] = rng
            data = T.encode_struct(enc_tree, **kw)
            # the reference decoder must read its own bytes back (harness sanity)
            back, end = T.decode_struct(data)
            if end != len(data) or I.flatten(back, None) != I.flatten(enc_tree, None):
                c.fail_harness('reference thrift codec does not round-trip its own tree (case %d)' % n); break
            extra = bytes(rng.randrange(256) for _ in range(rng.randrange(0, 30))) if kind == 'ph' else b''
            path = os.path.join(d2, '%d.%s.bin' % (n, kind))
            open(path, 'wb').write(data + extra)
            exp = I.flatten(tree, 'FileMetaData' if kind == 'fm' else 'PageHeader', modelled_only=True)
            if kind == 'ph':
                if any(l.startswith('8.1 ') for l in exp) and not any(l.startswith('8.7 ') for l in exp):
                    exp.append('8.7 BOOL 1')          # DataPageHeaderV2.is_compressed: optional, default true
                exp = [l for l in exp if not l.startswith('5.5.')]
                exp = [('5.5 PRESENT' if l == '5.5 STRUCT' else l) for l in exp]
            cases.append((n, kind, path, len(data), sorted(exp), variant, data))
        shards = []
        for i in range(0, len(cases), 150):
            shards.append(['parse', d2] + [cs[2] for cs in cases[i:i + 150]])
        vlib.run_shards(c, exe, shards, cpu_limit=3000)
        vnames = ['plain', 'long-field-headers', 'long-list-headers', 'unknown-fields', 'unknown+long', 'unknown+mixed-forms']
        for n, kind, path, dlen, exp, variant, data in cases:
            op = path + '.out.txt'
            if not os.path.exists(op):
                continue
            lines = [l for l in open(op).read().split('\n') if l]
            c.count('reference_encoded_%s_parsed_by_carquet' % kind); c.count('variant_' + vnames[variant])
            c.case(hashlib.sha1(data).hexdigest()[:16])
            if not lines or not lines[0].startswith('OK'):
                c.violation('parse:carquet-rejects-reference-encoding:%s:%s' % (kind, vnames[variant]), 'case %d: %s' % (n, lines[:1]), files={'bytes.bin': data}); continue
            if kind == 'ph' and lines[0] != 'OK bytes_read=%d' % dlen:
                c.violation('parse:page-header-bytes-read:%s' % vnames[variant], 'case %d: %s, header is %d bytes' % (n, lines[0], dlen), files={'bytes.bin': data})
            got = sorted(lines[1:])
            if got != exp:
                sg, se = set(got), set(exp); diff = [l for l in exp if l not in sg][:1] + [l for l in got if l not in se][:1]
                c.violation('parse:carquet-parses-different-fields:%s:%s:%s' % (kind, vnames[variant], field_class(diff[0]) if diff else '?'), 'case %d: first differing line(s): %r' % (n, [x[:160] for x in diff]), files={'bytes.bin': data, 'expected.txt': '\n'.join(exp), 'carquet.txt': '\n'.join(got)})
    finally:
        shutil.rmtree(base, ignore_errors=True)
    c.rule = ('direction 1: random parquet_file_metadata_t / parquet_page_header_t structures (serialisable domain) are written by carquet, re-parsed by carquet (canonical dumps compared, bytes_read checked '
              'with trailing garbage) and the bytes decoded by ref/thrift_compact.py; field ids, wire types (against the parquet.thrift table in ref/thrift_idl.py) and values must match the structure. '
              'direction 2: trees generated from the IDL are encoded by the reference encoder in 6 variants (short/long field headers, short/long list headers, unknown fields of every wire type incl. '
              'list<bool>, nested struct/map/set, id gaps > 15) and parsed by carquet; the modelled part must come back unchanged. distinct = structure hashes')
    c.assumptions = ['names contain no NUL byte (C strings)', 'type_length/num_children <= 0, zero scale/precision and empty binary statistics are outside the serialisable domain',
                     'page-header statistics content: the carquet write -> carquet parse round trip compares it (open known finding: the parser skips it); for reference-encoded headers only its presence is compared, so that the same finding is not reported under a second key']
    for k in ('file_metadata_roundtrips', 'page_header_roundtrips', 'carquet_encoded_fm_decoded_by_reference', 'carquet_encoded_ph_decoded_by_reference', 'reference_encoded_fm_parsed_by_carquet',
              'reference_encoded_ph_parsed_by_carquet', 'variant_unknown-fields', 'variant_long-field-headers', 'variant_long-list-headers'):
        c.require(k)


if __name__ == '__main__':
    vlib.run_main('C13', 'exploration', main)
