#!/usr/bin/env python3
"""C02: reader output is independent of the consumption history (reference cursor model, ASan)."""
import os, sys, shutil
sys.path.insert(0, os.path.join(os.path.dirname(os.path.abspath(__file__)), '..', 'bin')); sys.path.insert(0, os.path.join(os.path.dirname(os.path.abspath(__file__)), '..', 'ref'))
import vlib


def main(c):
    exe = vlib.build_driver('c02', 'asan')
    scale = 2 if c.tier == 'thorough' else 1
    base = vlib.scratch_dir('c02')
    try:
        shards = []
        for k in range(16 if c.tier == 'thorough' else 8):
            d = os.path.join(base, 'g%d' % k); os.makedirs(d)
            shards.append(['gen', c.seed * 1000 + k, scale, d])
        vlib.run_shards(c, exe, shards, cpu_limit=3000)
        try:
            import refgen
            refgen.run_c02(c, exe, base, scale)
        except ImportError:
            c.count('reference_written_files', 0)
        if c.tier == 'thorough':
            # second opinion: the same histories in a plain -O2 build under valgrind memcheck (uninitialised values reaching a
            # branch or an address, invalid accesses inside arena memory). The driver's own verdict lines are not re-counted here.
            vexe = vlib.build_driver('c02', 'plain')
            d = os.path.join(base, 'vg'); os.makedirs(d)
            c3 = vlib.Check('C02', 'exploration', ['--tier', c.tier])
            r = vlib.run_valgrind(c3, [vexe, 'gen', str(c.seed * 1000 + 900), '1', d], timeout=3 * 3600, what='c02 gen under memcheck')
            for k2, v in c3.observed.items():
                c.count(k2, v)
            for key, what, rd, n in c3.violations:
                c.violation(key, what, text=open(os.path.join(rd, 'README')).read())
            for m in c3.inconclusive:
                c.fail_harness(m)
    finally:
        shutil.rmtree(base, ignore_errors=True)
    c.rule = ('per column chunk a reference cursor (rows delivered, dense values delivered) over the model table predicts every observation of read_batch/skip/has_next/remaining/'
              're-create; bounded-exhaustive histories (length <= 3, thorough 4) over a 15-symbol alphabet on chunks of <= 12 rows, random histories of <= 31 ops elsewhere; user buffers are '
              'exact-size (k slots) heap blocks; batch reader: 12 batch sizes x projections, per batch equal row counts in all columns, null bitmap vs definition levels with one learned '
              'polarity, concatenation equals the column content. Thorough: the generated-table histories once more in a plain -O2 build under valgrind memcheck; errors whose innermost frame is carquet code are violations. distinct = hash(history, chunk levels) / hash(batch configuration)')
    c.assumptions = ['read_batch(k) may deliver fewer than k rows (documented "up to") but never 0 while rows remain', 'num_threads=1 (schedules are C07)']
    for k in ('histories_run', 'hist_partial_reads', 'hist_skip_inside_chunk', 'hist_k0_calls', 'hist_recreations', 'chunks_with_exhaustive_histories',
              'batches_checked', 'null_bitmaps_checked', 'projections_checked', 'files_with_multi_page_chunks', 'batches_splitting_row_group'):
        c.require(k)


if __name__ == '__main__':
    vlib.run_main('C02', 'exploration', main)
