#!/usr/bin/env python3
"""C09: codecs round-trip every input and honour their size bounds (ASan, exact-size blocks)."""
import os, sys
sys.path.insert(0, os.path.join(os.path.dirname(os.path.abspath(__file__)), '..', 'bin'))
import vlib


def main(c):
    exe = vlib.build_driver('codecs', 'asan', extra_ldflags=['-lsnappy', '-llz4'])
    scale = 2 if c.tier == 'thorough' else 1
    shards = [['c09', codec, c.seed, scale] for codec in ('snappy', 'lz4', 'gzip', 'zstd')]
    if c.tier == 'thorough':
        shards += [['c09', codec, c.seed * 100 + k, 2] for codec in ('snappy', 'lz4') for k in range(1, 5)]
        shards += [['c09', codec, c.seed * 100 + k, 2] for codec in ('gzip', 'zstd') for k in range(1, 3)]
    vlib.run_shards(c, exe, shards, cpu_limit=3000, timeout=3600)
    c.rule = ('per codec: compress into an exact compress_bound block, decompress exactly the reported length into an exact len(x) block; '
              'destinations below the bound (bound-1, len, len/2, 1, 0) and decompression destinations below len (len-1, len/2, 0); all blocks are exact-size heap '
              'allocations under ASan. distinct = hash of (first 4 KiB, length, pattern, level), length >= 2')
    c.assumptions = ['zlib/libzstd are the system libraries the repository links', 'an explicit refusal for a destination below the bound is acceptable']
    for k in ('inputs_over_64k', 'small_dst_compress_refused', 'small_dst_decompress_refused'):
        c.require(k)


if __name__ == '__main__':
    vlib.run_main('C09', 'exploration', main)
