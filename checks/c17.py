#!/usr/bin/env python3
"""C17: schema trees map to the right leaf columns and def/rep levels (exhaustive small forests + sampled + builder)."""
import os, sys, shutil, random
from concurrent.futures import ProcessPoolExecutor
HERE = os.path.dirname(os.path.abspath(__file__))
sys.path.insert(0, os.path.join(HERE, '..', 'bin')); sys.path.insert(0, os.path.join(HERE, '..', 'ref'))
import vlib, schemagen, refgen


def build_exh(args):
    path, maxn, part, nparts = args
    n = 0
    with open(path, 'wb') as f:
        for i, r in enumerate(schemagen.exhaustive(maxn)):
            if i % nparts == part:
                f.write(r); n += 1
    return n


def build_sampled(args):
    path, seed, count, lo, hi = args
    rng = random.Random(seed)
    with open(path, 'wb') as f:
        for r in schemagen.sampled(rng, count, lo, hi):
            f.write(r)
    return count


def main(c):
    exe = vlib.build_driver('c17', 'asan')
    exe2 = vlib.build_driver('c02', 'asan')
    thorough = c.tier == 'thorough'
    maxn = 6 if thorough else 4
    base = vlib.scratch_dir('c17')
    try:
        nparts = 16 if thorough else 2
        jobs = [(os.path.join(base, 'exh%d.pack' % p), maxn, p, nparts) for p in range(nparts)]
        sj = [(os.path.join(base, 'smp%d.pack' % k), c.seed * 100 + k, 6000 if thorough else 700, 5 if not thorough else 7, 8) for k in range(4)]
        sj += [(os.path.join(base, 'big%d.pack' % k), c.seed * 100 + 50 + k, 400 if thorough else 80, 9, 60) for k in range(2)]
        with ProcessPoolExecutor(vlib.NCPU) as ex:
            ne = sum(ex.map(build_exh, jobs)); ns = sum(ex.map(build_sampled, sj))
        c.count('exhaustive_forest_footers', ne); c.count('sampled_footers', ns); c.count('exhaustive_max_nodes', maxn)
        shards = [['pack', j[0]] for j in jobs] + [['pack', j[0]] for j in sj] + [['builder', c.seed, 2 if thorough else 1]]
        vlib.run_shards(c, exe, shards, cpu_limit=3000)
        # levels actually used by column readers on data-bearing nested files
        d = os.path.join(base, 'nested'); os.makedirs(d)
        corpus = refgen.make_corpus(d, c.seed * 53 + 9, 300 if thorough else 40, nested_share=1.0)
        shards = []
        for i in range(0, len(corpus), 5):
            a = ['file', c.seed, 1]
            for pq, td, f in corpus[i:i + 5]:
                a += [pq, td]
            shards.append(a)
        vlib.run_shards(c, exe2, shards, cpu_limit=3000)
        c.count('data_bearing_nested_files', len(corpus))
    finally:
        shutil.rmtree(base, ignore_errors=True)
    c.exhaustive = True
    c.extra['exhaustive_scope'] = 'all ordered forests with <= %d nodes below the root x all REQUIRED/OPTIONAL/REPEATED labelings (physical types rotate); larger trees are sampled' % maxn
    c.rule = ('footers with zero row groups are built by the reference Thrift encoder for every ordered forest up to %d nodes x 3^n labelings, sampled forests of 5..8 nodes, random trees of 9..60 nodes to depth 12 '
              '(duplicate names, 3000-byte names, logical types); carquet opens each through open_buffer and reports elements, leaves in DFS order, max definition/repetition levels (internal arrays and the public '
              'per-node accessors), find_column; compared line by line with the textbook definition (ref/parquet_ref.schema_leaves). Builder: flat schemas of 0..300 (1000) columns. Nested data files: levels used by '
              'column readers under the C02 history monitor. distinct = hash of the expected description') % maxn
    c.assumptions = ['find_column(name) is specified as the first leaf (DFS) whose own name equals name']
    for k in ('footers_checked', 'schemas_with_leaves', 'builder_schemas', 'builder_past_initial_capacity', 'exhaustive_forest_footers', 'sampled_footers', 'data_bearing_nested_files', 'histories_run'):
        c.require(k)


if __name__ == '__main__':
    vlib.run_main('C17', 'exploration', main)
