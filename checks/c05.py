#!/usr/bin/env python3
"""C05: every file the writer reports complete is structurally valid Parquet (independent strict reader) and
writing is deterministic (two runs under different heap garbage are byte-identical)."""
import os, sys, shutil, re, hashlib
from concurrent.futures import ProcessPoolExecutor
HERE = os.path.dirname(os.path.abspath(__file__))
sys.path.insert(0, os.path.join(HERE, '..', 'bin')); sys.path.insert(0, os.path.join(HERE, '..', 'ref'))
import vlib


def canon(msg):
    m = re.sub(r'\[[-\d, ]+\]', '', msg)
    m = re.sub(r'-?\d+', 'N', m)
    m = re.sub(r'\s+', '-', m.strip())
    return m[:70]


def validate_one(args):
    path, tdmp = args
    import parquet_ref as P
    res = {'path': path, 'problems': [], 'pages': 0, 'chunks_multi_page': 0, 'codec': None, 'rows': 0, 'crc_pages': 0, 'stat_pages': 0}
    try:
        data = open(path, 'rb').read()
        f = P.ParquetFile(data)
        meta_txt = open(path[:-8] + '.meta').read()
        if 'counts-only' not in meta_txt:
            res['problems'] = f.validate()
        if 'counts-only' in meta_txt:
            # a table too long to decode here (2^31 rows): the counts are added up page header by page header
            res['counts_only'] = True
            want = int(re.search(r'rows=(\d+)', meta_txt).group(1))
            if f.num_rows != want:
                res['problems'].append('counts: file num_rows %d, %d rows were written' % (f.num_rows, want))
            tot = 0
            for gi, rg in enumerate(f.row_groups):
                tot += rg['num_rows']
                for ci, col in enumerate(rg['columns']):
                    try:
                        pages = f.pages_of(gi, ci)
                    except P.ParquetError as e:
                        res['problems'].append('counts: ' + str(e)); continue
                    res['pages'] += len(pages)
                    nv = sum(P.fget(p.dph, 1) or 0 for p in pages if p.dph is not None)
                    if nv != col['num_values']:
                        res['problems'].append('counts: chunk [%d,%d] pages hold %d values, metadata says %d' % (gi, ci, nv, col['num_values']))
                    if f.leaves[ci].max_rep == 0 and nv != rg['num_rows']:
                        res['problems'].append('counts: chunk [%d,%d] pages hold %d rows, row group says %d' % (gi, ci, nv, rg['num_rows']))
            if tot != f.num_rows:
                res['problems'].append('counts: row groups hold %d rows, file says %d' % (tot, f.num_rows))
            res['rows'] = f.num_rows
            return res
        if 'structure-only' in meta_txt:
            # a history in which the application ignored a refused call: only the file's own consistency is judged
            res['structure_only'] = True
            for gi, rg in enumerate(f.row_groups):
                for ci in range(len(rg['columns'])):
                    try:
                        ch = f.read_chunk(gi, ci); res['pages'] += len(ch.pages)
                    except P.ParquetError as e:
                        res['problems'].append('table: ' + str(e))
            res['rows'] = f.num_rows
            return res
        cols, groups = P.tdmp_read(tdmp)
        # table equality (ignoring empty row groups on both sides)
        fg = [(gi, rg) for gi, rg in enumerate(f.row_groups) if rg['num_rows'] > 0]
        mg = [g for g in groups if g[0] > 0]
        if len(f.leaves) != len(cols):
            res['problems'].append('table: %d columns in file, %d written' % (len(f.leaves), len(cols)))
        elif [rg['num_rows'] for _, rg in fg] != [g[0] for g in mg]:
            res['problems'].append('table: row group partition differs')
        else:
            for lf, c in zip(f.leaves, cols):
                if lf.name.encode('utf-8', 'surrogateescape') != c['name'] or lf.ptype != c['type'] or lf.repetition != c['repetition'] or (lf.ptype == 7 and lf.type_length != c['type_length']):
                    res['problems'].append('table: schema of column %r differs' % c['name'])
            for (gi, rg), (nrows, mcols) in zip(fg, mg):
                for ci, (defs, reps, vals) in enumerate(mcols):
                    try:
                        ch = f.read_chunk(gi, ci)
                    except P.ParquetError as e:
                        res['problems'].append('table: ' + str(e)); continue
                    res['pages'] += len(ch.pages)
                    res['crc_pages'] += sum(1 for p in ch.pages if p.crc is not None)
                    res['stat_pages'] += sum(1 for s, _, _ in ch.page_stats if s is not None)
                    if len(ch.pages) >= 2:
                        res['chunks_multi_page'] += 1
                    res['codec'] = rg['columns'][ci]['codec']
                    lf = f.leaves[ci]
                    if [d == lf.max_def for d in ch.defs] != [d == lf.max_def for d in defs]:
                        res['problems'].append('table: null positions differ in chunk [%d,%d]' % (gi, ci))
                    elif lf.ptype == 0:
                        if [1 if v else 0 for v in ch.values] != [1 if v else 0 for v in vals]:
                            res['problems'].append('table: values differ in chunk [%d,%d]' % (gi, ci))
                    elif [bytes(v) for v in ch.values] != [bytes(v) for v in vals]:
                        res['problems'].append('table: values differ in chunk [%d,%d]' % (gi, ci))
        res['rows'] = f.num_rows
    except P.ParquetError as e:
        res['problems'].append('rejected: ' + str(e))
    except Exception as e:                       # harness defect, not a verdict
        res['harness'] = repr(e)
    return res


def main(c):
    exe = vlib.build_driver('c01', 'plain')
    scale = 1                                    # the pure-Python reader bounds the volume: the thorough tier doubles the number of generator shards (other seeds) and adds the 2^31-row table and the valgrind pass
    nsh = 6 if c.tier == 'thorough' else 3
    base = vlib.scratch_dir('c05')
    try:
        runs = {}
        for tag, perturb in (('A', '85'), ('B', '170')):
            shards = []
            for k in range(nsh):
                w = os.path.join(base, tag, 'w%d' % k); kd = os.path.join(base, tag, 'k%d' % k); os.makedirs(w); os.makedirs(kd)
                shards.append(['gen', c.seed * 1000 + k, scale, w, kd])
            w = os.path.join(base, tag, 'we'); kd = os.path.join(base, tag, 'ke'); os.makedirs(w); os.makedirs(kd)
            if tag == 'A' or c.tier == 'thorough':
                shards.append(['enum', c.seed, 1, w, kd])
            c2 = vlib.Check('C05', 'exploration', ['--tier', c.tier])   # scratch collector: the driver's own C01 verdicts are not C05's
            vlib.run_shards(c2, exe, shards, env=dict({'MALLOC_PERTURB_': perturb, 'CQV_NOISE': '2' if tag == 'A' else '5', 'CQV_KEEP_STRUCTURE_ONLY': '1'}, **({'CQV_ROWS_2_31': '1'} if c.tier == 'thorough' else {})), cpu_limit=3000)
            for m in c2.inconclusive:
                c.fail_harness('writer run %s: %s' % (tag, m))
            # every 6th table is also written through a pipe (a stream that cannot seek or tell) with the same write history and must
            # arrive as the same bytes: that verdict of the driver belongs to this property
            for key, what, rd, n in c2.violations:
                if key.startswith('stream-writer:'):
                    c.violation(key, what)
            if tag == 'A':
                c.count('tables_also_written_through_a_pipe', c2.observed.get('tables_also_written_through_a_pipe', 0))
            runs[tag] = shards
        # determinism
        ndet = 0
        for sh in runs['B']:
            kdB = sh[4]; kdA = kdB.replace(os.sep + 'B' + os.sep, os.sep + 'A' + os.sep)
            for fn in sorted(os.listdir(kdB)):
                if not fn.endswith('.parquet'):
                    continue
                a = open(os.path.join(kdA, fn), 'rb').read() if os.path.exists(os.path.join(kdA, fn)) else None
                b = open(os.path.join(kdB, fn), 'rb').read()
                ndet += 1
                if a != b:
                    first = next((i for i in range(min(len(a or b''), len(b))) if (a or b'')[i] != b[i]), min(len(a or b''), len(b)))
                    c.violation('determinism:files-differ-between-two-writes', '%s differs from the second write at byte %d (sizes %s/%d); seed shard %s' % (fn, first, len(a) if a is not None else None, len(b), sh[1]),
                                files={'first.parquet': a or b'', 'second.parquet': b})
        c.count('files_written_twice_and_compared', ndet)
        # strict reference reader over run A
        jobs = []
        for sh in runs['A']:
            kd = sh[4]
            for fn in sorted(os.listdir(kd)):
                if fn.endswith('.parquet'):
                    jobs.append((os.path.join(kd, fn), os.path.join(kd, fn[:-8] + '.tdmp')))
        # the pure-Python reader decodes about 1-2 MB/s per core: files above 4 MiB are validated up to a budget of 3 GiB per run
        # (smallest first within that class, so that every kind of large table is seen), the rest are counted as not validated
        # the two 16 MiB single-literal pages are 16.7 million one-byte values: minutes and gigabytes in pure Python; carquet's own round trip (C01) covers them
        heavy = [j for j in jobs if 'literal of 167772' in open(j[0][:-8] + '.meta').read()]
        c.count('single_16MiB_literal_files_left_to_C01', len(heavy)); jobs = [j for j in jobs if j not in heavy]
        small = [j for j in jobs if os.path.getsize(j[0]) <= (4 << 20)]
        large = sorted((j for j in jobs if os.path.getsize(j[0]) > (4 << 20)), key=lambda j: os.path.getsize(j[0]))
        budget = 3 << 30; taken = []
        for j in large:
            sz = os.path.getsize(j[0])
            if sz <= budget:
                taken.append(j); budget -= sz
        c.count('large_files_validated', len(taken)); c.count('large_files_beyond_the_validation_budget', len(large) - len(taken))
        jobs = small + taken
        with ProcessPoolExecutor(vlib.NCPU) as ex:
            results = list(ex.map(validate_one, jobs, chunksize=8))
        for r in results:
            if 'harness' in r:
                c.fail_harness('reference reader crashed on %s: %s' % (r['path'], r['harness'])); continue
            data = open(r['path'], 'rb').read()
            c.case(hashlib.sha1(data).hexdigest()[:16], nontrivial=r['rows'] > 0)
            if r.get('counts_only'):
                c.count('files_with_2^31_rows_counted_page_by_page')
            if r.get('structure_only'):
                c.count('files_closed_ok_after_a_refused_batch_validated')
            c.count('files_validated'); c.count('pages_parsed', r['pages']); c.count('chunks_with_2plus_pages', r['chunks_multi_page'])
            c.count('pages_with_crc', r['crc_pages']); c.count('pages_with_statistics', r['stat_pages'])
            if r['codec'] is not None:
                c.count('files_codec_%d' % r['codec'])
            for pmsg in r['problems']:
                c.violation(('after-refused-batch:' if r.get('structure_only') else 'refreader:') + canon(pmsg), '%s: %s' % (os.path.basename(r['path']), pmsg),
                            files={'file.parquet': data, 'model.tdmp': open(r['path'][:-8] + '.tdmp', 'rb').read(), 'meta.txt': open(r['path'][:-8] + '.meta').read()})
            if len(c.samples) < 3 and r['rows'] > 0:
                c.sample({'file': os.path.basename(r['path']), 'bytes': len(data), 'rows': r['rows'], 'pages': r['pages'], 'problems': r['problems'][:2]})
        if c.tier == 'thorough':
            valgrind_sample(c, base)
    finally:
        shutil.rmtree(base, ignore_errors=True)
    c.rule = ('tables of the C01 generator are written by a plain (-O2) build twice in separate processes under MALLOC_PERTURB_=85/170, with the stale stack filled with two different patterns before every write and, in the second run, an unrelated table written before every case (different process history), and compared byte for byte; every file is then '
              'parsed by ref/parquet_ref.py (strict: magic, footer length, required Thrift fields, chunk tiling of [4, footer), page chaining, value/row counts, encodings list, codec, '
              'IEEE CRC-32 of stored page bytes, uncompressed sizes, offsets) and the decoded table compared with the model dump. distinct = sha1 of file bytes, rows > 0')
    c.assumptions = ['total_uncompressed_size / total_byte_size accepted as sum of page payloads or payloads+headers', 'codec id 5 accepted as raw LZ4 block or Hadoop framing',
                     'ColumnChunk.file_offset only required to lie inside the file']
    for k in ('tables_also_written_through_a_pipe', 'files_closed_ok_after_a_refused_batch_validated', 'files_validated', 'chunks_with_2plus_pages', 'pages_with_crc', 'files_written_twice_and_compared', 'files_codec_0', 'files_codec_1', 'files_codec_2', 'files_codec_5', 'files_codec_6'):
        c.require(k)


def valgrind_sample(c, base):
    """memcheck pinpoints uninitialised bytes reaching write(2)."""
    exe = vlib.build_driver('c01', 'plain')
    w = os.path.join(base, 'vg'); os.makedirs(w)
    r = vlib.run(['valgrind', '--tool=memcheck', '--error-exitcode=0', '--track-origins=no', '-q', exe, 'gen', str(c.seed * 1000 + 77), '0', w], timeout=1800)
    err = r.stderr.decode('latin1')
    c.count('valgrind_runs')
    if 'points to uninitialised byte' in err and 'write' in err:
        c.violation('determinism:uninitialised-bytes-reach-the-file', 'valgrind memcheck: Syscall param write(buf) points to uninitialised byte(s)', text=err)


if __name__ == '__main__':
    vlib.run_main('C05', 'exploration', main)
