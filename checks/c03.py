#!/usr/bin/env python3
"""C03: file, mmap and in-memory-buffer reading are observationally equivalent (transcript comparison, ASan)."""
import os, sys, shutil
sys.path.insert(0, os.path.join(os.path.dirname(os.path.abspath(__file__)), '..', 'bin')); sys.path.insert(0, os.path.join(os.path.dirname(os.path.abspath(__file__)), '..', 'ref'))
import vlib


def main(c):
    exe = vlib.build_driver('c03', 'asan')
    scale = 2 if c.tier == 'thorough' else 1
    base = vlib.scratch_dir('c03')
    try:
        shards = []
        for k in range(16 if c.tier == 'thorough' else 8):
            d = os.path.join(base, 'g%d' % k); os.makedirs(d)
            shards.append(['gen', c.seed * 1000 + k, scale, d])
        vlib.run_shards(c, exe, shards, cpu_limit=3000)
        try:
            import refgen
            refgen.run_c03(c, exe, base, scale)
        except ImportError:
            pass
    finally:
        shutil.rmtree(base, ignore_errors=True)
    c.rule = ('for each valid file a transcript (metadata getters, schema accessors, statistics, column-reader content under a fixed history, batch-reader output at 6 batch sizes: rows, '
              'per-column value counts, null bitmap bits and dense value hashes) is produced for fread/mmap/buffer x verify_checksums on/off and compared line by line with the fread '
              'transcript; batches are kept alive until all later batches were fetched and zero-copy-eligible columns are re-hashed (ASan catches freed views). distinct = transcript hashes')
    c.assumptions = ['files come from carquet\'s own writer (after the C01 fixes) and from the reference writer', 'num_threads=1']
    for k in ('files_compared', 'can_zero_copy_true', 'files_mixing_eligible_and_non_eligible_columns', 'files_with_eligible_page_smaller_than_batch', 'retained_zero_copy_columns_rehashed'):
        c.require(k)


if __name__ == '__main__':
    vlib.run_main('C03', 'exploration', main)
