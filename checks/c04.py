#!/usr/bin/env python3
"""C04: no input file can make the reader memory-unsafe, hang or leak (structure-aware mutation fuzzing under ASan/UBSan/LSan)."""
import os, sys, shutil, random, re, hashlib
HERE = os.path.dirname(os.path.abspath(__file__))
sys.path.insert(0, os.path.join(HERE, '..', 'bin')); sys.path.insert(0, os.path.join(HERE, '..', 'ref'))
import vlib, refgen, mfile
import parquet_ref as P


def build_corpus(c, base, thorough):
    """valid seed files: carquet-written (all codecs/types) and reference-written (dictionary, nested, unknown fields)"""
    exe1 = vlib.build_driver('c01', 'plain')
    kd = os.path.join(base, 'k'); w = os.path.join(base, 'w'); os.makedirs(kd); os.makedirs(w)
    c2 = vlib.Check('C04', 'exploration', ['--tier', c.tier])
    vlib.run_shards(c2, exe1, [['gen', c.seed * 1000 + 77, 0, w, kd]], cpu_limit=3000)
    seeds = []
    for fn in sorted(os.listdir(kd)):
        if fn.endswith('.parquet'):
            d = open(os.path.join(kd, fn), 'rb').read()
            if 12 < len(d) <= 20000:
                seeds.append(d)
    seeds = seeds[:60 if thorough else 25]
    rd = os.path.join(base, 'r'); os.makedirs(rd)
    for pq, td, f in refgen.make_corpus(rd, c.seed * 19 + 3, 60 if thorough else 25, nested_share=0.5, features={'records': 20}):
        d = open(pq, 'rb').read()
        if len(d) <= 60000:
            seeds.append(d)
    parsed = []
    for d in seeds:
        try:
            parsed.append((d, P.ParquetFile(d)))
        except P.ParquetError:
            pass
    return parsed


def main(c):
    thorough = c.tier == 'thorough'
    exe = vlib.build_driver('c04', 'asan')
    base = vlib.scratch_dir('c04')
    try:
        corpus = build_corpus(c, base, thorough)
        c.count('seed_files', len(corpus))
        rng = random.Random(c.seed * 97 + 5)
        total = 120000 if thorough else 6000
        nsh = 16
        md = os.path.join(base, 'm'); os.makedirs(md)
        lists = [[] for _ in range(nsh)]
        classes = {}
        for i in range(total):
            d, f = corpus[rng.randrange(len(corpus))]
            try:
                m, cls = mfile.mutate(rng, d, f)
            except Exception as e:          # mutator defect: harness, not carquet
                c.fail_harness('mutator failed: %r' % e); break
            if i % 40 == 0:
                m, cls = d, 'unmodified-valid-file'
            p = os.path.join(md, 'i%06d.bin' % i)
            with open(p, 'wb') as fh:
                fh.write(m)
            lists[i % nsh].append(p)
            classes[p] = cls
            c.count('class_' + cls)
        # a few inputs above 16 MiB (window-growing loops have their ceilings there)
        for bi in range(6 if thorough else 2):
            d, f = corpus[rng.randrange(len(corpus))]
            r = mfile.big_garbage_page(rng, d, f, fill=[0xFF, 0x00, None][bi % 3])
            if r is None:
                continue
            p = os.path.join(md, 'big%02d.bin' % bi)
            with open(p, 'wb') as fh:
                fh.write(r[0])
            lists[bi % nsh].append(p); classes[p] = r[1]; c.count('class_' + r[1])
        env = {'ASAN_OPTIONS': vlib.ASAN_ENV['ASAN_OPTIONS'].replace('max_allocation_size_mb=1024', 'max_allocation_size_mb=512')}
        # ---- stage 2: coverage-guided generation (clang libFuzzer build of the same API program). The fuzzer only generates:
        # every unit it adds to the corpus joins the replay lists below; artifacts are re-run one per process and classified.
        fz = vlib.build_driver('fz_reader', 'fuzz')
        fzd = os.path.join(base, 'fz'); cdir = os.path.join(fzd, 'corpus'); os.makedirs(cdir)
        seednames = set()
        for i, (d, f) in enumerate(corpus):
            nm = hashlib.sha1(d).hexdigest(); seednames.add(nm); open(os.path.join(cdir, nm), 'wb').write(d)
        for p in rng.sample(sorted(classes), min(400, len(classes))):
            d = open(p, 'rb').read()
            if 12 <= len(d) <= 65536:
                nm = hashlib.sha1(d).hexdigest(); seednames.add(nm); open(os.path.join(cdir, nm), 'wb').write(d)
        jobs = 48 if thorough else 16
        runs = 400000 if thorough else 25000
        execd, unresolved = vlib.run_libfuzzer(c, fz, fzd, cdir, runs, jobs, 65536, env=dict(env, FZ_SEED=str(c.seed)), extra=['-dict=%s' % os.path.join(vlib.REPO, 'fuzz', 'parquet.dict')], seed=c.seed * 7 + 1)
        newunits = [fn for fn in sorted(os.listdir(cdir)) if fn not in seednames]
        c.count('libfuzzer_new_corpus_units', len(newunits))
        for k, fn in enumerate(newunits):
            p = os.path.join(cdir, fn); lists[k % nsh].append(p); classes[p] = 'libfuzzer-corpus-unit'; c.count('class_libfuzzer-corpus-unit')
        for ap, kind in unresolved:      # not reproducible one-per-process in the fuzz build: still goes through the gcc replay below
            lists[0].append(ap); classes[ap] = 'libfuzzer-artifact-' + kind

        def run_list(si):
            paths = lists[si]
            lf = os.path.join(base, 'list%d.txt' % si)
            open(lf, 'w').write('\n'.join(paths) + '\n')
            start = 0
            outs = []
            while start < len(paths):
                r = vlib.run([exe, lf, str(c.seed), str(start)], env=env, cpu_limit=3000, timeout=5400)
                out = r.stdout.decode('latin1'); err = r.stderr.decode('latin1')
                begins = [int(x) for x in re.findall(r'^BEGIN (\d+)$', out, re.M)]
                ends = set(int(x) for x in re.findall(r'^END (\d+)$', out, re.M))
                outs.append((r.returncode, out, err, start))
                if r.returncode == 0 and (not begins or begins[-1] in ends):
                    break
                # the input after the last BEGIN without END is the culprit; resume behind it
                culprit = begins[-1] if begins else start
                start = culprit + 1
            return si, outs
        results = vlib.pmap(run_list, range(nsh))
        for si, outs in results:
            paths = lists[si]
            for rc, out, err, start in outs:
                begins = [int(x) for x in re.findall(r'^BEGIN (\d+)$', out, re.M)]
                ends = set(int(x) for x in re.findall(r'^END (\d+)$', out, re.M))
                for line in out.splitlines():
                    if line.startswith('VIOL '):
                        key, _, detail = line[5:].partition(' | ')
                        mi = re.search(r'input=(\d+)', detail)
                        p = paths[int(mi.group(1))] if mi and int(mi.group(1)) < len(paths) else None
                        c.violation(key.strip(), '%s (%s)' % (detail, classes.get(p)), files={'input.bin': open(p, 'rb').read()} if p else None)
                    elif line.startswith('COUNT '):
                        _, n, v = line.split(' ', 2)
                        c.count(n, int(v))
                    elif line.startswith('HANG '):
                        p = paths[int(line.split()[1])]
                        c.violation('hang:reader:%s' % classes.get(p), 'input of %d bytes needs more than %d CPU-seconds (%s)' % (os.path.getsize(p), 20 + (os.path.getsize(p) >> 20) * 15, classes.get(p)), files={'input.bin': open(p, 'rb').read()})
                    elif line.startswith('EVAL '):
                        pass
                culprit = None
                if begins and begins[-1] not in ends:
                    culprit = paths[begins[-1]]
                key, adv = vlib.classify_sanitizer(err, rc)
                if adv:
                    c.count('advisory_ub', adv)
                if key and 'HARNESS/' in key:
                    c.fail_harness('sanitizer report inside the driver on %s: %s' % (culprit, err[-600:]))
                elif key:
                    cls = classes.get(culprit, '?')
                    c.violation(key, 'input %s (%s, %d bytes)' % (os.path.basename(culprit) if culprit else '?', cls, os.path.getsize(culprit) if culprit else -1),
                                files={'input.bin': open(culprit, 'rb').read()} if culprit else None, text=err)
                elif rc not in (0, 41) and culprit:
                    c.fail_harness('c04 shard exited %d on %s: %s' % (rc, culprit, err[-300:]))
            for p in paths:
                c.case(hashlib.sha1(open(p, 'rb').read()).hexdigest()[:16])
        c.sample({'mutation classes': sorted(set(classes.values()))[:12]})
    finally:
        shutil.rmtree(base, ignore_errors=True)
    c.rule = ('seed corpus of carquet-written and reference-written files (all types, codecs, dictionary pages, nested schemas, unknown fields); mutants from ref/mfile.py: single and paired footer integer fields set to '
              'boundary/inconsistent values, binary fields resized, list lengths changed, fields dropped, wire-type confusion, unknown struct/list/map nesting to 200 000 levels, same-length rewrites of page-header varints, '
              'level-length prefixes, page-body bytes, truncations, footer-length games, random bytes. Each input is opened through path, mmap and an exact-size heap copy and driven by a seeded API program (getters, schema '
              'walk, invalid indices, column readers with buffers sized from the schema, batch readers, statistics/pruning). Monitors: ASan, UBSan(bounds/null/pointer-overflow), LSan, 20 CPU-second timer per input, error-struct '
              'and index-range assertions. Stage 2: a clang libFuzzer build of the same API program (open_buffer on an exact-size copy) explores from the valid files and a sample of the mutants with coverage feedback '
              '(16 workers); every unit it adds to its corpus is replayed through the same three-path driver and its artifacts are re-run one per process and classified. distinct = sha1 of the input')
    c.assumptions = ['columns whose schema type_length is <= 0 or > 1 MiB are not read (no correct caller buffer exists)', 'allocations above 512 MiB fail as on a constrained machine',
                     'UBSan shift/overflow/alignment reports are advisory']
    c.require('libfuzzer_executions', 100000); c.require('libfuzzer_new_corpus_units', 50)
    c.require('open_succeeded'); c.require('open_rejected'); c.require('column_readers_exercised'); c.require('batches_from_mutants'); c.require('rows_delivered_from_mutants'); c.require('seed_files', 10)
    opened = c.observed.get('open_succeeded', 0); rej = c.observed.get('open_rejected', 0)
    if opened + rej and opened < 0.2 * (opened + rej):
        c.fail_harness('only %d of %d opens succeeded: mutations are too destructive to observe the read paths' % (opened, opened + rej))


if __name__ == '__main__':
    vlib.run_main('C04', 'exploration', main)
