#!/usr/bin/env python3
"""C19: allocation failure gives a clean error or the correct result (k-th allocation failpoint, ASan+LSan)."""
import os, sys, shutil, re, random
HERE = os.path.dirname(os.path.abspath(__file__))
sys.path.insert(0, os.path.join(HERE, '..', 'bin')); sys.path.insert(0, os.path.join(HERE, '..', 'ref'))
import vlib, refgen

HARNESS_REAL = ['-Dmalloc=__real_malloc', '-Dcalloc=__real_calloc', '-Drealloc=__real_realloc', '-Dstrdup=__real_strdup']
WRAP = ['-Wl,--wrap=malloc,--wrap=calloc,--wrap=realloc,--wrap=strdup', '-l:libzstd.a', '-l:libz.a']


def main(c):
    thorough = c.tier == 'thorough'
    # the harness itself must never be hit by the failpoint: its own allocation calls are compiled straight to the real allocator
    exe = vlib.build_driver('c19', 'asan', extra_cflags=HARNESS_REAL, extra_ldflags=WRAP)
    base = vlib.scratch_dir('c19')
    try:
        scenarios = ['schema', 'schemaon', 'misc'] + ['write%d' % i for i in range(5)] + ['goon%d' % i for i in ((0, 1, 2, 3, 4) if thorough else (0, 1))] + ['widewrite'] + ['read%d' % m for m in range(3)] + ['batch%d' % m for m in range(3)] + ['whole%d' % m for m in range(3)] + ['wideread0', 'wideread1'] + ['wideread%d' % (3 * v) for v in range(1, 4)] + ['sa_wideread0', 'sa_wideread1', 'sa_read0', 'sa_read2', 'sa_write0', 'sa_schema']
        if thorough:
            scenarios += ['read%d' % m for m in range(3, 15)] + ['batch%d' % m for m in range(3, 15)] + ['whole%d' % m for m in range(3, 15)] + ['wideread2']
        # dictionary files from the reference writer
        d = os.path.join(base, 'ref'); os.makedirs(d)
        corpus = refgen.make_corpus(d, c.seed * 7 + 1, 6 if thorough else 2, nested_share=0.0, features={'dict': True, 'unknown_fields': False, 'records': 40, 'ngroups': 1})
        extra = {}
        for i, (pq, td, f) in enumerate(corpus):
            for m in range(3):
                nm = 'dict%d' % m
                extra.setdefault(nm, []).append((pq, td))
        jobs = []
        env = {'LSAN_OPTIONS': 'exitcode=23'}
        for sc in scenarios + sorted(extra):
            variants = extra.get(sc, [None])
            for vi, var in enumerate(variants):
                args_tail = list(var) if var else []
                sigmap = os.path.join(base, 'sigmap'); r = vlib.run([exe, 'count', sc, base] + args_tail, env=dict(env, C19_SIGMAP=sigmap), cpu_limit=600)
                out = r.stdout.decode('latin1')
                m = re.search(r'K (\d+) SITES (\d+)', out)
                if r.returncode != 0 or not m:
                    key, adv = vlib.classify_sanitizer(r.stderr.decode('latin1'), r.returncode)
                    if key and 'HARNESS/' not in key:
                        c.violation(key, 'fault-free run of scenario %s' % sc, text=r.stderr.decode('latin1'))
                    else:
                        c.fail_harness('count run of %s failed: rc=%s %s' % (sc, r.returncode, r.stderr.decode('latin1')[-300:]))
                    continue
                for line in out.splitlines():
                    if line.startswith('VIOL '):
                        c.fail_harness('fault-free run of scenario %s does not pass its own oracle: %s' % (sc, line))
                K = int(m.group(1))
                c.count('K_%s' % sc, K); c.count('allocation_call_sites_%s' % sc, int(m.group(2)))
                step = 1
                if not thorough and K > 900:
                    step = max(1, K // 700)          # quick: about 700 evenly spaced indices on the very long histories (thorough enumerates all)
                ks = set(range(1, K + 1, step))
                # per call stack: the first two, a middle one and the last request of the fault-free history are always failed
                try:
                    import struct as _st
                    raw = open(sigmap, 'rb').read(); sigs = _st.unpack('<%dQ' % (len(raw) // 8), raw); os.unlink(sigmap)
                except Exception:
                    sigs = ()
                if len(sigs) == K:
                    occ = {}
                    for i, h in enumerate(sigs):
                        occ.setdefault(h, []).append(i + 1)
                    for h, lst in occ.items():
                        ks.update(lst[:2]); ks.add(lst[-1]); ks.add(lst[len(lst) // 2])
                    c.count('distinct_allocation_call_stacks_%s' % sc, len(occ)); c.count('distinct_allocation_call_stacks', len(occ))
                else:
                    c.fail_harness('no call-stack map for scenario %s (%d signatures for K=%d)' % (sc, len(sigs), K))
                for k in sorted(ks):
                    jobs.append((sc, k, args_tail))
        c.count('scenarios', len(set(j[0] for j in jobs)))

        def one(job):
            sc, k, tail = job
            r = vlib.run([exe, 'run', sc, str(k), base] + tail, env=env, cpu_limit=600, timeout=900)
            return job, r.returncode, r.stdout.decode('latin1'), r.stderr.decode('latin1')
        for (sc, k, tail), rc, out, err in vlib.pmap(one, jobs):
            c.case('%s:%d:%s' % (sc, k, os.path.basename(tail[0]) if tail else ''))
            tag = 'c19 run %s %d' % (sc, k)
            for line in out.splitlines():
                if line.startswith('VIOL '):
                    key, _, detail = line[5:].partition(' | ')
                    c.violation(key.strip(), '%s: %s' % (tag, detail), files={'cmd.txt': tag + ' ' + ' '.join(tail)})
                elif line.startswith('OUTCOME '):
                    c.count('outcome_clean_error_or_correct_success')
                    if 'failed_injected=1' in line:
                        c.count('allocation_failures_injected')
            key, adv = vlib.classify_sanitizer(err, rc)
            if key and 'HARNESS/' in key:
                c.fail_harness('%s: sanitizer report inside the driver: %s' % (tag, err[-400:]))
            elif key:
                # name the scenario class in the key so that different sites stay distinguishable
                c.violation('%s:%s' % (key, re.sub(r'\d+$', '', sc)), '%s (allocation #%d fails)' % (tag, k), files={'cmd.txt': tag + ' ' + ' '.join(tail), 'stderr.txt': err[-60000:]}, text=err)
            elif rc != 0:
                c.fail_harness('%s exited %d: %s' % (tag, rc, err[-200:]))
            if len(c.samples) < 3 and k in (1, 17):
                c.sample({'scenario': sc, 'failing allocation index': k, 'exit': rc, 'stdout': out.strip()[-120:]})
    finally:
        shutil.rmtree(base, ignore_errors=True)
    c.exhaustive = thorough
    c.extra['exhaustive_scope'] = 'for each scenario every allocation index 1..K fails once in its own process (quick: about 700 evenly spaced indices when K > 900)'
    c.rule = ('link-time interposition (--wrap) of malloc/calloc/realloc/strdup for carquet and statically linked zlib/zstd; the k-th request inside the scenario body returns NULL; scenarios: schema build past 64 columns, '
              'write of a nullable multi-type table per codec (2 row groups, several pages), the same write by an application that ignores the failed call, writes on and closes (a close that says OK must leave a file that reads to the end of every column), a 260-column 3-row-group write (arena growth), open+column reads and batch reads in each I/O mode, dictionary-file reads, statistics '
              'builder, Bloom filter, byte-array delta and dictionary encoders. ASan/LSan decide crashes, use-after-free and leaks; a call that reports success must have the fault-free effect (file reads back to the table / '
              'same values). distinct = (scenario, k)')
    c.assumptions = ['single-threaded (deterministic allocation order)', 'allocations inside libc/libgomp are not failed']
    for k in ('allocation_failures_injected', 'outcome_clean_error_or_correct_success', 'scenarios'):
        c.require(k)
    c.require('scenarios', 14)


if __name__ == '__main__':
    vlib.run_main('C19', 'fault_enumeration', main)
