#!/usr/bin/env python3
"""C12: encoded bytes follow the Parquet encoding specifications (both directions against spec-written codecs)."""
import re, os, sys, shutil, random, struct, hashlib
HERE = os.path.dirname(os.path.abspath(__file__))
sys.path.insert(0, os.path.join(HERE, '..', 'bin')); sys.path.insert(0, os.path.join(HERE, '..', 'ref'))
import vlib
import encodings_ref as E

KN = {0: 'plain', 1: 'rle', 2: 'rle-levels', 3: 'bitpack', 4: 'delta32', 5: 'delta64', 6: 'delta-length', 7: 'delta-byte-array', 8: 'bss-float', 9: 'bss-double', 10: 'bss-generic'}


def rec(kind, p1, p2, count, payload):
    return struct.pack('<5I', kind, p1, p2, count, len(payload)) + payload


def ba_payload(vals):
    return b''.join(struct.pack('<I', len(v)) + v for v in vals)


def parse_out(b):
    out = []
    p = 0
    while p + 12 <= len(b):
        st, aux, L = struct.unpack_from('<3I', b, p); p += 12
        out.append((st, aux, b[p:p + L])); p += L
    return out


def parse_ba(b, count):
    vals = []
    p = 0
    for _ in range(count):
        L = struct.unpack_from('<I', b, p)[0]; p += 4
        vals.append(b[p:p + L]); p += L
    return vals


def run_ints(rng, width, n, law):
    top = (1 << width) - 1 if width else 0
    out = []
    while len(out) < n:
        run = 1 if law == 0 else rng.randrange(1, 20) if law == 1 else (rng.randrange(1, 8) if rng.random() < 0.5 else rng.randrange(8, 40))
        v = rng.choice([0, top, rng.randrange(top + 1)])
        out += [v] * run
    return out[:n]


def delta_values(rng, bits, n, law):
    lo, hi = -(1 << (bits - 1)), (1 << (bits - 1)) - 1
    if law == 0:
        return [rng.randrange(lo, hi + 1) for _ in range(n)]
    if law == 1:
        return [hi if i & 1 else lo for i in range(n)]
    if law == 2:
        return [1000 + 3 * i for i in range(n)]
    w = rng.randrange(0, bits + 1)
    vals = [rng.randrange(lo, hi + 1)] if n else []
    m = (1 << bits) - 1
    for _ in range(1, n):
        d = rng.randrange(1 << w) if w else 0
        x = (vals[-1] + d) & m
        vals.append(x - (1 << bits) if x > hi else x)
    return vals


def gen_cases(rng, count):
    """yields dicts: kind,p1,p2,values(list),raw(payload of values)"""
    cases = []
    lens = [0, 1, 2, 7, 8, 9, 31, 32, 33, 64, 65, 127, 128, 129, 130, 257, 300, 1025]
    for i in range(count):
        kind = i % 11
        n = rng.choice(lens) if rng.random() < 0.7 else rng.randrange(0, 400)
        c = {'kind': kind, 'p1': 0, 'p2': 0}
        if kind == 0:
            pt = rng.choice([0, 1, 2, 3, 4, 5, 6, 7]); c['p1'] = pt
            if pt == 0:
                vals = [rng.randrange(2) for _ in range(n)]; raw = bytes(vals)
            elif pt == 6:
                vals = [bytes(rng.randrange(256) for _ in range(rng.choice([0, 1, 5, 300]) if rng.random() < 0.3 else rng.randrange(12))) for _ in range(n)]; raw = ba_payload(vals)
            else:
                w = {1: 4, 2: 8, 3: 12, 4: 4, 5: 8}.get(pt) or rng.randrange(1, 40)
                if pt == 7: c['p2'] = w
                vals = [bytes(rng.randrange(256) for _ in range(w)) for _ in range(n)]; raw = b''.join(vals)
        elif kind in (1, 2, 3):
            width = rng.randrange(0, 33) if kind != 2 else rng.randrange(0, 16)
            if kind == 3:
                width = rng.randrange(1, 33); n = (n // 8) * 8
            c['p1'] = width
            if kind == 1:
                c['p2'] = rng.choice([0, 0, 1, 2, 3, 4, 5])      # 0: one-shot encoder, else the streaming encoder fed run by run (put_repeat/put)
            vals = run_ints(rng, width, n, rng.randrange(3))
            raw = struct.pack('<%dI' % n, *vals) if kind != 2 else struct.pack('<%dh' % n, *vals)
        elif kind in (4, 5):
            bits = 32 if kind == 4 else 64
            vals = delta_values(rng, bits, n, rng.randrange(4))
            raw = struct.pack('<%d%s' % (n, 'i' if bits == 32 else 'q'), *vals)
        elif kind in (6, 7):
            n = max(n, 1)
            vals = []
            for j in range(n):
                L = rng.choice([0, 1, 3, 40]) if rng.random() < 0.3 else rng.randrange(16)
                v = bytes(rng.randrange(97, 100) for _ in range(L))
                if kind == 7 and vals and rng.random() < 0.6:
                    share = rng.randrange(len(vals[-1]) + 1)
                    v = vals[-1][:share] + v[share:]
                vals.append(v)
            raw = ba_payload(vals)
            c['p2'] = rng.choice([0, 0, 1, 2, 3])      # layout of the caller's byte arrays: separate blocks, or permuted views into one block
        else:
            w = 4 if kind == 8 else 8 if kind == 9 else rng.randrange(1, 40)
            c['p1'] = w if kind == 10 else 0
            vals = [bytes(rng.randrange(256) for _ in range(w)) for _ in range(n)]; raw = b''.join(vals)
        c['values'] = vals; c['raw'] = raw; c['n'] = len(vals)
        cases.append(c)
    return cases


def ref_decode(c, data):
    k, n = c['kind'], c['n']
    if k == 0:
        vals, pos = E.plain_decode(data, c['p1'], c['p2'], n)
        return vals, pos
    if k in (1, 2):
        return E.rle_decode(data, c['p1'], n)
    if k == 3:
        return E.bitunpack(data, n, c['p1'])
    if k in (4, 5):
        return E.delta_decode(data, 0, 32 if k == 4 else 64, n)
    if k == 6:
        return E.delta_length_decode(data, n)
    if k == 7:
        return E.delta_strings_decode(data, n)
    w = 4 if k == 8 else 8 if k == 9 else c['p1']
    return E.bss_decode(data, n, w)


def ref_encode(c, rng):
    k, vals = c['kind'], c['values']
    if k == 0:
        return E.plain_encode(vals, c['p1'], c['p2']), 'plain'
    if k in (1, 2):
        style = rng.choice(['greedy', 'rle_only', 'bitpack_only', 'mixed', 'zero_runs', 'long_final', 'pad_nonzero'])
        return E.rle_encode(vals, c['p1'], style, rng), style
    if k == 3:
        return E.bitpack(vals, c['p1']), 'lsb-first'
    if k in (4, 5):
        junk = rng.random() < 0.5
        # block layouts the specification allows (block a multiple of 128, mini-blocks a multiple of 32 values); carquet's own encoder only writes 128/4
        geo = rng.choice([(128, 4)] * 4 + [(128, 1), (128, 2), (256, 8), (256, 4), (256, 2), (384, 4), (512, 16), (1024, 32), (1024, 1)])
        return E.delta_encode(vals, 32 if k == 4 else 64, junk_unused_widths=junk, rng=rng, block=geo[0], nmini=geo[1]), ('junk-unused-widths' if junk else 'zero-unused-widths') + ('' if geo == (128, 4) else ':layout-%d-%d' % geo)
    if k in (6, 7):
        geo = rng.choice([(128, 4)] * 3 + [(128, 1), (256, 8), (256, 2), (512, 16), (1024, 1)])
        if geo != (128, 4):
            return (E.delta_length_encode if k == 6 else E.delta_strings_encode)(vals, block=geo[0], nmini=geo[1]), 'std:layout-%d-%d' % geo
    if k == 6:
        return E.delta_length_encode(vals), 'std'
    if k == 7:
        return E.delta_strings_encode(vals), 'std'
    w = 4 if k == 8 else 8 if k == 9 else c['p1']
    return E.bss_encode(vals, w), 'std'


def shape(c):
    k = c['kind']
    if k in (4, 5):
        bits = 32 if k == 4 else 64
        vals = c['values']
        m = (1 << bits) - 1
        maxw = 0
        for s in range(1, len(vals), 128):
            ds = []
            for i in range(s, min(s + 128, len(vals))):
                d = (vals[i] - vals[i - 1]) & m
                ds.append(d - (1 << bits) if d >> (bits - 1) else d)
            if ds:
                mn = min(ds)
                maxw = max(maxw, max(((d - mn) & m).bit_length() for d in ds))
        return 'max-width>32' if maxw > 32 else 'max-width<=32'
    if k == 0:
        return 'type%d' % c['p1']
    return 'any'


def main(c):
    exe = vlib.build_driver('c12', 'asan')
    thorough = c.tier == 'thorough'
    rng = random.Random(c.seed * 13 + 1)
    base = vlib.scratch_dir('c12')
    try:
        total = 150000 if thorough else 22000
        nsh = 16
        cases = gen_cases(rng, total)
        # ---------- direction 1: carquet encodes -> reference decodes
        shards = []
        per = (len(cases) + nsh - 1) // nsh
        for s in range(nsh):
            part = cases[s * per:(s + 1) * per]
            inp = os.path.join(base, 'e%d.in' % s); outp = os.path.join(base, 'e%d.out' % s)
            with open(inp, 'wb') as f:
                for cs in part:
                    f.write(rec(cs['kind'], cs['p1'], cs['p2'], cs['n'], cs['raw']))
            shards.append(['enc', inp, outp])
        vlib.run_shards(c, exe, shards, cpu_limit=3000)
        c.evaluations = 0; c._distinct_extra = 0
        for s in range(nsh):
            part = cases[s * per:(s + 1) * per]
            outp = os.path.join(base, 'e%d.out' % s)
            if not os.path.exists(outp):
                continue
            outs = parse_out(open(outp, 'rb').read())
            for cs, (st, aux, data) in zip(part, outs):
                name = KN[cs['kind']]
                c.case(hashlib.sha1(cs['raw'] + bytes([cs['kind'], cs['p1'] & 255])).hexdigest()[:16], nontrivial=cs['n'] >= 2)
                if st != 0:
                    c.count('encoder_refused_' + name); continue
                c.count('carquet_encoded_' + name)
                if cs['n'] == 0 and len(data) == 0:
                    continue          # nothing to decode: a reader that asks for 0 values reads nothing
                try:
                    vals, pos = ref_decode(cs, data)
                except (ValueError, IndexError, struct.error) as e:
                    c.violation('spec:reference-decoder-rejects-carquet-bytes:%s:%s' % (name, shape(cs)), '%s n=%d p1=%d: %s' % (name, cs['n'], cs['p1'], e), files={'encoded.bin': data, 'values.bin': cs['raw']}); continue
                want = cs['values']
                if cs['kind'] in (4, 5):
                    want = list(want)
                if list(vals) != list(want):
                    c.violation('spec:reference-decodes-different-values:%s:%s' % (name, shape(cs)), '%s n=%d p1=%d' % (name, cs['n'], cs['p1']), files={'encoded.bin': data, 'values.bin': cs['raw']})
                elif pos != len(data) and cs['kind'] not in (1, 2):
                    c.violation('spec:encoded-size-differs-from-spec-decoder-consumption:%s' % name, '%s n=%d: carquet wrote %d bytes, the reference decoder consumed %d' % (name, cs['n'], len(data), pos), files={'encoded.bin': data})
        # ---------- runs too long for one run header (thorough): the bytes are walked run by run, never expanded
        if thorough:
            huge = [(3, 6, 2**31 - 1), (3, 6, 2**31), (3, 6, 2**31 + 5), (8, 200, 2**32 + 3), (1, 1, 2**31 + 9)]
            inp = os.path.join(base, 'huge.in'); outp = os.path.join(base, 'huge.out')
            with open(inp, 'wb') as f:
                for w, v, run in huge:
                    f.write(rec(99, w, 0, 0, struct.pack('<Iq', v, run)))
            vlib.run_shards(c, exe, [['enc', inp, outp]], cpu_limit=3000)
            outs = parse_out(open(outp, 'rb').read()) if os.path.exists(outp) else []
            for (w, v, run), (st, aux, data) in zip(huge, outs):
                c.case('huge-run-%d-%d' % (w, run)); c.count('rle_runs_longer_than_one_header_can_hold')
                if st != 0:
                    c.count('encoder_refused_rle'); continue
                try:
                    runs, pos = E.rle_walk(data, w)
                    total = sum(r[1] if r[0] == 'rle' else len(r[1]) for r in runs)
                    flat_head = []
                    for r in runs:
                        flat_head += ([r[2]] * min(r[1], 20) if r[0] == 'rle' else list(r[1]))
                        if len(flat_head) > 20:
                            break
                    in_run = sum(r[1] for r in runs if r[0] == 'rle' and r[2] == v) + sum(sum(1 for x in r[1] if x == v) for r in runs if r[0] == 'bp')
                    if not (run + 2 <= total <= run + 9) or flat_head[0] != (5 & ((1 << w) - 1)) or in_run < run:
                        c.violation('spec:run-longer-than-2^31-not-described-by-the-stream', 'width %d: 1 + %d + 1 values encoded with status OK into %d bytes; the runs of the stream add up to %d values (%d of them the run value)' % (w, run, len(data), total, in_run), files={'encoded.bin': data})
                except (ValueError, IndexError) as e:
                    c.violation('spec:reference-decoder-rejects-carquet-bytes:rle:huge-run', 'width %d run %d: %s' % (w, run, e), files={'encoded.bin': data})
        # ---------- direction 2: reference encodes -> carquet decodes
        shards = []
        encd = []
        for s in range(nsh):
            part = cases[s * per:(s + 1) * per]
            inp = os.path.join(base, 'd%d.in' % s); outp = os.path.join(base, 'd%d.out' % s)
            row = []
            with open(inp, 'wb') as f:
                for cs in part:
                    data, style = ref_encode(cs, rng)
                    # sanity: the reference decoder must read the reference encoder's bytes
                    try:
                        back, _ = ref_decode(cs, data)
                        if list(back) != list(cs['values']):
                            raise ValueError('differs')
                    except Exception as e:
                        c.fail_harness('reference codec does not round-trip %s (%s): %s' % (KN[cs['kind']], style, e)); data = b''
                    p2 = cs['p2']
                    if cs['kind'] == 7:
                        p2 = sum(len(v) for v in cs['values'])       # work buffer: documented size = total length of all strings
                    f.write(rec(cs['kind'], cs['p1'], p2, cs['n'], data))
                    row.append((data, style))
            encd.append(row)
            shards.append(['dec', inp, outp])
        ev, de = c.evaluations, getattr(c, '_distinct_extra', 0)
        vlib.run_shards(c, exe, shards, cpu_limit=3000)
        c.evaluations = ev; c._distinct_extra = de
        for s in range(nsh):
            part = cases[s * per:(s + 1) * per]
            outp = os.path.join(base, 'd%d.out' % s)
            if not os.path.exists(outp):
                continue
            outs = parse_out(open(outp, 'rb').read())
            for cs, (data, style), (st, aux, out) in zip(part, encd[s], outs):
                name = KN[cs['kind']]
                c.case(hashlib.sha1(data + bytes([cs['kind']])).hexdigest()[:16], nontrivial=cs['n'] >= 2)
                c.count('reference_encoded_' + name); c.count('ref_style_' + style); style = re.sub(r':layout-\d+-\d+', ':other-block-layout', style)   # one key for all layouts
                if cs['n'] == 0 and cs['kind'] in (6, 7):
                    continue
                if st != 0:
                    if cs['n'] == 0:
                        c.count('decoder_refused_empty_' + name); continue
                    c.violation('spec:carquet-rejects-spec-stream:%s:%s:%s' % (name, style, shape(cs)), '%s n=%d p1=%d status=%d' % (name, cs['n'], cs['p1'], st), files={'encoded.bin': data, 'values.bin': cs['raw']}); continue
                k = cs['kind']
                if k == 0 and cs['p1'] == 6 or k in (6, 7):
                    got = parse_ba(out, cs['n']); want = cs['values']
                elif k == 0 and cs['p1'] == 0:
                    got = list(out); want = cs['values']
                elif k in (1, 3):
                    got = list(struct.unpack('<%dI' % cs['n'], out)); want = cs['values']
                elif k == 2:
                    got = list(struct.unpack('<%dh' % cs['n'], out)); want = cs['values']
                elif k in (4, 5):
                    got = list(struct.unpack('<%d%s' % (cs['n'], 'i' if k == 4 else 'q'), out)); want = cs['values']
                else:
                    got = out; want = b''.join(cs['values'])
                if got != want:
                    c.violation('spec:carquet-decodes-spec-stream-differently:%s:%s:%s' % (name, style, shape(cs)), '%s n=%d p1=%d' % (name, cs['n'], cs['p1']), files={'encoded.bin': data, 'values.bin': cs['raw']})
                if len(c.samples) < 3 and cs['n'] >= 8 and k in (1, 5, 7):
                    c.sample({'kind': name, 'n': cs['n'], 'style': style, 'encoded_hex': data[:32].hex()})
    finally:
        shutil.rmtree(base, ignore_errors=True)
    c.rule = ('value sequences from the C11-style generators (run-structured ints at every width, delta laws incl. wrap-around and chosen widths, byte arrays with shared prefixes, all PLAIN types, '
              'BSS widths 1..40) go through carquet\'s encoder and the spec-written decoder (ref/encodings_ref.py), and through the spec-written encoder (7 RLE styles incl. multi-group bit-packed runs, '
              'zero-length runs, padded final groups with non-zero padding, over-long final run; arbitrary width bytes for unused delta mini-blocks) and carquet\'s decoder. distinct = sha1(values/bytes, kind)')
    c.assumptions = ['raw bit packing is the LSB-first packing used inside the hybrid and delta encodings (counts multiple of 8)',
                     'an encoder refusal (non-OK) is counted, not a failure']
    for k in ('carquet_encoded_rle', 'carquet_encoded_delta64', 'reference_encoded_rle', 'reference_encoded_delta32', 'ref_style_bitpack_only', 'ref_style_zero_runs', 'ref_style_pad_nonzero', 'ref_style_junk-unused-widths'):
        c.require(k)


if __name__ == '__main__':
    vlib.run_main('C12', 'exploration', main)
