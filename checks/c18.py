#!/usr/bin/env python3
"""C18: truncated files are rejected and failed writes are never reported OK (crash-point / sink-fault enumeration)."""
import os, sys, shutil
HERE = os.path.dirname(os.path.abspath(__file__))
sys.path.insert(0, os.path.join(HERE, '..', 'bin')); sys.path.insert(0, os.path.join(HERE, '..', 'ref'))
import vlib
import parquet_ref as P


def exempt_cuts(data):
    """cut positions whose prefix the strict reference reader accepts as a complete Parquet file"""
    out = []
    pos = data.find(b'PAR1', 4)
    while pos != -1:
        cut = pos + 4
        if cut < len(data):
            try:
                f = P.ParquetFile(data[:cut])
                # unused bytes between the last chunk and the footer are a writer-quality matter (C05), not a reason for a reader to
                # refuse: user data holding a complete footer + length + magic IS a complete file for every reader
                if not [m for m in f.validate() if not m.startswith('data region ends at')]:
                    out.append(cut)
            except P.ParquetError:
                pass
        pos = data.find(b'PAR1', pos + 1)
    return out


def main(c):
    thorough = c.tier == 'thorough'
    exe = vlib.build_driver('c18', 'asan', extra_ldflags=['-Wl,--wrap=fclose'])
    exe1 = vlib.build_driver('c01', 'plain')
    base = vlib.scratch_dir('c18')
    try:
        kd = os.path.join(base, 'k'); w = os.path.join(base, 'w'); os.makedirs(kd); os.makedirs(w)
        c2 = vlib.Check('C18', 'fault_enumeration', ['--tier', c.tier])
        vlib.run_shards(c2, exe1, [['gen', c.seed * 1000 + 321 + k, 1, w, kd] for k in range(1)], cpu_limit=3000)
        cands = []
        for fn in sorted(os.listdir(kd)):
            if fn.endswith('.parquet'):
                p = os.path.join(kd, fn)
                d = open(p, 'rb').read()
                inner_magic = d.count(b'PAR1') - 2
                look = 'footer-lookalike' in open(p[:-8] + '.meta').read()
                if 12 < len(d) <= (65536 if thorough else 20000):
                    cands.append((-(inner_magic > 0), -inner_magic, len(d), p, d, look))
        cands.sort()
        want = 300 if thorough else 9
        # a third: pages full of <hostile 32-bit length>"PAR1" markers; a third: other files with inner PAR1 (byte-array look-alikes); a third: a spread of sizes
        lk = [x[:5] for x in cands if x[5]]; other = [x[:5] for x in cands if not x[5]]
        chosen = lk[:want // 3] + other[:want // 3] + other[len(other) // 2: len(other) // 2 + want - 2 * (want // 3)]
        c.count('files_with_hostile_length_markers', len(lk[:want // 3]))
        shards = []
        for i, (_, im, ln, p, d) in enumerate(chosen):
            ex = exempt_cuts(d)
            ef = os.path.join(base, 'e%d.txt' % i); td = os.path.join(base, 't%d' % i); os.makedirs(td)
            open(ef, 'w').write('\n'.join(str(x) for x in ex) + '\n')
            shards.append(['trunc', 1, p, ef, td])
            c.count('files_truncated'); c.count('cut_positions', ln); c.count('files_with_inner_PAR1', 1 if im < 0 else 0)
            if len(c.samples) < 3:
                c.sample({'file': os.path.basename(p), 'bytes': ln, 'inner PAR1 occurrences': -im, 'prefixes accepted by the reference reader': ex[:5], 'paths': 'fread, mmap, buffer at every cut position'})
        td = os.path.join(base, 'sink'); os.makedirs(td)
        shards.append(['sink', c.seed, 2 if thorough else 1, td])
        vlib.run_shards(c, exe, shards, cpu_limit=6000, timeout=7200)
    finally:
        shutil.rmtree(base, ignore_errors=True)
    c.exhaustive = True
    c.extra['exhaustive_scope'] = 'every cut position 0..len-1 of the selected files x 3 open paths; every write-callback index of the sink history x 3 failure kinds (sampled for 2 of them) x buffering modes; every RLIMIT_FSIZE value (step 1 or 3); abort after every write_batch prefix'
    c.rule = ('truncation: carquet-written files (byte-array contents seeded with footer look-alikes such as 00 01 00 00 00 "PAR1") are cut at every byte; each prefix is opened through fread, mmap and open_buffer and must be '
              'rejected unless the strict reference reader accepts the prefix as a complete file. sink failure: the same table is written to a fopencookie stream whose write callback fails at call i (returning 0 or a short count) '
              'under _IONBF/_IOLBF/_IOFBF, to a path under RLIMIT_FSIZE=N, and to /dev/full; either some writer call reports non-OK or the sink holds exactly the fault-free bytes. abort: path absent and descriptor count unchanged, also while the sink is failing (RLIMIT_FSIZE in a child process, fclose reporting EIO through a link-time wrapper); a path-based writer whose final fclose reports EIO must not return OK from close. '
              'distinct = (file, cut) / (table, failure index, buffering, kind)')
    c.assumptions = ['a caller-owned stream is flushed by carquet_writer_close (it documents "flush and close"); what the caller\'s own fclose reports afterwards is outside the property']
    for k in ('files_with_hostile_length_markers', 'prefixes_rejected', 'cuts_ending_in_magic', 'files_with_inner_PAR1', 'cookie_sink_failures_injected', 'cookie_failures_reported', 'fsize_limits_injected', 'fsize_failures_reported', 'dev_full_runs', 'aborts', 'aborts_under_file_size_limit', 'aborts_with_failing_fclose', 'fclose_failures_injected'):
        c.require(k)


if __name__ == '__main__':
    vlib.run_main('C18', 'fault_enumeration', main)
