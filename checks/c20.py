#!/usr/bin/env python3
"""C20: Bloom filters have no false negatives and follow the Parquet SBBF algorithm; XXH64 equals the reference."""
import os, sys
sys.path.insert(0, os.path.join(os.path.dirname(os.path.abspath(__file__)), '..', 'bin'))
import vlib


def main(c):
    exe = vlib.build_driver('c20', 'asan', extra_ldflags=['-lxxhash'])
    scale = 2 if c.tier == 'thorough' else 1
    shards = [['xxh', c.seed, scale], ['sbbf', c.seed, scale]]
    if c.tier == 'thorough':
        shards += [['sbbf', c.seed * 100 + k, 2] for k in range(1, 7)] + [['xxh', c.seed * 100 + 1, 2]]
    vlib.run_shards(c, exe, shards, cpu_limit=3000)
    c.rule = ('XXH64: every length 0..300(520) x 16 alignments x 5 seeds with the input flush against an ASan red zone, compared with libxxhash and a spec-written XXH64; '
              'filters: carquet inserts typed values, the monitor recomputes the bit array with a spec-written SBBF from XXH64(seed 0) of the PLAIN bytes and compares all bytes; '
              'membership after insert / write+read / merge. distinct = hash of (value hashes, filter size)')
    c.assumptions = ['libxxhash 0.8.1 is the XXH64 reference (cross-checked against a second implementation in the driver)']
    for k in ('non_power_of_two_block_counts', 'single_block_filters', 'membership_checks', 'xxh_large_inputs', 'size_requests'):
        c.require(k)


if __name__ == '__main__':
    vlib.run_main('C20', 'exploration', main)
