#!/usr/bin/env python3
"""C10: built-in Snappy and LZ4 speak the standard formats (two independent oracles per direction)."""
import os, sys
sys.path.insert(0, os.path.join(os.path.dirname(os.path.abspath(__file__)), '..', 'bin'))
import vlib


def main(c):
    exe = vlib.build_driver('codecs', 'asan', extra_ldflags=['-lsnappy', '-llz4'])
    scale = 2 if c.tier == 'thorough' else 1
    shards = [[m, codec, c.seed, scale] for m in ('c10enc', 'c10dec') for codec in ('snappy', 'lz4')]
    if c.tier == 'thorough':
        shards += [[m, codec, c.seed * 100 + k, 2] for m in ('c10enc', 'c10dec') for codec in ('snappy', 'lz4') for k in range(1, 4)]
    vlib.run_shards(c, exe, shards, cpu_limit=3000, timeout=3600)
    c.rule = ('direction 1: carquet-compressed inputs must decode to the input under the strict reference decoder (drivers/ref_codecs.h, written from the format '
              'documents) and under libsnappy / LZ4_decompress_safe, LZ4 blocks must obey the end-of-block rules; direction 2: grammar-built valid streams (validated by '
              'both oracles) must be accepted with identical output, streams both oracles reject for an unambiguous reason (offset 0, offset beyond output, truncated '
              'element, length mismatch, bad preamble) must be rejected. distinct = stream hashes')
    c.assumptions = ['trailing bytes after a complete payload and LZ4 blocks ending on a match are not classified (reference decoders differ)',
                     'libsnappy 1.1.9 and liblz4 1.9.4 as installed']
    for k in ('must_accept_streams', 'must_reject_streams', 'gen_copy1', 'gen_copy2', 'gen_copy4', 'gen_overlapping_copies', 'gen_literal_form2',
              'gen_match_len_extended', 'gen_literal_len_extended', 'gen_overlapping_matches', 'lz4_blocks_with_matches', 'compressed_smaller'):
        c.require(k)


if __name__ == '__main__':
    vlib.run_main('C10', 'exploration', main)
