#!/usr/bin/env python3
"""C14: page checksums are IEEE CRC-32 and page damage is always detected (bit-level fault enumeration)."""
import os, sys, shutil
HERE = os.path.dirname(os.path.abspath(__file__))
sys.path.insert(0, os.path.join(HERE, '..', 'bin')); sys.path.insert(0, os.path.join(HERE, '..', 'ref'))
import vlib
import parquet_ref as P


def page_ranges(path):
    f = P.ParquetFile(open(path, 'rb').read())
    out = []
    for gi, rg in enumerate(f.row_groups):
        for ci in range(len(rg['columns'])):
            row = 0
            pi = 0
            for p in f.pages_of(gi, ci):
                if p.type == P.PAGE_DATA:
                    n = P.fget(p.dph, 1)
                    out.append((gi, ci, pi, p.body, p.comp, row, n)); row += n; pi += 1
    return out, f


def main(c):
    thorough = c.tier == 'thorough'
    exe = vlib.build_driver('c14', 'asan')
    exe1 = vlib.build_driver('c01', 'plain')
    base = vlib.scratch_dir('c14')
    try:
        vlib.run_shards(c, exe, [['crc', c.seed, 2 if thorough else 1]], cpu_limit=3000)
        # fresh processes in which 2..16 threads make the first CRC call of the process at the same time
        vlib.run_shards(c, exe, [['crcfirst', c.seed * 100 + i, 2 + i % 15] for i in range(400 if thorough else 60)], cpu_limit=600)
        # small carquet-written files, all codecs, several pages per chunk, several columns
        kd = os.path.join(base, 'k'); w = os.path.join(base, 'w'); os.makedirs(kd); os.makedirs(w)
        c2 = vlib.Check('C14', 'fault_enumeration', ['--tier', c.tier])
        vlib.run_shards(c2, exe1, [['gen', c.seed * 1000 + 900, 0, w, kd]], cpu_limit=3000)
        # a second set written with the other writer switches flipped (no statistics, page index, bloom filters): page checksums do not depend on them
        kd2 = os.path.join(base, 'k2'); w2 = os.path.join(base, 'w2'); os.makedirs(kd2); os.makedirs(w2)
        vlib.run_shards(c2, exe1, [['gen', c.seed * 1000 + 901, 0, w2, kd2]], env={'CQV_WRITER_OPTS': 'nostats,index,bloom'}, cpu_limit=3000)
        for fn in os.listdir(kd2):
            os.rename(os.path.join(kd2, fn), os.path.join(kd, 'alt' + fn))
        cands = []
        for fn in sorted(os.listdir(kd), key=lambda x: (int(x.split('_')[1].split('.')[0]), x) if x.endswith('.parquet') else (0, x)):
            if not fn.endswith('.parquet'):
                continue
            path = os.path.join(kd, fn)
            try:
                ranges, f = page_ranges(path)
            except P.ParquetError:
                continue
            body = sum(r[4] for r in ranges)
            npages_ge1 = sum(1 for r in ranges if r[2] >= 1)
            ncols = len(f.leaves)
            codec = f.row_groups[0]['columns'][0]['codec'] if f.row_groups and f.row_groups[0]['columns'] else 0
            if 40 <= body <= (2500 if thorough else 700) and len(ranges) <= 400:
                cands.append((path, ranges, body, npages_ge1, ncols, codec))
        # pick files so that every codec, multi-page chunks and multi-column files are present
        quota = 12 if thorough else 2
        chosen = []
        for cd in (0, 1, 2, 5, 6):
            mine = [x for x in cands if x[5] == cd]
            mine.sort(key=lambda x: (-(x[3] >= 2 and x[4] >= 2), -(x[3] >= 1), x[2]))
            alt = [x for x in mine if os.path.basename(x[0]).startswith('alt')]; std = [x for x in mine if not os.path.basename(x[0]).startswith('alt')]
            chosen += std[:quota - quota // 2] + alt[:quota // 2]
            c.count('files_written_with_other_writer_switches', len(alt[:quota // 2]))
        shards = []
        for i, (path, ranges, body, ng1, ncols, codec) in enumerate(chosen):
            rf = os.path.join(base, 'r%d.txt' % i); td = os.path.join(base, 't%d' % i); os.makedirs(td)
            with open(rf, 'w') as fh:
                for r in ranges:
                    fh.write('%d %d %d %d %d %d %d\n' % r)
            shards.append(['damage', c.seed, 1, path, rf, td])
            c.count('files_damaged'); c.count('page_body_bytes_enumerated', body); c.count('files_codec_%d' % codec)
            if len(c.samples) < 3:
                c.sample({'file': os.path.basename(path), 'codec': codec, 'columns': ncols, 'data_pages': len(ranges), 'page_body_bytes': body, 'mutants': 'every single bit of every page body (+ byte and 2..32-bit burst variants on a sample); buffer mode for all, fread+mmap for every 7th'})
        vlib.run_shards(c, exe, shards, cpu_limit=6000, timeout=7200)
    finally:
        shutil.rmtree(base, ignore_errors=True)
    c.exhaustive = True
    c.extra['exhaustive_scope'] = 'every single-bit flip inside every data-page body of the selected files (buffer mode, verification on); byte/burst variants and the fread/mmap paths are sampled'
    c.rule = ('CRC: carquet_crc32 vs zlib crc32 for every length 0..300 (600) x 16 alignments x 3 contents, incremental update at every split point; damage: files written by carquet (all 5 codecs, 1..n pages per '
              'chunk, several columns), page-body byte ranges listed by the independent reader; for every bit of every page body the mutant is read with verify_checksums on through the column reader of the damaged chunk '
              '(must report an error before any row of the damaged page is delivered) and through the batch reader (some next() must fail before END_OF_DATA); with verification off the same mutants are read under ASan. '
              'distinct = (file, page, bit, kind)')
    c.assumptions = ['zlib crc32() is the IEEE 802.3 reference', 'an open failure on a mutant counts as detection']
    for k in ('single_bit_mutants', 'burst_mutants', 'byte_mutants', 'column_reader_mutants', 'batch_reader_mutants', 'pages_targeted_index_ge_1', 'incremental_splits', 'crc_large_inputs', 'undamaged_reads',
              'files_codec_0', 'files_codec_1', 'files_codec_2', 'files_codec_5', 'files_codec_6'):
        c.require(k)


if __name__ == '__main__':
    vlib.run_main('C14', 'fault_enumeration', main)
