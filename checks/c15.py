#!/usr/bin/env python3
"""C15: every SIMD kernel equals its scalar definition at every ISA level (guard pages + canaries)."""
import os, sys
sys.path.insert(0, os.path.join(os.path.dirname(os.path.abspath(__file__)), '..', 'bin'))
import vlib

CAPS = ['scalar', 'sse42', 'avx2', 'avx512f', 'avx512']


def main(c):
    scale = 2 if c.tier == 'thorough' else 1
    variants = ['plain', 'asan']
    for variant in variants:
        exe = vlib.build_driver('c15', variant)
        c2 = c
        results = []
        # direct kernels
        res = vlib.run_shards(c2, exe, [['direct-sse', c.seed, scale], ['direct-avx2', c.seed, scale], ['direct-avx512', c.seed, scale]], cpu_limit=3000)
        for cap in CAPS:
            vlib.run_shards(c2, exe, [['dispatch', c.seed, scale]], env={'CARQUET_VERIF_CPU_CAP': cap}, cpu_limit=3000)
            c.count('dispatch_caps_run')
        vlib.run_shards(c2, exe, [['dispatch', c.seed + 1000, scale]], cpu_limit=3000)
        if variant == 'plain':
            # every dispatched entry point once as the very first dispatched call of a fresh process
            vlib.run_shards(c2, exe, [['dispatch-first', c.seed, scale, k] for k in range(19)], cpu_limit=600)
        c.count('builds_run')
    if 'avx512_vbmi' in open('/proc/cpuinfo').read():
        # code paths that exist only when the library is compiled for AVX512-VBMI (#ifdef __AVX512VBMI__)
        exe = vlib.build_driver('c15', 'plainvbmi')
        vlib.run_shards(c, exe, [['direct-avx512', c.seed, scale]], cpu_limit=3000)
        vlib.run_shards(c, exe, [['dispatch', c.seed + 2000, scale]], cpu_limit=3000)
        c.count('vbmi_build_runs')
    c.rule = ('for each kernel x {SSE4.2, AVX2, AVX-512 direct; dispatcher under CARQUET_VERIF_CPU_CAP in scalar/sse42/avx2/avx512f/avx512/native}: every count 0..130 (320 thorough) '
              'x placements {array end flush against a PROT_NONE page, start flush against a PROT_NONE page, mid-page at misalignments} x value laws, result compared with the scalar '
              'definition restated in the driver; canary windows around every output detect writes outside [0,count). distinct = hash(input, kernel, placement)')
    c.assumptions = ['inputs stay in each kernel\'s documented domain (pack_bools inputs 0/1, gather indices < dictionary size, null bitmap pre-zeroed)',
                     'this CPU implements every instruction set, so a capability set lacking an instruction cannot fault here; only result equality is observable for caps']
    c.exhaustive = (c.tier == 'thorough')
    c.extra['explanation_exhaustive'] = 'thorough enumerates counts 0..320 x misalignments 0..63 x both flush placements completely; values are sampled (3 laws)'
    c.require('kernels_exercised', 100)
    c.require('dispatch_caps_run', 5)


if __name__ == '__main__':
    vlib.run_main('C15', 'exploration', main)
